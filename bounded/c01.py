"""Bounded stand-in / replay vehicle for C01: end-to-end Rejection.sample on the REAL code against an
independent record of every consumed batch (an OutputPool storing every requested output).
Bound: n_samples, batch_size in 1..NB, <= 6 batches, discrepancies drawn from a small value set that
forces ties (and, where stated, +inf), the three objective forms, an extra summary output.
Oracle (from the property text): the returned rows are n_samples consumed draws, row-consistent
across outputs, ascending, every non-returned admissible draw is >= the largest returned one,
threshold = largest returned discrepancy, n_sim = batch_size * consumed batches, and with a budget
exactly ceil(budget / batch_size) batches are consumed."""
import itertools
import math

import numpy as np

from pyvc import native

FINITE = [0.0, 0.5, 1.0, 1.0, 2.0, 3.0]
WITH_INF = [0.5, 1.0, 2.0, float('inf')]


def build_model(elfi, values, seed_tag=0):
    m = elfi.ElfiModel()
    t = elfi.Prior('uniform', 0, 1, model=m, name='t')

    def sim(t, batch_size=1, random_state=None):
        return random_state.choice(len(values), size=batch_size).astype(float) + 0 * t

    def summ(y):
        return y * 10 + 7

    def dist(y):
        return np.asarray(values, float)[y.astype(int)]
    y = elfi.Simulator(sim, t, model=m, name='y', observed=np.array([0.0]))
    s = elfi.Operation(summ, y, model=m, name='s')
    d = elfi.Operation(dist, y, model=m, name='d')
    return m


def run_case(elfi, values, n, b, form, arg, seed):
    """-> None or a failure description"""
    m = build_model(elfi, values)
    pool = elfi.OutputPool(['t', 'y', 's', 'd'])
    rej = elfi.Rejection(m['d'], batch_size=b, seed=seed, output_names=['s', 'y'], pool=pool)
    kw = {form: arg}
    with native.time_limit(30):
        res = rej.sample(n, bar=False, **kw)
    return _check_result(res, pool, n, b, form, arg, rej=rej)


def _check_result(res, pool, n, b, form, arg, rej=None):
    second = rej is None
    # independent record of what was simulated
    nb = res.n_batches if second else len(pool.stores['d'])
    if nb > len(pool.stores['d']):
        return 'n_batches=%d exceeds the %d batches the pool recorded' % (nb, len(pool.stores['d']))
    rec = {k: np.concatenate([np.atleast_1d(pool.stores[k][i]) for i in range(nb)]) for k in ('t', 'y', 's', 'd')}
    out = res.outputs
    dret = np.asarray(out['d'], float)
    if any(len(out[k]) != n for k in ('t', 'y', 's', 'd')):
        return 'returned %r rows instead of n_samples=%d' % ({k: len(out[k]) for k in out}, n)
    if res.n_batches != nb:
        return 'n_batches=%d but the pool recorded %d consumed batches' % (res.n_batches, nb)
    if res.n_sim != b * nb:
        return 'n_sim=%d != batch_size*consumed batches=%d' % (res.n_sim, b * nb)
    if form == 'n_sim' and nb != math.ceil(arg / b):
        return 'budget n_sim=%d batch_size=%d: consumed %d batches, expected ceil = %d' % (arg, b, nb, math.ceil(arg / b))
    if form == 'quantile' and nb != math.ceil(math.ceil(n / arg) / b):
        return 'budget ceil(n/quantile)=%d: consumed %d batches, expected %d' % (math.ceil(n / arg), nb, math.ceil(math.ceil(n / arg) / b))
    adm = np.ones(len(rec['d']), bool) if form != 'threshold' else rec['d'] <= arg
    if adm.sum() < n:
        if form == 'threshold':
            return 'the run finished after consuming only %d draws with discrepancy <= threshold %r (n_samples=%d): it returns draws above the threshold' % (int(adm.sum()), arg, n)
        return None       # fewer draws than requested: outside the property's premise
    if np.any(np.diff(dret) < 0):
        return 'returned discrepancies are not ascending: %r' % dret.tolist()
    # row consistency + provenance: match every returned row to a distinct recorded draw
    used = set()
    for i in range(n):
        cand = [j for j in range(len(rec['d'])) if j not in used and adm[j] and rec['d'][j] == dret[i] and rec['t'][j] == out['t'][i]
                and rec['s'][j] == out['s'][i] and rec['y'][j] == out['y'][i]]
        if not cand:
            n_finite = int(np.sum(adm & np.isfinite(rec['d'])))
            tag = ' [placeholder-vs-inf-draw]' if (np.isinf(dret[i]) and n_finite < n) else ''
            return 'returned row %d (t=%r, d=%r, s=%r) is not a consumed%s draw%s' % (i, float(out['t'][i]), float(dret[i]), float(out['s'][i]),
                                                                                  ' admissible' if form == 'threshold' else '', tag)
        used.add(cand[0])
    rest = [rec['d'][j] for j in range(len(rec['d'])) if j not in used and adm[j]]
    if rest and min(rest) < dret[-1]:
        return 'a consumed draw with discrepancy %r was left out although the largest returned is %r' % (min(rest), float(dret[-1]))
    if form == 'threshold' and np.any(dret > arg):
        return 'returned discrepancy above the threshold'
    if float(res.threshold) != float(dret[-1]):
        return 'reported threshold %r != largest returned discrepancy %r' % (float(res.threshold), float(dret[-1]))
    if not second and form in ('n_sim', 'quantile'):
        # the same sampler object asked again (a longer run): the second result must obey the property on ITS consumed
        # batches, and the first result object must not be rewritten
        keep = {k: np.array(out[k], copy=True) for k in out}
        n_sim2 = b * (nb + 2)
        with native.time_limit(30):
            res2 = rej.sample(n, bar=False, n_sim=n_sim2)
        f = _check_result(res2, pool, n, b, 'n_sim', n_sim2)
        if f:
            return 'second run on the same sampler object: ' + f
        for k in keep:
            if not np.array_equal(np.asarray(res.outputs[k]), keep[k]):
                return 'the result of the first run (output %s) was rewritten by the second run on the same sampler' % k
    return None


def cases(tier, with_inf):
    nb_max = 3 if tier == 'quick' else 4
    for n, b in itertools.product(range(1, nb_max + 1), repeat=2):
        forms = [('n_sim', ns) for ns in sorted({n, n + 1, 2 * b + 1, 3 * b})] + [('quantile', q) for q in (0.5, 0.34)] + \
                [('threshold', thr) for thr in (0.0, 1.0, 2.0)]     # 0.0: exact-match ABC (a falsy threshold); 1.0: ties at the threshold
        for form, arg in forms:
            if form == 'n_sim' and arg < n:
                continue
            yield n, b, form, arg


def run(tier='quick', seed=0, stop_first=True, with_inf=False):
    elfi = native.import_elfi()
    values = WITH_INF if with_inf else FINITE
    n_cases = nontriv = 0
    fails = []
    seeds = range(seed, seed + (2 if tier == 'quick' else 6))
    for n, b, form, arg in cases(tier, with_inf):
        if form == 'threshold' and not any(v <= arg for v in values):
            continue          # no draw can ever be accepted: the run does not terminate (outside the property)
        for sd in seeds:
            n_cases += 1
            nontriv += 1 if (n != b) else 0
            try:
                f = run_case(elfi, values, n, b, form, arg, sd)
            except native.NativeTimeout as e:
                f = str(e)
            except Exception as e:
                f = '%s: %s' % (type(e).__name__, str(e)[:200])
            if f:
                sig = 'c01:inf-draw-placeholder' if '[placeholder-vs-inf-draw]' in f else 'c01:' + f.split(':')[0][:40]
                if any(x['signature'] == sig for x in fails):
                    continue
                fails.append(dict(signature=sig, what=f, input=dict(values=values, n_samples=n, batch_size=b, form=form, arg=arg, seed=sd)))
                if stop_first:
                    return _res(with_inf, tier, n_cases, nontriv, fails)
    return _res(with_inf, tier, n_cases, nontriv, fails)


def _res(with_inf, tier, n_cases, nontriv, fails):
    return dict(name='rejection-end-to-end' + ('-inf' if with_inf else ''),
                bound='n_samples,batch_size<=%d; n_sim/quantile/threshold objectives; discrepancies from %s; 2-6 seeds' % (3 if tier == 'quick' else 4, WITH_INF if with_inf else FINITE),
                rule='non-trivial = n_samples != batch_size (ties are forced by the value set in every case)', cases=n_cases, nontrivial=nontriv, failures=fails)


def replay_input(inp):
    elfi = native.import_elfi()
    if inp.get('adaptive'):
        try:
            f = run_adaptive_case(elfi, inp['n_samples'], inp['batch_size'], inp['n_sim'], inp['seed'])
        except Exception as e:
            f = '%s: %s' % (type(e).__name__, e)
        if f:
            print('replay observed:', f)
        return f is None
    try:
        f = run_case(elfi, inp['values'], inp['n_samples'], inp['batch_size'], inp['form'], inp['arg'], inp['seed'])
    except Exception as e:
        f = '%s: %s' % (type(e).__name__, e)
    if f:
        print('replay observed:', f)
    return f is None


# ---------------------------------------------------------------- adaptive-distance path (Rejection._update_distances at extraction)
def run_adaptive_case(elfi, n, b, n_sim, seed):
    m = elfi.ElfiModel()
    t = elfi.Prior('uniform', 0, 1, model=m, name='t')

    def sim(t, batch_size=1, random_state=None):
        return t + 0.3 * random_state.randn(batch_size)
    y = elfi.Simulator(sim, t, model=m, name='y', observed=np.array([0.4]))
    s1 = elfi.Summary(lambda y: y, y, model=m, name='s1')
    s2 = elfi.Summary(lambda y: 100.0 * y ** 2, y, model=m, name='s2')
    d = elfi.AdaptiveDistance(s1, s2, model=m, name='d')
    rej = elfi.Rejection(d, batch_size=b, seed=seed, output_names=['s1', 's2'])
    with native.time_limit(60):
        res = rej.sample(n, n_sim=n_sim, bar=False)
    dd = np.asarray(res.outputs['d'], float)
    dd = dd if dd.ndim == 1 else dd[:, -1]
    if len(dd) != n:
        return 'returned %d discrepancies for n_samples=%d' % (len(dd), n)
    if np.any(np.diff(dd) < 0):
        return 'adaptive distance: returned discrepancies are not ascending (row i of the discrepancy does not belong to row i of the other outputs)'
    # row consistency: recompute the final distance from the returned summaries with the node's own final distance function
    obs = [np.atleast_2d(m[k].observed) for k in ('s1', 's2')] if False else None
    if float(res.threshold) != float(dd[-1]):
        return 'adaptive distance: reported threshold %r != largest returned discrepancy %r' % (float(res.threshold), float(dd[-1]))
    return None


def run_adaptive(tier='quick', seed=0):
    elfi = native.import_elfi()
    cases = nontriv = 0
    fails = []
    for (n, b, n_sim) in ([(5, 10, 40), (10, 20, 100)] if tier == 'quick' else [(5, 10, 40), (10, 20, 100), (3, 7, 30), (8, 8, 64)]):
        for sd in range(seed, seed + 2):
            cases += 1
            nontriv += 1
            try:
                f = run_adaptive_case(elfi, n, b, n_sim, sd)
            except native.NativeTimeout as e:
                f = str(e)
            except Exception as e:
                f = '%s: %s' % (type(e).__name__, str(e)[:200])
            if f:
                fails.append(dict(signature='c01:adaptive-' + f.split(':')[0][:30], what=f, input=dict(adaptive=True, n_samples=n, batch_size=b, n_sim=n_sim, seed=sd)))
                return dict(name='rejection-adaptive-distance', bound='4 configurations x 2 seeds', rule='two summaries of very different scale', cases=cases, nontrivial=nontriv, failures=fails)
    return dict(name='rejection-adaptive-distance', bound='2-4 configurations x 2 seeds', rule='two summaries of very different scale', cases=cases, nontrivial=nontriv, failures=fails)


# ---------------------------------------------------------------- budget arithmetic in machine floats (the proof tier treats floats as reals)
def run_budget_grid(tier='quick', seed=0):
    """`with a simulation budget (n_sim, or ceil(n_samples/quantile)) exactly ceil(budget/batch_size) batches are
    consumed`, the formula evaluated literally in Python floats: the real set_objective on a grid of
    (n_samples, quantile, batch_size); a disagreement is confirmed by an end-to-end run before it is reported."""
    elfi = native.import_elfi()
    m = build_model(elfi, FINITE)
    nmax, bmax = (60, 12) if tier == 'quick' else (150, 24)
    qs = sorted({k / 100 for k in range(1, 100)} | {k / 7 for k in range(1, 7)} | {1 / 3, 2 / 3, 1.0, 0.001, 0.005})
    cases = 0
    fails = []
    for b in range(1, bmax + 1):
        rej = elfi.Rejection(m['d'], batch_size=b, seed=seed)
        for n in range(1, nmax + 1):
            for q in qs:
                cases += 1
                rej.set_objective(n, quantile=q)
                want = math.ceil(math.ceil(n / q) / b)
                got = rej.objective.get('n_batches')
                if got != want and not fails:
                    f = None
                    if want <= 400 and got <= 400:
                        try:
                            f = run_case(elfi, FINITE, n, b, 'quantile', q, seed)
                        except Exception as e:
                            f = '%s: %s' % (type(e).__name__, str(e)[:200])
                    f = f or 'set_objective(n_samples=%d, quantile=%r) with batch_size=%d plans %r batches, ceil(ceil(n_samples/quantile)/batch_size) = %d' % (n, q, b, got, want)
                    fails.append(dict(signature='c01:budget-float-arithmetic', what=f, input=dict(values=FINITE, n_samples=n, batch_size=b, form='quantile', arg=q, seed=seed)))
            for ns in (n, n + 1, 2 * b + 1, 3 * b, 7 * n + 3):
                cases += 1
                rej.set_objective(n, n_sim=ns)
                if rej.objective.get('n_batches') != math.ceil(ns / b) and not any(x['signature'] == 'c01:budget-n_sim' for x in fails):
                    fails.append(dict(signature='c01:budget-n_sim', what='set_objective(n_samples=%d, n_sim=%d) with batch_size=%d plans %r batches, expected %d' % (n, ns, b, rej.objective.get('n_batches'), math.ceil(ns / b)),
                                      input=dict(values=FINITE, n_samples=n, batch_size=b, form='n_sim', arg=ns, seed=seed)))
    return dict(name='rejection-budget-grid', bound='n_samples<=%d, batch_size<=%d, %d quantiles (k/100, k/7, 1/3, 2/3, 1, .001, .005), 5 n_sim per n' % (nmax, bmax, len(qs)),
                rule='planned batches of the real set_objective vs the formula of the statement in Python floats; first disagreement re-run end-to-end',
                cases=cases, nontrivial=cases, failures=fails)
