"""Bounded stand-in / replay vehicle for C02 on the REAL elfi (native client only; labelled bounded, never counted as proof).

End-to-end: pseudo-randomly generated models of <= 5 user nodes (stochastic nodes with literal-constant arguments - hence randomly
named private constants -, stochastic nodes with parents, deterministic operations) whose operations RECORD (node, id of the
generator they were handed, the draws they took from it).  For every model, integer seed (0 included) and batch size, the result
and the record of

    model.generate(batch_size, seed=s)                    BatchHandler.compute(i), i in 0..2, one shared context (executor + sub-seed caches)

must be bit-identical under: re-seeding and consuming the process-global numpy generator; unrelated earlier runs (other models,
other seeds, the same model) in the same process; building the same model in a different node insertion order; a different request
order of the batches.  Also: compute(0) equals generate(seed) (same (model, seed, index, size, outputs)), all stochastic operations of one
batch are handed ONE generator object, different batches different ones, seed 0 is an integer seed, and a seeded Rejection run repeats.
User node names are single letters: the name pattern of the known finding F14 (`x`, `x_...`) occurs only in the dedicated probe.

Sort: nx_constant_topological_sort on ALL DAGs with <= 4 (quick) / 5 (thorough) nodes over names that mix user and private-looking
names: the result is a topological order listing every node once, and is the same for every insertion order of nodes and edges tried.
"""
import itertools
import os
import random

import numpy as np

from pyvc import native

LOG = []


# ---------------------------------------------------------------------- recording operations
def _col(p, n):
    a = np.asarray(p, dtype=float)
    if a.ndim == 0:
        return np.full(n, float(a))
    if a.shape[0] == n:
        return a.reshape(n, -1).sum(axis=1)
    return np.full(n, float(a.sum()))


class RecDist:
    """a distribution object for elfi.Prior: rvs(*params, size, random_state) draws from the generator it is handed and records it"""

    def __init__(self, name):
        self.name = name

    def rvs(self, *params, size=1, random_state=None):
        n = size[0] if isinstance(size, tuple) else size
        if random_state is None:
            LOG.append((self.name, None, 'NO random_state handed'))
            random_state = np.random
        d = random_state.randint(0, 2 ** 31 - 1, size=n)
        LOG.append((self.name, id(random_state), d.tolist()))
        out = d.astype(float)
        for p in params:
            out = out + _col(p, n)
        return out


def make_sim(name):
    def sim(*parents, batch_size=1, random_state=None):
        if random_state is None:
            LOG.append((name, None, 'NO random_state handed'))
            random_state = np.random
        d = random_state.randint(0, 2 ** 31 - 1, size=batch_size)
        LOG.append((name, id(random_state), d.tolist()))
        out = d.astype(float)
        for p in parents:
            out = out + _col(p, batch_size)
        return out
    sim.__name__ = 'sim_' + name
    return sim


def make_op(name):
    def op(*parents):
        out = 0.0
        for i, p in enumerate(parents):
            out = out + (i + 1) * np.asarray(p, dtype=float)
        return out
    op.__name__ = 'op_' + name
    return op


# ---------------------------------------------------------------------- model specs
NAMES = 'abcde'


def random_spec(rng, n):
    """[(name, kind, parents, n_const)]  kind: prior (RecDist through rvs_from_distribution), scipy (elfi.Prior('uniform', ...)),
    sim (Simulator), op (Operation)"""
    spec = []
    for i in range(n):
        name = NAMES[i]
        earlier = [s[0] for s in spec]
        kind = rng.choice(['prior', 'scipy', 'sim', 'op'] if earlier else ['prior', 'scipy'])
        k = rng.randint(0, min(2, len(earlier)))
        parents = rng.sample(earlier, k) if kind != 'scipy' else (rng.sample(earlier, min(1, len(earlier))) if rng.random() < 0.4 else [])
        if kind == 'op' and not parents:
            parents = [rng.choice(earlier)]
        n_const = rng.randint(0, 2) if kind in ('prior', 'sim') else (2 - len(parents) if kind == 'scipy' else rng.randint(0, 1))
        spec.append((name, kind, tuple(parents), n_const))
    return spec


def linear_extensions(spec, rng, k):
    """up to k creation orders (each respects the parent relation), the canonical one first"""
    names = [s[0] for s in spec]
    par = {s[0]: set(s[2]) for s in spec}
    out = [tuple(names)]
    for _ in range(20 * k):
        if len(out) >= k:
            break
        done, order = set(), []
        while len(order) < len(names):
            ready = [x for x in names if x not in done and par[x] <= done]
            x = rng.choice(ready)
            done.add(x)
            order.append(x)
        if tuple(order) not in out:
            out.append(tuple(order))
    return out


def build(elfi, spec, order=None, model_name='c02m'):
    m = elfi.ElfiModel(name=model_name)
    by = {s[0]: s for s in spec}
    refs = {}
    for name in (order or [s[0] for s in spec]):
        _, kind, parents, n_const = by[name]
        args = [refs[p] for p in parents] + [float(j + 1) for j in range(n_const)]
        if kind == 'prior':
            refs[name] = elfi.Prior(RecDist(name), *args, model=m, name=name)
        elif kind == 'scipy':
            refs[name] = elfi.Prior('uniform', *args, model=m, name=name)
        elif kind == 'sim':
            refs[name] = elfi.Simulator(make_sim(name), *args, model=m, name=name)
        else:
            refs[name] = elfi.Operation(make_op(name), *args, model=m, name=name)
    return m


def user_outputs(spec):
    return [s[0] for s in spec]


# ---------------------------------------------------------------------- observations
def freeze(res):
    return {k: (np.asarray(v).dtype.str, np.asarray(v).shape, np.asarray(v).tobytes()) for k, v in res.items()}


def norm_log(log):
    """generator identities -> first-occurrence ordinals"""
    ids = {}
    out = []
    for name, rid, draws in log:
        out.append((name, ids.setdefault(rid, len(ids)) if rid is not None else None, tuple(draws) if isinstance(draws, list) else draws))
    return out


def run_generate(m, outputs, bs, seed):
    del LOG[:]
    with native.time_limit(20):
        r = m.generate(bs, outputs=list(outputs), seed=seed)
    return freeze(r), norm_log(LOG)


def run_compute(elfi, m, outputs, bs, seed, indices):
    from elfi.client import BatchHandler
    from elfi.model.elfi_model import ComputationContext
    ctx = ComputationContext(batch_size=bs, seed=seed)
    h = BatchHandler(m, ctx, output_names=list(outputs))
    out = {}
    for i in indices:
        del LOG[:]
        with native.time_limit(20):
            r = h.compute(i)
        out.setdefault(i, []).append((freeze(r), norm_log(LOG)))
    return out


def perturb_global(k):
    np.random.seed(1000 + k)
    np.random.rand(7 + k)
    random.seed(k)


def diff(a, b):
    (ra, la), (rb, lb) = a, b
    if set(ra) != set(rb):
        return 'different output keys %s vs %s' % (sorted(ra), sorted(rb))
    bad = sorted(k for k in ra if ra[k] != rb[k])
    if bad:
        return 'outputs %s differ' % bad
    if la != lb:
        if [x[0] for x in la] != [x[0] for x in lb]:
            return 'stochastic operations ran in a different order: %s vs %s' % ([x[0] for x in la], [x[0] for x in lb])
        return 'the draws / generator objects recorded by the operations differ'
    return None


def check_log(log):
    """all stochastic operations of one batch are handed ONE generator object"""
    if any(x[1] is None for x in log):
        return 'operation %s was not handed a random_state' % [x[0] for x in log if x[1] is None][0]
    if len({x[1] for x in log}) > 1:
        return 'stochastic operations of one batch were handed %d different generator objects' % len({x[1] for x in log})
    return None


def check_model(elfi, spec, seeds, sizes, rng, n_orders=3, others=()):
    """-> (cases, nontrivial, failure dict or None)"""
    outs = user_outputs(spec)
    cases = nontriv = 0
    n_stoch = sum(1 for s in spec if s[1] != 'op')
    orders = linear_extensions(spec, rng, n_orders)

    def fail(sig, what, **inp):
        return dict(signature=sig, what=what, input=dict(spec=[list(s[:2]) + [list(s[2]), s[3]] for s in spec], **inp))
    for seed in seeds:
        for bs in sizes:
            m = build(elfi, spec)
            perturb_global(0)
            ref = run_generate(m, outs, bs, seed)
            cases += 1
            nontriv += 1 if n_stoch >= 2 else 0
            w = check_log(ref[1])
            if w:
                return cases, nontriv, fail('c02:one-generator', w, seed=seed, batch_size=bs, probe='generate')
            # repeat under a perturbed global generator
            perturb_global(1)
            d = diff(ref, run_generate(m, outs, bs, seed))
            cases += 1
            if d:
                return cases, nontriv, fail('c02:global-rng' if seed != 0 else 'c02:global-rng-seed0', 'generate(seed=%d) after re-seeding/consuming np.random: %s' % (seed, d),
                                            seed=seed, batch_size=bs, probe='global')
            # unrelated earlier runs in the same process: other models, other seeds, the same model
            for o in others:
                mo = build(elfi, o, model_name='c02other')
                run_generate(mo, user_outputs(o), bs + 1, seed + 5)
                run_generate(mo, user_outputs(o), bs, seed)
            run_generate(m, outs, bs, seed + 1)
            run_generate(m, outs[:1], bs, seed)
            d = diff(ref, run_generate(m, outs, bs, seed))
            cases += 1
            if d:
                return cases, nontriv, fail('c02:history', 'generate(seed=%d) after unrelated earlier runs: %s' % (seed, d), seed=seed, batch_size=bs, probe='history',
                                            others=[[list(s[:2]) + [list(s[2]), s[3]] for s in o] for o in others])
            # node insertion order
            for od in orders[1:]:
                m2 = build(elfi, spec, od)
                d = diff(ref, run_generate(m2, outs, bs, seed))
                cases += 1
                if d:
                    return cases, nontriv, fail('c02:insertion-order', 'same model built in order %s: %s' % (list(od), d), seed=seed, batch_size=bs, probe='insertion', order=list(od))
            # batches through one BatchHandler (shared executor and sub-seed caches), different request orders
            reqs = [(0, 1, 2), (2, 0, 1, 1), (1, 2, 0)]
            got = [run_compute(elfi, m, outs, bs, seed, rq) for rq in reqs]
            for i in (0, 1, 2):
                allv = [v for g in got for v in g.get(i, [])]
                cases += len(allv)
                for v in allv[1:]:
                    d = diff(allv[0], v)
                    if d:
                        return cases, nontriv, fail('c02:request-order', 'compute(%d) depends on the request order: %s' % (i, d), seed=seed, batch_size=bs, probe='request-order')
            d = diff(ref, got[0][0][0])
            if d:
                return cases, nontriv, fail('c02:compute-vs-generate', 'BatchHandler.compute(0) differs from generate(seed): %s' % d, seed=seed, batch_size=bs, probe='compute0')
            if n_stoch and got[0][0][0][1] and got[0][1][0][1] and got[0][0][0][1][0][2] == got[0][1][0][1][0][2] and bs >= 3:
                return cases, nontriv, fail('c02:batches-share-stream', 'batches 0 and 1 drew the same numbers', seed=seed, batch_size=bs, probe='compute01')
            # a pool that stores EVERY stochastic node: recomputing a stored batch equals the first computation (nothing stochastic runs)
            stoch = [x[0] for x in spec if x[1] != 'op']
            if stoch and len(stoch) < len(spec):
                d = pool_reuse(elfi, m, outs, stoch, bs, seed, ref[0])
                cases += 3
                if d:
                    return cases, nontriv, fail('c02:pool-reuse', d, seed=seed, batch_size=bs, probe='pool-all-stochastic')
    return cases, nontriv, None


def pool_reuse(elfi, m, outs, stores, bs, seed, ref_result, again=(0, 1, 0)):
    """submit + wait_next fills batch 0 of a pool storing `stores`; then compute(i) for i in `again`: every result for batch 0 must
    equal the pool-free result on the requested outputs -> None or a description"""
    from elfi.client import BatchHandler
    from elfi.model.elfi_model import ComputationContext
    pool = elfi.OutputPool(list(stores))
    h = BatchHandler(m, ComputationContext(batch_size=bs, seed=seed, pool=pool), output_names=list(outs))
    with native.time_limit(30):
        h.submit()
        first = freeze(h.wait_next()[0])
        later = [(i, freeze(h.compute(i))) for i in again]
    bad = sorted(k for k in outs if first.get(k) != ref_result.get(k))
    if bad:
        return 'first computation of batch 0 with a pool differs from the pool-free run on %s' % bad
    for i, r in later:
        if i == 0:
            bad = sorted(k for k in outs if r.get(k) != ref_result.get(k))
            if bad:
                return 'recomputing batch 0 with stored %s differs from its first computation on %s' % (sorted(stores), bad)
    return None


def run_pool_partial(tier='quick', seed=0):
    """dedicated probe of the known finding C02-POOL-STOCHASTIC: a pool that stores ONE stochastic node while a later stochastic node
    still has to run.  Expected to FAIL on the unchanged tree (signature in known.d/c02.jsonl)."""
    elfi = native.import_elfi()
    spec = [('a', 'scipy', (), 2), ('b', 'sim', ('a',), 0)]
    failures = []
    cases = 0
    for sd in ((1,) if tier == 'quick' else (0, 1, 7)):
        m = build(elfi, spec)
        ref = run_generate(m, ['b'], 3, sd)
        d = pool_reuse(elfi, m, ['b'], ['a'], 3, sd, ref[0])
        cases += 3
        if d:
            failures.append(dict(signature='c02:pool-stochastic-reuse', what='Prior a -> Simulator b, pool stores a only, outputs [b], seed %d: %s' % (sd, d),
                                 input=dict(probe='pool-partial', seed=sd, batch_size=3)))
            break
    return dict(name='pool-stores-one-stochastic-node', bound='Prior a -> Simulator b, OutputPool([a]), outputs [b], batch size 3, %d seed(s): submit, wait_next, compute(0), compute(1), compute(0)' % (1 if tier == 'quick' else 3),
                rule='non-trivial = every case', cases=cases, nontrivial=cases, failures=failures)


def outputs_shared_probe(elfi, seed=1, bs=3):
    """a pool that already holds batch 0 of a (deterministic) node u but not batch 1; requested outputs [s]:
    compute(0), compute(1), compute(0) - the two results of compute(0) must be the same dict -> None or a description"""
    from elfi.client import BatchHandler
    from elfi.model.elfi_model import ComputationContext
    spec = [('a', 'scipy', (), 2), ('b', 'op', ('a',), 0), ('c', 'op', ('b',), 0)]
    pool = elfi.OutputPool(['b'])
    h = BatchHandler(build(elfi, spec), ComputationContext(bs, seed=seed, pool=pool), output_names=['c'])
    with native.time_limit(30):
        h.submit()
        h.wait_next()                      # fills batch 0 of the pool
        h2 = BatchHandler(build(elfi, spec), ComputationContext(bs, seed=seed, pool=pool), output_names=['c'])     # a new run on the stored pool
        before = sorted(h2.compiled_net.graph['outputs'])
        a = freeze(h2.compute(0))
        h2.compute(1)
        c = freeze(h2.compute(0))
        after = sorted(h2.compiled_net.graph['outputs'])
    if a != c:
        return ('compute(0) returned keys %s, after compute(1) it returns keys %s (requested outputs of the compiled net: %s -> %s)'
                % (sorted(a), sorted(c), before, after))
    if before != after:
        return 'requested outputs of the compiled net changed by loading batches: %s -> %s' % (before, after)
    return None


def run_outputs_shared(tier='quick', seed=0):
    elfi = native.import_elfi()
    d = outputs_shared_probe(elfi)
    return dict(name='pool-result-keys', bound='Prior a -> Operation b -> Operation c, OutputPool([b]) holding batch 0 only, outputs [c]: compute(0), compute(1), compute(0)',
                rule='non-trivial = every case', cases=3, nontrivial=3,
                failures=[dict(signature='c02:result-keys-depend-on-history', what=d, input=dict(probe='outputs-shared'))] if d else [])


def spec_from_input(inp):
    return [(s[0], s[1], tuple(s[2]), s[3]) for s in inp['spec']]


# ---------------------------------------------------------------------- seeded Rejection repeats (F1 is fixed on the current tree)
def rejection_probe(elfi):
    def sim(t, batch_size=1, random_state=None):
        return np.asarray(t).reshape(-1, 1) + random_state.randn(batch_size, 3)

    def mean(x):
        return x.mean(axis=1)

    def run(k):
        m = elfi.ElfiModel(name='c02rej')
        t = elfi.Prior('uniform', -2.0, 4.0, model=m, name='t')
        s = elfi.Simulator(sim, t, observed=np.zeros((1, 3)), model=m, name='s')
        S = elfi.Summary(mean, s, model=m, name='S')
        d = elfi.Distance('euclidean', S, model=m, name='d')
        perturb_global(k)
        with native.time_limit(60):
            r = elfi.Rejection(d, batch_size=20, seed=3).sample(5, n_sim=100, bar=False)
        return freeze(r.outputs)
    a = run(0)
    np.random.rand(5)
    b = run(1)
    if a != b:
        return dict(signature='c02:rejection', what='seeded Rejection(seed=3).sample(5, n_sim=100) differs between two runs in one process', input=dict(probe='rejection'))
    return None


def submit_precondition_probe(elfi):
    """the single call site of BatchHandler.submit(batch): are the override keys requested outputs?  (SMC passes parameter values)"""
    from elfi.client import BatchHandler
    seen = []
    orig = BatchHandler.submit

    def spy(self, batch=None):
        if batch:
            seen.append((sorted(batch), sorted(self.compiled_net.graph['outputs'])))
        return orig(self, batch)

    def sim(t, batch_size=1, random_state=None):
        return np.asarray(t).reshape(-1, 1) + random_state.randn(batch_size, 3)

    def mean(x):
        return x.mean(axis=1)
    BatchHandler.submit = spy
    try:
        m = elfi.ElfiModel(name='c02smc')
        t = elfi.Prior('uniform', -2.0, 4.0, model=m, name='t')
        s = elfi.Simulator(sim, t, observed=np.zeros((1, 3)), model=m, name='s')
        S = elfi.Summary(mean, s, model=m, name='S')
        d = elfi.Distance('euclidean', S, model=m, name='d')
        with native.time_limit(120):
            perturb_global(3)
            r1 = elfi.SMC(d, batch_size=20, seed=1).sample(10, thresholds=[2.0, 1.0], bar=False)
            perturb_global(4)
            np.random.rand(11)
            r2 = elfi.SMC(d, batch_size=20, seed=1).sample(10, thresholds=[2.0, 1.0], bar=False)
    finally:
        BatchHandler.submit = orig
    bad = [(k, o) for k, o in seen if not set(k) <= set(o)]
    if freeze(r1.outputs) != freeze(r2.outputs):
        bad.append(('seeded SMC(seed=1).sample(10, thresholds=[2, 1]) differs between two runs in one process', ''))
    return len(seen), bad


# ---------------------------------------------------------------------- F14 probes
class _FakeUuid:
    def __init__(self, sfx):
        self.sfx = list(sfx)

    def uuid4(self):
        s = self.sfx.pop(0) if self.sfx else '%04x' % random.randrange(16 ** 4)

        class U:
            hex = s + '0' * 28
        return U


def two_priors(elfi, o1, o2, suffixes=None):
    """Prior o1 and Prior o2, each with ONE literal argument (hence one private constant each); suffixes=(s1, s2) forces the 4 hex
    digits uuid4 contributes to the two names (the library's random source is controlled, no elfi code is changed)"""
    import elfi.model.elfi_model as em
    old = em.uuid
    if suffixes is not None:
        em.uuid = _FakeUuid(suffixes)
    try:
        m = elfi.ElfiModel(name='c02f14')
        elfi.Prior('uniform', 0.0, model=m, name=o1)
        elfi.Prior('uniform', 0.0, model=m, name=o2)
    finally:
        em.uuid = old
    return m


def f14_forced(elfi, w, seed=1, bs=3):
    """-> None or (what, input): the same two-prior model with the suffixes of the counter-model gives different seeded outputs"""
    from elfi.client import ClientBase
    from elfi.executor import nx_constant_topological_sort
    res, orders = [], []
    for sf in ((w['s1'], w['s2']), (w['t1'], w['t2'])):
        m = two_priors(elfi, w['o1'], w['o2'], sf)
        with native.time_limit(20):
            res.append(freeze(m.generate(bs, outputs=[w['o1'], w['o2']], seed=seed)))
            orders.append([n for n in nx_constant_topological_sort(ClientBase.compile(m.source_net, [w['o1'], w['o2']])) if not n.startswith('_')])
    if res[0] != res[1]:
        return ('generate(%d, seed=%d) of the two-prior model %r, %r differs between private suffixes %s/%s and %s/%s; execution order of the user nodes %s vs %s'
                % (bs, seed, w['o1'], w['o2'], w['s1'], w['s2'], w['t1'], w['t2'], orders[0], orders[1]))
    return None


def f14_rebuilds(elfi, o1='a', o2='a_b', n=30, seed=1, bs=3):
    """the fully native replay: rebuild the same two-prior model n times (fresh random suffixes), count distinct seeded outputs"""
    outs = {}
    for _ in range(n):
        m = two_priors(elfi, o1, o2)
        with native.time_limit(20):
            r = m.generate(bs, outputs=[o1, o2], seed=seed)
        outs.setdefault(tuple(sorted((k, tuple(np.asarray(v).tolist())) for k, v in r.items())), []).append(sorted(x for x in m.source_net.nodes if x.startswith('_')))
    return outs


# ---------------------------------------------------------------------- the sort on all small DAGs
SORT_NAMES = ['b', 'B', '_a_1f', 'a', 'A']      # includes names that differ only in case (a non-injective sort key would tie them)


def all_dags(n):
    names = SORT_NAMES[:n]
    # edges only from lower to higher rank of a permutation: every DAG arises (several times) - dedupe by edge set
    pairs = [(i, j) for i in range(n) for j in range(n) if i != j]
    seen = set()
    for rank in itertools.permutations(range(n)):
        fw = [(i, j) for (i, j) in pairs if rank[i] < rank[j]]
        for mask in range(1 << len(fw)):
            es = frozenset(fw[k] for k in range(len(fw)) if mask >> k & 1)
            if es in seen:
                continue
            seen.add(es)
            yield names, [(names[i], names[j]) for i, j in sorted(es)]


def all_cyclic_digraphs(n, self_loops=True):
    """every digraph on SORT_NAMES[:n] that is NOT a DAG (a cycle or a self-loop)"""
    import networkx as nx
    names = SORT_NAMES[:n]
    pairs = [(i, j) for i in range(n) for j in range(n) if self_loops or i != j]
    for mask in range(1, 1 << len(pairs)):
        es = [(names[i], names[j]) for k, (i, j) in enumerate(pairs) if mask >> k & 1]
        G = nx.DiGraph(es)
        if not nx.is_directed_acyclic_graph(G):
            yield names, es


def sort_check(sortfn, names, edges, rng, n_orders=3, cyclic=False):
    """the clauses of the statement on one graph: a permutation of the node set, every edge (u, v) has u BEFORE v (reverse=True: AFTER v), the same
    list for every insertion order.  cyclic=True: the graph has a cycle - `normal exit => topological` then means that it must NOT return normally
    (NetworkXUnfeasible is the documented way out)"""
    import networkx as nx
    ref = {}
    for k in range(n_orders):
        ns, es = list(names), list(edges)
        if k:
            rng.shuffle(ns)
            rng.shuffle(es)
        for rev in (False, True):
            G = nx.DiGraph()
            if k == 2:
                G.add_edges_from(es)          # nodes enter in edge order
                G.add_nodes_from(ns)
            else:
                G.add_nodes_from(ns)
                G.add_edges_from(es)
            inp = dict(nodes=ns, edges=[list(e_) for e_ in es])
            if rev:
                inp['reverse'] = True
            if cyclic:
                inp['cyclic'] = True
            try:
                with native.time_limit(5):
                    r = sortfn(G, reverse=True) if rev else sortfn(G)
            except Exception as e:
                if cyclic and type(e).__name__ == 'NetworkXUnfeasible':
                    continue
                return 'c02:sort-exception', '%s: %s on a %s' % (type(e).__name__, str(e)[:120], 'cyclic graph' if cyclic else 'DAG'), inp
            if sorted(r) != sorted(names):
                return 'c02:sort-not-a-permutation', 'result %s is not a permutation of the node set' % (r,), inp
            pos = {x: i for i, x in enumerate(r)}
            for u, v in edges:
                if (pos[u] <= pos[v]) if rev else (pos[u] >= pos[v]):
                    return ('c02:sort-not-topological', 'edge %s -> %s but %s does not come %s %s in %s%s' % (u, v, u, 'after' if rev else 'before', v, r, ' (reverse=True)' if rev else ''), inp)
            if rev not in ref:
                ref[rev] = r
            elif r != ref[rev]:
                return ('c02:sort-insertion-order', 'same node and edge sets, different insertion order: %s vs %s' % (ref[rev], r),
                        dict(inp, canonical_nodes=list(names), canonical_edges=[list(e) for e in edges]))
    return None


def run_sort(tier='quick', seed=0, first_failure_only=True):
    ex = native.load_file_module('elfi/executor.py')
    rng = random.Random(seed)
    nmax = 4 if tier == 'quick' else 5
    cases = nontriv = 0
    failures = []
    for n in range(1, nmax + 1):
        for names, edges in all_dags(n):
            cases += 1
            nontriv += 1 if len(edges) >= 2 else 0
            f = sort_check(ex.nx_constant_topological_sort, names, edges, rng)
            if f:
                failures.append(dict(signature=f[0], what=f[1], input=dict(probe='sort', **f[2])))
                if first_failure_only:
                    break
        if failures and first_failure_only:
            break
    # graphs WITH a cycle (replay vehicle of the proved clause `normal exit => topological`): they must not return normally
    cmax = (3, True) if tier == 'quick' else (4, False)
    if not (failures and first_failure_only):
        for n, loops in ((k, True) for k in range(1, 4)) if tier == 'quick' else [(1, True), (2, True), (3, True), (4, False)]:
            for names, edges in all_cyclic_digraphs(n, loops):
                cases += 1
                nontriv += 1 if len(edges) >= 2 else 0
                f = sort_check(ex.nx_constant_topological_sort, names, edges, rng, n_orders=1, cyclic=True)
                if f:
                    failures.append(dict(signature=f[0], what=f[1], input=dict(probe='sort', **f[2])))
                    if first_failure_only:
                        break
            if failures and first_failure_only:
                break
    return dict(name='sort-all-small-dags', bound='all DAGs with <= %d nodes over the names %s, 3 insertion orders each, reverse=False and reverse=True; all digraphs WITH a cycle on <= %d nodes%s '
                '(must not return normally)' % (nmax, SORT_NAMES[:nmax], cmax[0], ' incl. self-loops' if cmax[1] else ' (self-loops up to 3 nodes)'),
                rule='non-trivial = at least two edges', cases=cases, nontrivial=nontriv, failures=failures)


# ---------------------------------------------------------------------- drivers
def run(tier='quick', seed=0, first_failure_only=True, n_models=None):
    elfi = native.import_elfi()
    rng = random.Random(1234 + seed)
    n_models = n_models or (14 if tier == 'quick' else 80)
    seeds = (0, 7) if tier == 'quick' else (0, 1, 7, 2 ** 31 + 5)
    sizes = (3,) if tier == 'quick' else (1, 3)
    cases = nontriv = 0
    failures = []
    specs = [random_spec(rng, rng.randint(2, 5) if k else 5) for k in range(n_models)]
    # two INDEPENDENT stochastic siblings whose names differ only in case, built in both insertion orders (check_model tries every
    # linear extension): a sort key that ties them would hand them the generator in insertion order
    for lo, up in (('s', 'S'), ('mu', 'MU'), ('r0', 'R0')):
        specs.append([(lo, 'prior', (), 1), (up, 'prior', (), 1), ('y', 'sim', (lo, up), 0)])
        specs.append([(up, 'scipy', (), 2), (lo, 'sim', (), 1), ('y', 'op', (up, lo), 0)])
    for k, spec in enumerate(specs):
        others = [specs[(k + 1) % len(specs)]] if k % 2 == 0 and k < n_models else []
        try:
            c, nt, f = check_model(elfi, spec, seeds, sizes, rng, others=others)
        except native.NativeTimeout as e:
            c, nt, f = 1, 0, dict(signature='c02:timeout', what=str(e), input=dict(spec=[list(s[:2]) + [list(s[2]), s[3]] for s in spec], probe='timeout'))
        except Exception as e:
            c, nt, f = 1, 0, dict(signature='c02:exception', what='%s: %s' % (type(e).__name__, str(e)[:200]),
                                  input=dict(spec=[list(s[:2]) + [list(s[2]), s[3]] for s in spec], probe='exception'))
        cases += c
        nontriv += nt
        if f:
            failures.append(f)
            if first_failure_only:
                break
    if not failures or not first_failure_only:
        try:
            f = rejection_probe(elfi)
            cases += 2
            nontriv += 2
            if f:
                failures.append(f)
        except Exception as e:
            failures.append(dict(signature='c02:exception', what='Rejection probe: %s: %s' % (type(e).__name__, str(e)[:200]), input=dict(probe='rejection')))
    if tier != 'quick' and not failures:
        try:
            n, bad = submit_precondition_probe(elfi)
            cases += n
            if bad:
                failures.append(dict(signature='c02:submit-override-not-an-output' if bad[0][1] != '' else 'c02:smc-repeat', what='submit(batch) with keys %s, requested outputs %s' % bad[0] if bad[0][1] != '' else bad[0][0], input=dict(probe='submit')))
        except Exception as e:
            failures.append(dict(signature='c02:exception', what='SMC probe: %s: %s' % (type(e).__name__, str(e)[:200]), input=dict(probe='submit')))
    return dict(name='seeded-runs-end-to-end', bound='%d generated models <= 5 user nodes + 6 models with two independent stochastic nodes named alike up to case x seeds %s x batch sizes %s x {global-RNG perturbation, unrelated earlier runs, '
                '<= 3 insertion orders, 3 request orders over one BatchHandler}; one seeded Rejection run repeated%s; native client'
                % (n_models, list(seeds), list(sizes), '' if tier == 'quick' else '; SMC submit-override monitor'),
                rule='non-trivial = model with >= 2 stochastic nodes (their relative order is observable in the draws)', cases=cases, nontrivial=nontriv, failures=failures)


def _hist_sum(b, c):
    return b + c


def run_context_history(tier='quick', seed=0):
    """a batch computed with PRESET node values (BatchHandler.submit(batch): what SMC does in every round after the first) must be a function
    of (model, seed, batch index, batch size, requested outputs, preset values) - not of what the SAME ComputationContext computed earlier
    (the executor keeps a per-context cache).  For small chains / forks of stochastic nodes and every non-empty set of preset inner nodes:
    a handler with history [batch without presets; batch preset on OTHER nodes; this batch] against a fresh handler."""
    elfi = native.import_elfi()
    from elfi.client import BatchHandler
    from elfi.model.elfi_model import ComputationContext

    def chain():
        m = elfi.ElfiModel(name='hist_chain')
        h = elfi.RandomVariable('normal', 0, 1, model=m, name='h')
        t = elfi.Prior('normal', h, 1, model=m, name='t')
        elfi.RandomVariable('normal', t, 1, model=m, name='y')
        return m, ['t', 'y'], [('t',), ('y',)]

    def fork():
        m = elfi.ElfiModel(name='hist_fork')
        a = elfi.Prior('normal', 0, 1, model=m, name='a')
        b = elfi.Prior('normal', a, 1, model=m, name='b')
        c = elfi.RandomVariable('normal', a, 2, model=m, name='c')
        sm = elfi.Operation(_hist_sum, b, c, model=m, name='sm')
        elfi.RandomVariable('normal', sm, 1, model=m, name='y')
        return m, ['a', 'b', 'c', 'y'], [('a',), ('b',), ('c',), ('a', 'b'), ('b', 'c')]
    bs = 4
    cases = 0
    failures = []
    for mk in (chain, fork):
        for sd in ((3,) if tier == 'quick' else (0, 3, 11)):
            m0, outs, presets = mk()
            vals = {n: np.linspace(-1.0, 2.0, bs) + k for k, n in enumerate(outs)}
            for ps in presets:
                batch = {n: vals[n] for n in ps}
                fresh = BatchHandler(mk()[0], ComputationContext(batch_size=bs, seed=sd), outs)
                fresh.submit(dict(batch))
                want0, _ = fresh.wait_next()
                fresh.submit(dict(batch))
                want1, _ = fresh.wait_next()
                for first in [None] + [q for q in presets if q != ps][:2]:
                    cases += 1
                    h = BatchHandler(mk()[0], ComputationContext(batch_size=bs, seed=sd), outs)
                    h.submit(None if first is None else {n: vals[n] for n in first})
                    h.wait_next()
                    h.submit(dict(batch))
                    got1, i1 = h.wait_next()
                    h.reset()
                    h.submit(dict(batch))
                    got0, i0 = h.wait_next()
                    bad = [n for n in outs if not np.array_equal(got1[n], want1[n])] if i1 == 1 else ['<index>']
                    bad0 = [n for n in outs if not np.array_equal(got0[n], want0[n])] if i0 == 0 else ['<index>']
                    if bad or bad0:
                        failures.append(dict(signature='c02:context-history', what='model %s seed %d: batch preset on %s after a batch %s on the same context gives outputs %s (batch 1) / %s (batch 0 after reset) '
                                             'that differ from a fresh context' % (mk.__name__, sd, list(ps), 'without presets' if first is None else 'preset on %s' % list(first), bad, bad0),
                                             input=dict(probe='context-history')))
                        break
                if failures:
                    break
            if failures:
                break
        if failures:
            break
    return dict(name='context-history', bound='2 models (chain h->t->y, fork a->{b,c}->y), every listed set of preset nodes, histories [unpreset or otherwise-preset batch; this batch; reset; this batch] on one '
                'ComputationContext vs a fresh one; batch size 4; %d seed(s)' % (1 if tier == 'quick' else 3), rule='non-trivial = every case', cases=cases, nontrivial=cases, failures=failures)


_HASH_CHILD = r"""
import json, sys, importlib.util
spec = importlib.util.spec_from_file_location('ex_under_test', sys.argv[1])
import networkx as nx
ex = importlib.util.module_from_spec(spec); spec.loader.exec_module(ex)
names = ['alpha', 'beta', 'gamma', 'delta', 'eps', 'zeta', 'eta', 'theta', 'iota', 'kappa']
out = []
import random
for k in range(int(sys.argv[2])):
    rnd = random.Random(k)
    n = 4 + k % 7
    G = nx.DiGraph()
    order = names[:n]
    rnd.shuffle(order)
    G.add_nodes_from(order)
    for i in range(n):
        for j in range(i + 1, n):
            if k == 0 and i == 0 or rnd.random() < 0.35:
                G.add_edge(order[i], order[j])
    out.append([list(ex.nx_constant_topological_sort(G)), list(ex.nx_constant_topological_sort(G, reverse=True))])
print(json.dumps(out))
"""


def run_sort_hash_seeds(tier='quick', seed=0):
    """the sort must not depend on the iteration order of sets / dicts of node names: str hashes are randomised per interpreter process
    (PYTHONHASHSEED), so the SAME graphs are sorted in child interpreters that differ only in the hash seed and the results compared"""
    import subprocess
    import sys as _sys
    import json as _json
    path = os.path.join(native.repo(), 'elfi', 'executor.py')
    n = 12 if tier == 'quick' else 60
    ref, failures = None, []
    seeds = ('0', '1', '2', '3') if tier == 'quick' else tuple(str(i) for i in range(8))
    for hs in seeds:
        env = dict(os.environ, PYTHONHASHSEED=hs)
        r = subprocess.run([_sys.executable, '-c', _HASH_CHILD, path, str(n)], capture_output=True, text=True, env=env, timeout=120)
        if r.returncode != 0:
            failures.append(dict(signature='c02:sort-hash-seed-crash', what='child with PYTHONHASHSEED=%s failed: %s' % (hs, r.stderr.strip().splitlines()[-1:] or ''), input=dict(probe='sort-hash-seeds')))
            break
        got = _json.loads(r.stdout)
        if ref is None:
            ref = got
        elif got != ref:
            k = next(i for i in range(len(ref)) if got[i] != ref[i])
            failures.append(dict(signature='c02:sort-depends-on-hash-seed', what='graph %d: PYTHONHASHSEED=%s gives %s, PYTHONHASHSEED=%s gave %s' % (k, hs, got[k][0], seeds[0], ref[k][0]),
                                 input=dict(probe='sort-hash-seeds')))
            break
    return dict(name='sort-across-hash-seeds', bound='%d DAGs of 4-10 string-named nodes (first: one node with edges to all others) sorted in %d child interpreters that differ only in PYTHONHASHSEED' % (n, len(seeds)),
                rule='non-trivial = every graph', cases=n * len(seeds), nontrivial=n * len(seeds), failures=failures)


def run_f14(tier='quick', seed=0):
    """the dedicated probe of the known finding: expected to FAIL on the unchanged tree (signature listed in known.d/c02.jsonl)"""
    elfi = native.import_elfi()
    n = 30 if tier == 'quick' else 60
    outs = f14_rebuilds(elfi, 'a', 'a_b', n=n)
    failures = []
    if len(outs) > 1:
        ex = list(outs.items())
        failures.append(dict(signature='c02:f14-private-suffix-order',
                             what='%d distinct outputs of generate(3, seed=1) over %d rebuilds of the same two-prior model (a, a_b); e.g. private names %s vs %s'
                                  % (len(outs), n, ex[0][1][0], ex[1][1][0]),
                             input=dict(probe='f14', o1='a', o2='a_b', rebuilds=n)))
    return dict(name='f14-two-priors-rebuilt', bound='%d rebuilds of {Prior a (one literal argument), Prior a_b (one literal argument)}, generate(3, seed=1)' % n,
                rule='non-trivial = every rebuild (fresh random suffixes)', cases=n, nontrivial=n, failures=failures)


def replay_input(inp):
    """True iff the property HOLDS on this input"""
    elfi = native.import_elfi()
    probe = inp.get('probe')
    if probe == 'f14':
        return len(f14_rebuilds(elfi, inp.get('o1', 'a'), inp.get('o2', 'a_b'), n=inp.get('rebuilds', 30))) == 1
    if probe == 'f14-forced':
        return f14_forced(elfi, inp) is None
    if probe in ('seeded-runs-end-to-end', 'sort-all-small-dags', 'f14-two-priors-rebuilt', 'pool-stores-one-stochastic-node'):
        try:
            r = dict(zip(('seeded-runs-end-to-end', 'sort-all-small-dags', 'f14-two-priors-rebuilt', 'pool-stores-one-stochastic-node'),
                         (run, run_sort, run_f14, run_pool_partial)))[probe]('quick', 0)
        except Exception:
            return False
        return not [f for f in r['failures'] if f['signature'] == 'c02:exception']
    if probe == 'sort':
        ex = native.load_file_module('elfi/executor.py')
        return sort_check(ex.nx_constant_topological_sort, inp.get('canonical_nodes', inp['nodes']), [tuple(e) for e in inp.get('canonical_edges', inp['edges'])], random.Random(0),
                          1 if inp.get('cyclic') else 6, cyclic=bool(inp.get('cyclic'))) is None
    if probe == 'rejection':
        return rejection_probe(elfi) is None
    if probe == 'submit':
        return not submit_precondition_probe(elfi)[1]
    if probe == 'outputs-shared':
        return outputs_shared_probe(elfi) is None
    if probe == 'pool-partial':
        spec = [('a', 'scipy', (), 2), ('b', 'sim', ('a',), 0)]
        m = build(elfi, spec)
        ref = run_generate(m, ['b'], inp.get('batch_size', 3), inp.get('seed', 1))
        return pool_reuse(elfi, m, ['b'], ['a'], inp.get('batch_size', 3), inp.get('seed', 1), ref[0]) is None
    spec = spec_from_input(inp)
    others = [spec_from_input(dict(spec=o)) for o in inp.get('others', [])]
    c, nt, f = check_model(elfi, spec, (inp['seed'],), (inp['batch_size'],), random.Random(0), n_orders=6, others=others)
    return f is None
