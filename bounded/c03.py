"""Bounded stand-in / replay vehicle for C03 on the REAL pipeline (ElfiModel.generate = client.compile -> load_data -> Executor.execute).
Labelled bounded; never counted as proof.

A model is described by plain data (`desc`, JSON-able: it IS the replay input):
  nodes[i] = dict(cls in 'COPSUD' (Constant / Operation / Prior / Simulator / sUmmary / Discrepancy), pos=[parent indices in DECLARED order],
                  named={kw: parent index}, meta=bool)          node i is called 'n<i>'; parents have smaller indices (=> acyclic)
  observed = [indices of observable nodes that are given an observation], with_values = [indices given a value], outputs = names | None (all)
Every operation is a recorder: it returns the term (name, positional args, sorted kwargs) of what it was called with and bumps calls[name];
the generator object is abstracted to 'RS'.  The oracle below is the executable form of the spec functions of the property statement and is
computed from `desc` alone (it never looks at a networkx graph):
  sem(x)      supplied value | constant | apply(op_x, [sem(p) for positional parents in declared order], {kw: sem(p)} + batch_size / random_state /
              meta exactly when declared + observed=tuple(obsarg(p) for positional parents) for a node that uses observed data)
  sem_obs(x)  the given observation, else (x deterministic) apply(op_x, [obsarg(p)...], {kw: obsarg(p)}); obsarg(p) = sem_obs(p) if p observable else sem(p);
              for an UNOBSERVED STOCHASTIC observable node the statement leaves no value that does not depend on a stochastic node (-> must not be evaluated)
  reject      a node that uses observed data has a stochastic node among the ancestors of its observed input (wiring as in sem_obs; the twin of a
              stochastic observable node is a source): compilation must raise ValueError
  calls[x]    1 per evaluation of x (memoised, demand driven from the requested outputs; supplied values and constants cut the demand), + 1 for its twin
Bound (stated in the result): exhaustive over all models with <= N_EX nodes (classes x parent sets x declared orders x positional/named x observation
subsets x with_values subsets x output subsets incl. observed twins), seeded samples above.  Domain restrictions (constructor preconditions of elfi):
Constant has no parents, Summary / Discrepancy have >= 1 parent, Prior and Discrepancy take positional parents only."""
import itertools
import random

from pyvc import native

BS = 3                      # batch_size (different from batch_index = 0, so that mixing them up is visible)
OBSERVABLE, STOCHASTIC, USES_BS, USES_OBS = 'SU', 'PS', 'PS', 'D'
NAMED_OK = 'OSU'            # classes whose operation accepts keyword parents in this harness
SIG_F10 = 'c03:F10-observed-data-depends-on-stochastic-node-not-rejected'
SIG_F15 = 'c03:F15-isolated-node-NetworkXError'
SIG_TWIN = 'c03:unobserved-stochastic-twin-evaluated'


class Undefined(Exception):
    """sem_obs of an unobserved stochastic observable node is demanded"""


def nm(i):
    return 'n%d' % i


def twin(i):
    return '_n%d_observed' % i


# ---------------------------------------------------------------------------------------------- oracle (spec side)
class Oracle:
    def __init__(self, desc, seed):
        self.d, self.seed = desc, seed
        self.nodes = desc['nodes']
        self.W = set(desc.get('with_values') or [])
        self.obs = set(desc.get('observed') or [])
        self.calls = {}
        self._sem, self._semobs = {}, {}

    def cls(self, i):
        return self.nodes[i]['cls']

    def _bump(self, i):
        self.calls[nm(i)] = self.calls.get(nm(i), 0) + 1

    def sem(self, i):
        if i in self._sem:
            return self._sem[i]
        nd, c = self.nodes[i], self.cls(i)
        if i in self.W:
            v = ('given', i)
        elif c == 'C':
            v = ('const', i)
        else:
            args = tuple(self.sem(p) for p in nd['pos'])
            kw = {k: self.sem(p) for k, p in nd.get('named', {}).items()}
            if c in USES_BS:
                kw['batch_size'] = BS
            if c in STOCHASTIC:
                kw['random_state'] = 'RS'
            if nd.get('meta'):
                kw['meta'] = ('META', 0, 0, 'global' if self.seed is None else self.seed, 'm')
            if c in USES_OBS:
                kw['observed'] = tuple(self.obsarg(p) for p in nd['pos'])
            if c == 'P':        # the operation of a Prior is elfi's wrapper of distribution.rvs: rvs(*params, size=(batch_size,), random_state=rs)
                kw = {'size': (kw.pop('batch_size'),), 'random_state': kw['random_state']}
            self._bump(i)
            v = (nm(i), args, tuple(sorted(kw.items())))
        self._sem[i] = v
        return v

    def obsarg(self, p):
        return self.sem_obs(p) if self.cls(p) in OBSERVABLE else self.sem(p)

    def sem_obs(self, i):
        if i in self._semobs:
            return self._semobs[i]
        nd = self.nodes[i]
        if i in self.obs:
            v = ('obs', i)
        elif self.cls(i) in STOCHASTIC:
            raise Undefined(nm(i))
        else:
            args = tuple(self.obsarg(p) for p in nd['pos'])
            kw = {k: self.obsarg(p) for k, p in nd.get('named', {}).items()}
            self._bump(i)
            v = (nm(i), args, tuple(sorted(kw.items())))
        self._semobs[i] = v
        return v

    def reject(self):
        """some node that uses observed data has a stochastic node among the ancestors of its observed input"""
        n = len(self.nodes)
        # vertices: ('r', i) real node, ('t', i) twin / observed input of i
        preds = {}
        for i, nd in enumerate(self.nodes):
            ps = list(nd['pos']) + list(nd.get('named', {}).values())
            preds[('r', i)] = [('r', p) for p in ps]
            if (self.cls(i) in OBSERVABLE and self.cls(i) not in STOCHASTIC) or self.cls(i) in USES_OBS:
                preds[('t', i)] = [('t', p) if self.cls(p) in OBSERVABLE else ('r', p) for p in ps]
            else:
                preds[('t', i)] = []
        for i in range(n):
            if self.cls(i) not in USES_OBS:
                continue
            seen, stack = set(), list(preds[('t', i)])
            while stack:
                v = stack.pop()
                if v in seen:
                    continue
                seen.add(v)
                if v[0] == 'r' and self.cls(v[1]) in STOCHASTIC:
                    return True
                stack.extend(preds[v])
        return False

    def expected(self, outputs):
        out = {}
        for o in outputs:
            if o.startswith('_'):
                out[o] = self.sem_obs(int(o[2:-len('_observed')]))
            else:
                out[o] = self.sem(int(o[1:]))
        return out


# ---------------------------------------------------------------------------------------------- the real pipeline
class Recorder:
    def __init__(self):
        self.calls = {}

    def _norm(self, v):
        import numpy as np
        if isinstance(v, np.random.RandomState):
            return 'RS'
        if isinstance(v, dict) and 'batch_index' in v:
            return ('META', v.get('batch_index'), v.get('submission_index'), v.get('master_seed'), v.get('model_name'))
        return v

    def op(self, name):
        def f(*a, **k):
            self.calls[name] = self.calls.get(name, 0) + 1
            return (name, tuple(self._norm(x) for x in a), tuple(sorted((kk, self._norm(v)) for kk, v in k.items())))
        f.__name__ = name
        return f

    def dist(self, name):
        rec = self

        class Dist:
            def rvs(self, *a, **k):
                return rec.op(name)(*a, **k)
        return Dist()


def build(elfi, desc, rec):
    m = elfi.ElfiModel(name='m')
    refs = []
    for i, nd in enumerate(desc['nodes']):
        c, name = nd['cls'], nm(i)
        pos = [refs[j] for j in nd['pos']]
        kw = dict(name=name, model=m)
        if i in (desc.get('observed') or []):
            kw['observed'] = ('obs', i)
        if c == 'C':
            r = elfi.Constant(('const', i), **kw)
        elif c == 'O':
            r = elfi.Operation(rec.op(name), *pos, **kw)
        elif c == 'P':
            r = elfi.Prior(rec.dist(name), *pos, **kw)
        elif c == 'S':
            r = elfi.Simulator(rec.op(name), *pos, **kw)
        elif c == 'U':
            r = elfi.Summary(rec.op(name), *pos, **kw)
        else:
            r = elfi.Discrepancy(rec.op(name), *pos, **kw)
        for k, j in nd.get('named', {}).items():
            m.add_edge(nm(j), name, k)
        if nd.get('meta'):
            r.uses_meta = True
        refs.append(r)
    return m


def valid(desc):
    for i, nd in enumerate(desc['nodes']):
        c = nd['cls']
        ps = list(nd['pos']) + list(nd.get('named', {}).values())
        if any(p >= i for p in ps) or len(set(ps)) != len(ps):
            return False
        if c == 'C' and ps:
            return False
        if c in 'UD' and not nd['pos']:
            return False
        if nd.get('named') and c not in NAMED_OK:
            return False
    return True


def check_case(elfi, desc, seed=None, model=None, rec=None):
    """-> None (property holds on this case) or dict(signature, what)"""
    if model is None:
        rec = Recorder()
        try:
            model = build(elfi, desc, rec)
        except Exception as e:
            return dict(signature='c03:build', what='model construction failed: %s: %s' % (type(e).__name__, e))
    rec.calls.clear()
    orc = Oracle(desc, seed)
    outputs = desc.get('outputs')
    req = outputs if outputs is not None else [nm(i) for i in range(len(desc['nodes']))]
    wv = {nm(i): ('given', i) for i in (desc.get('with_values') or [])}
    must_reject = orc.reject()
    try:
        with native.time_limit(10):
            res = model.generate(BS, outputs=list(outputs) if outputs is not None else None, with_values=wv or None, seed=seed)
    except native.NativeTimeout as e:
        return dict(signature='c03:timeout', what=str(e))
    except ValueError as e:
        if must_reject and 'Observed' in str(e):
            return None
        return dict(signature='c03:spurious-ValueError', what='ValueError although no observed input depends on a stochastic node: %s' % str(e)[:120])
    except Exception as e:
        if type(e).__name__ == 'NetworkXError' and 'not in the digraph' in str(e):
            return dict(signature=SIG_F15, what='NetworkXError from Executor.get_execution_order (isolated node in the loaded net): %s' % str(e)[:80])
        return dict(signature='c03:exception', what='%s: %s' % (type(e).__name__, str(e)[:160]))
    if must_reject:
        return dict(signature=SIG_F10, what='a node that uses observed data has a stochastic ancestor of its observed input, yet compilation did not raise '
                                            'ValueError and the graph was evaluated')
    try:
        exp = orc.expected(req)
    except Undefined as u:
        return dict(signature=SIG_TWIN, what='the observed twin of the unobserved stochastic node %s was demanded; it was evaluated (operation called '
                                             'without inputs) instead of being rejected' % u)
    if set(res) != set(req):
        return dict(signature='c03:result-keys', what='result keys %s, requested %s' % (sorted(res), sorted(req)))
    for k in req:
        if res[k] != exp[k]:
            return dict(signature='c03:value', what='output %s = %r, dataflow meaning %r' % (k, res[k], exp[k]))
    if rec.calls != orc.calls:
        return dict(signature='c03:calls', what='operation call counts %r, expected %r' % (dict(sorted(rec.calls.items())), dict(sorted(orc.calls.items()))))
    return None


# ---------------------------------------------------------------------------------------------- enumeration
def _orders(ps):
    """declared orders tried for a positional parent list: ascending, and (>= 2 parents) descending"""
    ps = list(ps)
    return [ps] if len(ps) < 2 else [ps, ps[::-1]]


def node_variants(i, cls, full=True, rng=None):
    """all (pos, named) of node i of class `cls` over parent sets among 0..i-1"""
    out = []
    for r in range(0, i + 1):
        for ps in itertools.combinations(range(i), r):
            if cls == 'C' and ps:
                continue
            kinds = itertools.product('pn', repeat=len(ps)) if cls in NAMED_OK else [('p',) * len(ps)]
            for kd in kinds:
                pos = [p for p, k in zip(ps, kd) if k == 'p']
                named = {'k%d' % p: p for p, k in zip(ps, kd) if k == 'n'}
                if cls in 'UD' and not pos:
                    continue
                for o in _orders(pos):
                    out.append((o, named))
    return out


def models_exhaustive(n):
    """every model with exactly n nodes"""
    first = 'COPS'
    for classes in itertools.product('COPSUD', repeat=n):
        if classes[0] not in first:
            continue
        per_node = [node_variants(i, c) for i, c in enumerate(classes)]
        if any(not v for v in per_node):
            continue
        for combo in itertools.product(*per_node):
            yield dict(nodes=[dict(cls=c, pos=list(p), named=dict(nmd)) for c, (p, nmd) in zip(classes, combo)])


def model_random(n, rng):
    while True:
        nodes = []
        for i in range(n):
            c = rng.choice('COPSUD' if i else 'COPS')
            vs = node_variants(i, c)
            if not vs:
                break
            p, nmd = rng.choice(vs)
            nodes.append(dict(cls=c, pos=list(p), named=dict(nmd), meta=(c == 'O' and rng.random() < 0.25)))
        else:
            return dict(nodes=nodes)


def models_wide():
    """fixed models with fan-in 11 and 12 (two-digit positional indices: an order by str(param) differs from the order by the integer param),
    parents declared in a shuffled order, plus one named parent where the class allows it: an Operation, a Summary with its observed twin
    (computed from the twins of 12 observed simulators) and a Discrepancy (simulated args and observed tuple)"""
    out = []
    for k in (11, 12):
        order = [(7 * j + 3) % k for j in range(k)]            # a permutation of 0..k-1 (7 is coprime to 11 and 12)
        cs = [dict(cls='C', pos=[], named={}) for _ in range(k + 1)]
        out.append((dict(nodes=cs + [dict(cls='O', pos=order, named={'kw': k})]), [[]], [None, [nm(k + 1)]]))
        sims = [dict(cls='S', pos=[], named={}) for _ in range(k)]
        summ = dict(cls='U', pos=order, named={})
        out.append((dict(nodes=sims + [summ]), [list(range(k))], [None, [twin(k)], [nm(k), twin(k)]]))
        sums = [dict(cls='U', pos=[0], named={}) for _ in range(k)]
        shifted = [1 + j for j in order]
        out.append((dict(nodes=[dict(cls='S', pos=[], named={})] + sums + [dict(cls='D', pos=shifted, named={})]), [[0]], [None, [nm(k + 1)]]))
    return out


def case_variants(desc, rng=None, k=None):
    """(observed, with_values, outputs) combinations of one model: all of them (k None) or the canonical one + k seeded samples"""
    n = len(desc['nodes'])
    observable = [i for i, nd in enumerate(desc['nodes']) if nd['cls'] in OBSERVABLE]
    obs_sets = [list(s) for r in range(len(observable) + 1) for s in itertools.combinations(observable, r)]
    w_sets = [list(s) for r in range(n + 1) for s in itertools.combinations(range(n), r)]
    names = [nm(i) for i in range(n)]
    out_sets = [None] + [list(s) for r in range(1, n + 1) for s in itertools.combinations(names, r)]
    out_sets += [[twin(i)] for i in observable] + ([names + [twin(i) for i in observable]] if observable else [])
    if k is None:
        return [(o, w, u) for o in obs_sets for w in w_sets for u in out_sets]
    out = [(observable, [], None)]
    for _ in range(k):
        out.append((rng.choice(obs_sets), rng.choice(w_sets), rng.choice(out_sets)))
    return out


SIG_PENDING = 'c03:pending-batches-metadata'


def check_pending(elfi, variant):
    """Several batches are LOADED before any of them is executed (lazy native client: submit, submit, ..., wait_next, ...): every batch must run
    with ITS OWN run metadata / batch size.  variant = dict(models=1|2, pending=k).  One model: Constant -> Operation(uses_meta) recording what it
    is called with; two models: their handlers are interleaved (submit A, submit B, submit A, ...).  -> None or dict(signature, what)"""
    from elfi.client import BatchHandler
    from elfi.clients.native import Client
    from elfi.model.elfi_model import ComputationContext
    k, nm_ = variant['pending'], variant['models']
    hs = []
    for j in range(nm_):
        rec = Recorder()
        m = elfi.ElfiModel(name='pm%d' % j)
        c = elfi.Constant(('const', j), name='c', model=m)
        o = elfi.Operation(rec.op('op%d' % j), c, name='o', model=m)
        o.uses_meta = True
        sim = elfi.Simulator(rec.op('sim%d' % j), o, name='s', model=m)
        ctx = ComputationContext(batch_size=BS + j, seed=100 + j)
        hs.append((m, ctx, BatchHandler(m, ctx, ['o', 's'], client=Client())))
    try:
        with native.time_limit(20):
            for i in range(k):
                for m, ctx, h in hs:
                    h.submit()
            for i in range(k):
                for j, (m, ctx, h) in enumerate(hs):
                    batch, bi = h.wait_next()
                    exp_o = ('op%d' % j, (('const', j),), (('meta', ('META', i, i, 100 + j, 'pm%d' % j)),))
                    exp_s = ('sim%d' % j, (exp_o,), (('batch_size', BS + j), ('random_state', 'RS')))
                    if bi != i or batch['o'] != exp_o or batch['s'] != exp_s:
                        return dict(signature=SIG_PENDING, what='model pm%d, batch %d of %d pending: executed with %r / %r, its own metadata and batch size give %r / %r'
                                    % (j, i, k, batch['o'], batch['s'][2], exp_o, exp_s[2]))
    except native.NativeTimeout as e:
        return dict(signature='c03:timeout', what=str(e))
    except Exception as e:
        return dict(signature='c03:exception', what='pending batches: %s: %s' % (type(e).__name__, str(e)[:160]))
    return None


PENDING_VARIANTS = [dict(kind='pending', models=m, pending=k) for m in (1, 2) for k in (1, 2, 3)]


def run(tier='quick', seed=0, first_failure_only=False, want=None, budget_s=None):
    """-> bounded result dict.  One failure is kept per signature (the first one met)."""
    import time
    elfi = native.import_elfi()
    rng = random.Random(1000 + seed)
    n_ex_full = 2 if tier == 'quick' else 3          # all (observed, with_values, outputs) combinations
    n_ex = 3                                         # all models, sampled combinations
    plan_random = [(4, 900, 3)] if tier == 'quick' else [(4, 12000, 6), (5, 8000, 6)]
    k_ex = 2 if tier == 'quick' else 0
    t0 = time.time()
    cases = nontrivial = 0
    failures, seen = [], {}

    def one_model(desc, variants):
        nonlocal cases, nontrivial
        rec = Recorder()
        by_obs = {}
        for obs, w, outs in variants:
            d = dict(desc, observed=list(obs), with_values=list(w), outputs=outs)
            key = tuple(obs)
            if key not in by_obs:
                rec_k = Recorder()
                try:
                    by_obs[key] = (build(elfi, d, rec_k), rec_k)
                except Exception as e:
                    by_obs[key] = (None, None)
            m, rec_k = by_obs[key]
            sd = None if cases % 2 == 0 else 7
            cases += 1
            f = check_case(elfi, d, sd, m, rec_k) if m is not None else dict(signature='c03:build', what='model construction failed')
            if len(desc['nodes']) >= 3 and any(len(nd['pos']) + len(nd.get('named', {})) >= 2 for nd in desc['nodes']):
                nontrivial += 1
            if f:
                s = f['signature']
                seen[s] = seen.get(s, 0) + 1
                if seen[s] == 1:
                    f['input'] = dict(d, seed=sd)
                    failures.append(f)
                    if first_failure_only and (want is None or s in want):
                        return True
        return False

    stop = False
    for v in PENDING_VARIANTS:
        cases += 1
        nontrivial += 1 if v['pending'] > 1 else 0
        f = check_pending(elfi, v)
        if f:
            seen[f['signature']] = seen.get(f['signature'], 0) + 1
            if seen[f['signature']] == 1:
                f['input'] = dict(v)
                failures.append(f)
    n_wide = 0
    for desc, obs_sets, out_sets in models_wide():
        n_wide += 1
        if one_model(desc, [(o, [], u) for o in obs_sets for u in out_sets]):
            stop = True
            break
    for n in ([] if stop else range(1, n_ex + 1)):
        for desc in models_exhaustive(n):
            vs = case_variants(desc) if n <= n_ex_full else (case_variants(desc, rng, k_ex) if k_ex else case_variants(desc))
            if one_model(desc, vs):
                stop = True
                break
            if budget_s and time.time() - t0 > budget_s:
                stop = True
                break
        if stop:
            break
    if not stop:
        for n, count, k in plan_random:
            for _ in range(count):
                desc = model_random(n, rng)
                if one_model(desc, case_variants(desc, rng, k)):
                    stop = True
                    break
            if stop:
                break
    for f in failures:
        f['what'] += '  [%d case(s) with this signature]' % seen[f['signature']]
    bound = ('all models <= %d nodes x all (observed, with_values, outputs) subsets; all models of %d nodes x %s; ' % (
        n_ex_full, n_ex, 'all subsets' if not k_ex else 'canonical + %d sampled subsets' % k_ex)) + \
        '; '.join('%d seeded random models of %d nodes x (canonical + %d sampled subsets)' % (c, n, k) for n, c, k in plan_random) + \
        '; %d runs with 1-3 batches loaded before any is executed (one model / two interleaved models, uses_meta recorder)' % len(PENDING_VARIANTS) + \
        '; %d fixed models with fan-in 11 / 12 (Operation + named parent, Summary with observed twin, Discrepancy; shuffled declared order)' % n_wide + \
        '; classes Constant/Operation/Prior/Simulator/Summary/Discrepancy, positional (both declared orders) and named edges, batch_size %d' % BS
    return dict(name='pipeline-dataflow-semantics', bound=bound,
                rule='non-trivial = model with >= 3 nodes one of which has >= 2 parents', cases=cases, nontrivial=nontrivial, failures=failures,
                wall_s=round(time.time() - t0, 1))


def replay_input(inp):
    """True iff the property HOLDS on this input"""
    elfi = native.import_elfi()
    if inp.get('kind') == 'pending':
        return check_pending(elfi, inp) is None
    return check_case(elfi, inp, inp.get('seed')) is None


# fixed replays of the two design-time defects (smallest models)
F10_INPUT = dict(nodes=[dict(cls='P', pos=[], named={}), dict(cls='S', pos=[0], named={}), dict(cls='U', pos=[1, 0], named={}),
                        dict(cls='D', pos=[2], named={})], observed=[1], with_values=[], outputs=['n3'], seed=None)
F15_INPUT = dict(nodes=[dict(cls='C', pos=[], named={}), dict(cls='O', pos=[], named={})], observed=[], with_values=[], outputs=None, seed=None)
