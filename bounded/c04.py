"""Bounded stand-in / replay vehicle for C04: the REAL elfi.Rejection / elfi.SMC driven through a schedule-driven
ClientBase subclass (a sidecar: nothing in the tree is patched; the client is the documented extension point).

Two schedule families, both enumerated EXHAUSTIVELY as decision trees (a branch is extended only while the run actually
asks for another decision, so every distinguishable schedule up to the depth is run exactly once per padding):
  answers  is_ready(id) answers come from a bit string (k-th call -> k-th bit, afterwards a constant pad, both pads run);
           tasks execute lazily inside get_result.  Answers need not be consistent (ready, then not ready): the code must not care.
  exec     an eager pool: at every client event that has a choice (apply / is_ready / get_result with >= 1 outstanding
           unexecuted task) the schedule picks `none` or one of the outstanding tasks to execute now - every execution order
           (including out-of-order completion and wasted execution of batches that are cancelled later) of <= max_par outstanding
           tasks; is_ready(id) = "id has been executed".
Oracle (from the property text): outputs, threshold(s), weights, n_sim, n_batches equal to the sequential run
(max_parallel_batches = 1, lazy client) and the event log satisfies: fresh task ids; batches fetched strictly in index order
0,1,2,.. each exactly once; never more than max_parallel_batches tasks in the client; a removed (cancelled) task is never
fetched; is_ready / get_result only on live tasks; nothing left in the client at the end; n_sim = batch_size * fetched."""
import itertools

import numpy as np

from pyvc import native

KINDS = ('threshold', 'quantile', 'smc')                              # 9 / 8 / 8 batches: trees are cut at the depth limit
SMALL = ('threshold-small', 'quantile-small', 'smc-small')            # 3 / 4 / 6 batches: the decision trees are COMPLETE below the depth limit
SCRIPTED = ('threshold', 'quantile', 'smc3')                          # cyclic readiness scripts (run to the end of the objective)
BATCH_SIZE = 2


def build_model(elfi):
    m = elfi.ElfiModel()
    t = elfi.Prior('uniform', 0, 1, model=m, name='t')

    def sim(t, batch_size=1, random_state=None):
        return t + 0.3 * random_state.randn(batch_size)
    y = elfi.Simulator(sim, t, model=m, name='y', observed=np.array([0.5]))
    elfi.Distance('euclidean', y, model=m, name='d')
    return m


_cls = {}


def sched_client_class(elfi):
    import elfi.client as ec
    key = id(ec.ClientBase)
    if key in _cls:
        return _cls[key]

    class SchedClient(ec.ClientBase):
        def __init__(self, mode, decisions, pad, cores=1):
            self.tasks = {}              # id -> (kallable, args, kwargs)
            self.done = {}               # id -> result (exec mode: executed, not yet fetched)
            self._ids = itertools.count()
            self.mode, self.decisions, self.pad, self.cores = mode, list(decisions), pad, cores
            self.asked = 0               # decisions consumed so far
            self.options = []            # exec mode: number of options at each choice point
            self.log = []
            self.maxout = 0
            self._index = None

        # ---- sidecar: remember which batch index the next apply belongs to
        def load_data(self, compiled_net, context, batch_index):
            self._index = batch_index
            return ec.ClientBase.load_data.__func__(type(self), compiled_net, context, batch_index)

        def _decide(self, n_options):
            k = self.asked
            self.asked += 1
            self.options.append(n_options)
            if self.mode == 'cyclic':
                d = self.decisions[k % len(self.decisions)]        # a readiness script replayed cyclically to the end of the run
            else:
                d = self.decisions[k] if k < len(self.decisions) else self.pad
            return d % n_options

        def _event(self):
            """exec mode: possibly execute one outstanding unexecuted task now"""
            if self.mode != 'exec':
                return
            todo = [i for i in self.tasks if i not in self.done]
            if not todo:
                return
            d = self._decide(len(todo) + 1)
            if d > 0:
                self._run(todo[d - 1])

        def _run(self, i):
            f, a, kw = self.tasks[i]
            self.log.append(('exec', i))
            self.done[i] = f(*a, **kw)

        def apply(self, kallable, *args, **kwargs):
            i = next(self._ids)
            self.tasks[i] = (kallable, args, kwargs)
            self.log.append(('submit', i, self._index))
            self._index = None
            self.maxout = max(self.maxout, len(self.tasks))
            self._event()
            return i

        def apply_sync(self, kallable, *args, **kwargs):
            return kallable(*args, **kwargs)

        def is_ready(self, i):
            live = i in self.tasks
            if self.mode in ('answers', 'cyclic'):
                ans = bool(self._decide(2))
            else:
                self._event()
                ans = i in self.done
            self.log.append(('ready?', i, ans, live))
            return ans

        def get_result(self, i):
            self.log.append(('get', i, i in self.tasks))
            if self.mode == 'exec':
                self._event()
            if i not in self.done:
                self._run(i)
            self.tasks.pop(i)
            return self.done.pop(i)

        def remove_task(self, i):
            self.log.append(('rm', i, i in self.tasks))
            self.tasks.pop(i, None)
            self.done.pop(i, None)

        def reset(self):
            self.tasks.clear()
            self.done.clear()

        @property
        def num_cores(self):
            return self.cores
    _cls[key] = SchedClient
    return SchedClient


def _sample(elfi, model, kind, seed, mp):
    if kind == 'threshold':
        return elfi.Rejection(model['d'], batch_size=BATCH_SIZE, seed=seed, max_parallel_batches=mp).sample(4, threshold=0.15, bar=False)
    if kind == 'quantile':
        return elfi.Rejection(model['d'], batch_size=BATCH_SIZE, seed=seed, max_parallel_batches=mp).sample(3, quantile=0.2, bar=False)
    if kind == 'smc':
        return elfi.SMC(model['d'], batch_size=BATCH_SIZE, seed=seed, max_parallel_batches=mp).sample(4, thresholds=[0.4, 0.2], bar=False)
    if kind == 'smc3':
        return elfi.SMC(model['d'], batch_size=BATCH_SIZE, seed=seed, max_parallel_batches=mp).sample(4, thresholds=[0.4, 0.25, 0.15], bar=False)
    if kind == 'threshold-small':
        return elfi.Rejection(model['d'], batch_size=BATCH_SIZE, seed=seed, max_parallel_batches=mp).sample(3, threshold=0.25, bar=False)
    if kind == 'quantile-small':
        return elfi.Rejection(model['d'], batch_size=BATCH_SIZE, seed=seed, max_parallel_batches=mp).sample(2, quantile=0.25, bar=False)
    if kind == 'smc-small':
        return elfi.SMC(model['d'], batch_size=BATCH_SIZE, seed=seed, max_parallel_batches=mp).sample(3, thresholds=[0.4, 0.2], bar=False)
    raise ValueError(kind)


def _key(r):
    out = {k: np.asarray(v).tolist() for k, v in sorted(r.outputs.items())}
    key = dict(outputs=out, n_sim=int(r.n_sim), n_batches=int(r.n_batches), threshold=float(r.threshold))
    w = getattr(r, 'weights', None)
    if w is not None:
        key['weights'] = np.asarray(w).tolist()
    pops = getattr(r, 'populations', None)
    if pops:
        key['populations'] = [dict(n_batches=int(p.n_batches), threshold=float(p.threshold), t=np.asarray(p.outputs['t']).tolist()) for p in pops]
    return key


def run_schedule(elfi, model, kind, seed, mp, mode, decisions, pad, limit=20):
    """-> (result key | None, client, error text | None)"""
    import elfi.client as ec
    C = sched_client_class(elfi)
    c = C(mode, decisions, pad)
    old = ec.get_client()
    ec.set_client(c)
    try:
        with native.time_limit(limit):
            r = _sample(elfi, model, kind, seed, mp)
        return _key(r), c, None
    except native.NativeTimeout as e:
        return None, c, str(e)
    except Exception as e:
        return None, c, '%s: %s' % (type(e).__name__, str(e)[:160])
    finally:
        ec.set_client(old)


def check_log(c, mp, key):
    """event-log clauses of the property -> None or a failure text"""
    issued, index_of, fetched, removed = set(), {}, [], set()
    for ev in c.log:
        if ev[0] == 'submit':
            if ev[1] in issued:
                return 'task id %r issued twice' % (ev[1],)
            issued.add(ev[1])
            index_of[ev[1]] = ev[2]
        elif ev[0] == 'ready?':
            if not ev[3]:
                return 'is_ready asked about task %r which is not in the client' % (ev[1],)
        elif ev[0] == 'get':
            if not ev[2]:
                return 'get_result on task %r which is not in the client (fetched twice or cancelled)' % (ev[1],)
            if ev[1] in removed:
                return 'result of cancelled task %r was fetched' % (ev[1],)
            fetched.append(ev[1])
        elif ev[0] == 'rm':
            if ev[1] in fetched:
                return 'remove_task on task %r whose result was already fetched' % (ev[1],)
            if ev[1] in removed:
                return 'remove_task twice on task %r' % (ev[1],)
            removed.add(ev[1])
    order = [index_of.get(i) for i in fetched]
    if order != list(range(len(order))):
        return 'batches were not consumed in index order 0,1,2,..: fetched indices %r' % (order[:12],)
    if c.maxout > mp:
        return '%d tasks were outstanding with max_parallel_batches=%d' % (c.maxout, mp)
    if c.tasks:
        return '%d submitted task(s) left in the client when inference returned' % len(c.tasks)
    if issued != set(fetched) | removed:
        return 'tasks neither fetched nor removed: %r' % (sorted(issued - set(fetched) - removed)[:5],)
    if key is not None:
        if key['n_batches'] != len(fetched):
            return 'reported n_batches=%d but %d batches were fetched' % (key['n_batches'], len(fetched))
        if key['n_sim'] != BATCH_SIZE * len(fetched):
            return 'reported n_sim=%d != batch_size * fetched batches = %d' % (key['n_sim'], BATCH_SIZE * len(fetched))
    return None


def _diff(ref, key):
    for k in ref:
        if ref[k] != key.get(k):
            return k
    return None


def check_run(elfi, model, ref, kind, seed, mp, mode, decisions, pad):
    """-> (failure text | None, client)"""
    key, c, err = run_schedule(elfi, model, kind, seed, mp, mode, decisions, pad)
    if err:
        return 'run failed: ' + err, c
    f = check_log(c, mp, key)
    if f:
        return f, c
    d = _diff(ref, key)
    if d:
        return 'result differs from the sequential run in `%s` (%r vs %r)' % (d, str(key.get(d))[:80], str(ref[d])[:80]), c
    return None, c


def reference(elfi, model, kind, seed):
    key, c, err = run_schedule(elfi, model, kind, seed, 1, 'answers', [], 1)
    if err:
        raise RuntimeError('sequential reference run failed (%s seed %d): %s' % (kind, seed, err))
    return key, c


def enumerate_tree(elfi, model, ref, kind, seed, mp, mode, depth, on_fail, budget, root=(), max_len=None):
    """exhaustive decision tree below `root` up to `depth` decisions; beyond the prefix the constant pads.
    max_len: do not extend prefixes beyond this length (the top slice of a tree whose subtrees are separate jobs)."""
    cases = nontriv = 0
    stack = [list(root)]
    while stack:
        prefix = stack.pop()
        # whether a further decision is asked for depends on the prefix only, so one run decides it; a run that asks for more is
        # the same schedule as prefix + [pad] one level down and is only counted at the depth limit (there with both pads)
        pads = [0]
        more = None
        while pads:
            pad = pads.pop(0)
            if budget[0] <= 0:
                return cases, nontriv, False
            budget[0] -= 1
            f, c = check_run(elfi, model, ref, kind, seed, mp, mode, prefix, pad)
            if c.asked < len(prefix):
                break               # this prefix is longer than what the run asks for: the same schedule was run under a shorter prefix
            asks_more = c.asked > len(prefix)
            at_limit = len(prefix) >= depth or (max_len is not None and len(prefix) >= max_len)
            if asks_more and not at_limit and not f:
                more = c.options[len(prefix)]
                break               # internal node: covered by its children
            cases += 1
            nontriv += 1 if (c.maxout >= 2 or any(e[0] == 'rm' for e in c.log)) else 0
            if f:
                if on_fail(f, dict(kind=kind, seed=seed, max_parallel_batches=mp, mode=mode, decisions=list(prefix), pad=pad)):
                    return cases, nontriv, True
            if asks_more and at_limit and mode == 'answers' and pad == 0 and not (max_len is not None and len(prefix) >= max_len and len(prefix) < depth):
                pads.append(1)      # depth limit: the all-1 continuation as well
        if more is not None:
            for d in range(more):
                stack.append(prefix + [d])
    return cases, nontriv, True


def replay_input(inp):
    """True iff the property HOLDS on this schedule / operation sequence"""
    if inp.get('mode') == 'native-ops':
        return check_native_ops(inp['ops']) is None
    elfi = native.import_elfi()
    if inp.get('mode') == 'native':
        return check_native_run(elfi, build_model(elfi), inp['kind'], inp['seed'], inp['max_parallel_batches']) is None
    model = build_model(elfi)
    ref, _ = reference(elfi, model, inp['kind'], inp['seed'])
    f, c = check_run(elfi, model, ref, inp['kind'], inp['seed'], inp['max_parallel_batches'], inp['mode'], inp['decisions'], inp['pad'])
    return f is None


SPLIT = 2       # 'answers' trees are cut at this depth into independent jobs


def _job(a):
    kind, sd, mp, mode, depth, root, max_len, budget, stop_first = a
    elfi = native.import_elfi()
    model = build_model(elfi)
    fails = []

    def on_fail(what, inp):
        sig = 'c04:' + what.split(':')[0].split('(')[0].strip()[:60]
        if not any(x['signature'] == sig for x in fails):
            fails.append(dict(signature=sig, what=what, input=inp))
        return stop_first
    try:
        ref, c0 = reference(elfi, model, kind, sd)
    except Exception as e:
        if root == () and mode in ('answers', 'cyclic') and mp == 1:
            on_fail('sequential run: %s' % e, dict(kind=kind, seed=sd, max_parallel_batches=1, mode='answers', decisions=[], pad=1))
        return 0, 0, True, fails
    if mode == 'answers-if-short':
        if ref['n_batches'] > 5:
            return 0, 0, True, fails         # extra seeds are used only where the sequential run is short (complete tree stays small)
        mode = 'answers'
    cases = 0
    if root == () and mode in ('answers', 'cyclic') and mp == 1:
        cases = 1
        f0 = check_log(c0, 1, ref)
        if f0:
            on_fail('sequential run: ' + f0, dict(kind=kind, seed=sd, max_parallel_batches=1, mode='answers', decisions=[], pad=1))
    if mode == 'cyclic':
        # every readiness script of length <= depth over {ready, not ready}, replayed cyclically until the objective is reached
        n = nt = 0
        for ln in range(1, depth + 1):
            for script in itertools.product((0, 1), repeat=ln):
                if any(ln % q == 0 and script == script[:q] * (ln // q) for q in range(1, ln)):
                    continue            # a repetition of a shorter script
                f, c = check_run(elfi, model, ref, kind, sd, mp, 'cyclic', list(script), 0)
                n += 1
                nt += 1 if (c.maxout >= 2 or any(e[0] == 'rm' for e in c.log)) else 0
                if f and on_fail(f, dict(kind=kind, seed=sd, max_parallel_batches=mp, mode='cyclic', decisions=list(script), pad=0)):
                    return cases + n, nt, True, fails
        return cases + n, nt, True, fails
    n, nt, done = enumerate_tree(elfi, model, ref, kind, sd, mp, mode, depth, on_fail, [budget], root=root, max_len=max_len)
    return cases + n, nt, done, fails


def run(tier='quick', seed=0, stop_first=True, kinds=None, depth_answers=None, depth_exec=None, workers=None):
    import multiprocessing as mp_
    import os
    native.import_elfi()
    quick = tier == 'quick'
    LSM = depth_answers or (10 if quick else 14)         # small objectives: the trees end before this depth (complete enumeration)
    LA0 = depth_answers or (6 if quick else 12)          # large Rejection objectives
    LS = depth_answers or (5 if quick else 10)           # large SMC objective (runs are ~5x dearer)
    LX = depth_exec or (4 if quick else 6)
    LC = 6 if quick else 8                               # cyclic scripts
    budget = 3000 if quick else 40000
    jobs = []
    for sd in range(seed + 1, seed + (4 if quick else 8)):          # the small objectives are cheap: more seeds (where the objective completes varies)
        for kind in (kinds or SMALL[:2]):
            for mp in (2, 3, 6):
                jobs.append((kind, sd, mp, 'answers-if-short', LSM, (), None, budget, stop_first))
    for sd in range(seed, seed + (1 if quick else 2)):
        for kind in (kinds or SCRIPTED):
            for mp in (1, 2, 3, 6):
                jobs.append((kind, sd, mp, 'cyclic', LC, (), None, budget, stop_first))
        for kind in (kinds or (SMALL + KINDS)):
            LA = LSM if kind in SMALL else (LS if kind.startswith('smc') else LA0)
            for mp in (1, 2, 3):
                jobs.append((kind, sd, mp, 'answers', LA, (), SPLIT - 1 if LA >= SPLIT else None, budget, stop_first))
                if LA >= SPLIT:
                    for root in itertools.product((0, 1), repeat=SPLIT):
                        jobs.append((kind, sd, mp, 'answers', LA, tuple(root), None, budget, stop_first))
                if kind not in SMALL:
                    jobs.append((kind, sd, mp, 'exec', LX, (), None, budget, stop_first))
    workers = workers or max(1, min(8, (os.cpu_count() or 2) // 2))
    if workers > 1:
        with mp_.get_context('fork').Pool(workers) as pool:
            outs = pool.map(_job, jobs, chunksize=1)
    else:
        outs = [_job(j) for j in jobs]
    fails, cases, nontriv, complete = [], 0, 0, True
    for n, nt, done, fl in outs:
        cases += n
        nontriv += nt
        complete = complete and done
        for f in fl:
            if not any(x['signature'] == f['signature'] for x in fails):
                fails.append(f)
    if stop_first:
        fails = fails[:1]
    return dict(name='scheduled-client-exhaustive',
                bound='max_parallel_batches 1..3 (scripts: 1,2,3,6); (i) every readiness script of length <= %d over {ready, not ready} replayed cyclically to the end of the run, '
                      'objectives %s; (ii) every is_ready answer string up to length %d on the small objectives %s (their decision trees end before that depth: all schedules; the two Rejection ones also for max_parallel_batches 6 and those of 3 (thorough 7) further seeds whose sequential run takes <= 5 batches) and up to '
                      'length %d (SMC: %d) then all-0 / all-1 on %s; (iii) every execution order of the outstanding tasks over the first %d choice points (then lazy); seeds %d..%d; batch_size %d%s'
                      % (LC, '/'.join(SCRIPTED), LSM, '/'.join(SMALL), LA0, LS, '/'.join(KINDS), LX, seed, seed + (0 if quick else 1), BATCH_SIZE,
                         '' if complete else ' [run budget exhausted: enumeration incomplete]'),
                rule='non-trivial = a run in which >= 2 tasks were outstanding at once or a task was cancelled',
                cases=cases, nontrivial=nontriv, failures=fails)


# ------------------------------------------------------------------------------------------------ the native client
OPS = ('apply', 'get_oldest', 'get_newest', 'remove_oldest', 'remove_newest', 'remove_absent', 'is_ready', 'reset')


def check_native_ops(ops):
    """the abstract client contract, executable, on the REAL elfi.clients.native.Client for one operation sequence"""
    nat = native.import_module('elfi.clients.native')
    c = nat.Client()
    model = {}                # id -> value the task must return
    issued = set()
    ran = []
    n = 0
    for op in ops:
        live = sorted(model)
        try:
            with native.time_limit(5):
                if op == 'apply':
                    n += 1
                    i = c.apply(lambda v, tag=None: (ran.append(v), (v, tag))[1], n, tag='t%d' % n)
                    if i in model:
                        return 'apply returned id %r which is still in the client' % (i,)
                    if ran:
                        return 'apply executed the task'
                    model[i] = (n, 't%d' % n)
                    issued.add(i)
                elif op in ('get_oldest', 'get_newest') and live:
                    i = live[0] if op == 'get_oldest' else live[-1]
                    r = c.get_result(i)
                    if r != model[i]:
                        return 'get_result(%r) returned %r, the task stored under it yields %r' % (i, r, model[i])
                    del model[i]
                    ran.clear()
                elif op in ('remove_oldest', 'remove_newest') and live:
                    i = live[0] if op == 'remove_oldest' else live[-1]
                    c.remove_task(i)
                    del model[i]
                elif op == 'remove_absent':
                    c.remove_task(10 ** 6)
                elif op == 'is_ready' and live:
                    if not isinstance(c.is_ready(live[0]), bool):
                        return 'is_ready did not answer a bool'
                elif op == 'reset':
                    c.reset()
                    model.clear()
        except Exception as e:
            return '%s raised %s: %s' % (op, type(e).__name__, str(e)[:80])
        if set(c.tasks) != set(model):
            return 'after %s the task table holds %r, expected %r' % (op, sorted(c.tasks), sorted(model))
    return None


def check_native_run(elfi, model, kind, seed, mp):
    import elfi.client as ec
    nat = native.import_module('elfi.clients.native')
    ref, _ = reference(elfi, model, kind, seed)
    c = nat.Client()
    old = ec.get_client()
    ec.set_client(c)
    try:
        with native.time_limit(20):
            key = _key(_sample(elfi, model, kind, seed, mp))
    except Exception as e:
        return 'run failed: %s: %s' % (type(e).__name__, str(e)[:120])
    finally:
        ec.set_client(old)
    if c.tasks:
        return '%d submitted task(s) left in the native client when inference returned' % len(c.tasks)
    d = _diff(ref, key)
    if d:
        return 'native client: result differs from the sequential scheduled run in `%s`' % d
    return None


def run_native(tier='quick', seed=0):
    elfi = native.import_elfi()
    model = build_model(elfi)
    L = 4 if tier == 'quick' else 5
    fails, cases, nontriv = [], 0, 0
    for n in range(1, L + 1):
        for ops in itertools.product(OPS, repeat=n):
            if ops[0] != 'apply':
                continue
            cases += 1
            nontriv += 1 if ops.count('apply') >= 2 else 0
            f = check_native_ops(ops)
            if f and not fails:
                fails.append(dict(signature='c04:native-client:' + f.split(' ')[0][:30], what=f, input=dict(mode='native-ops', ops=list(ops))))
        if fails:
            break
    if not fails:
        for kind in KINDS:
            for mp in (1, 2, 3):
                cases += 1
                nontriv += 1 if mp > 1 else 0
                f = check_native_run(elfi, model, kind, seed, mp)
                if f:
                    fails.append(dict(signature='c04:native-run:' + f.split(':')[0][:40], what=f, input=dict(mode='native', kind=kind, seed=seed, max_parallel_batches=mp)))
                    break
            if fails:
                break
    return dict(name='native-client-contract', bound='every operation sequence of length <= %d over %s starting with apply; %s x max_parallel_batches 1..3 on the real native client' % (L, '/'.join(OPS), '/'.join(KINDS)),
                rule='non-trivial = at least two tasks queued (sequences) or max_parallel_batches > 1 (runs)', cases=cases, nontrivial=nontriv, failures=fails)
