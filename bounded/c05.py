"""Bounded stand-in / replay vehicle for C05 on the REAL code (elfi.Rejection end to end + the OutputPool API).

run_histories: one pool (dict OutputPool or on-disk ArrayPool under /var/tmp) goes through a HISTORY of <= 4 operations
  R2 / R3   Rejection(..., pool=pool).sample(min(3, 2 * batch_size), n_sim = k * batch_size) [never more samples than simulations: C01-F9]  (fill / rerun / rerun needing more batches than stored)
  RM_P      remove the stores of all parameters           RM_D   remove the store of the most downstream stored node
  RP_S2 / RP_d  replace the summary S2 / the distance d by a different function (the stores of the replaced node and of its
            descendants are removed first: a pool keyed by node name cannot notice a changed function)
  AT        attach an inference object without consuming a batch (gives a fresh pool its context; the pool may still be EMPTY afterwards)
  CL        pool.clear()  (context kept, no batch held)
  RO        ArrayPool only: close() -> ArrayPool.open(name, prefix)
over the model  t1, t2 (priors) -> y (simulator, stochastic) -> S1, S2 -> d,  for store sets "of the stated form"
(non-empty subset of {y, S1, S2, d}, optionally together with {t1, t2}); requested user outputs alternate between (y, S1, S2) and none.  Every user operation records (node, batch_index)
of each invocation (through elfi's `meta` argument) and its output.  Oracle (from the property text), after every run:
  (a) Sample outputs / n_sim / n_batches / threshold are exactly those of the pool-free run with the same seed on the same model,
  (b) no operation of a stored node was invoked for a batch the pool held for it before the run; nothing is invoked twice per batch,
  (c) for every stored node the index set is (what was there before) | [0, consumed) with the values the pool-free run computed,
  (d) before every run / attachment to a pool that has a context (empty or not) a different batch_size and a different seed (also the
      falsy seeds 0 and np.uint32(0)) are refused with ValueError and the pool context is unchanged; the same / omitted ones are accepted.
run_api: every sequence of <= 3 OutputPool API calls (add_batch / remove_batch / add_store / remove_store / clear / get_batch /
  len / in) over two nodes and batch indices 0..2 against an independent dict-of-dicts view."""
import itertools
import os
import random
import shutil
import tempfile

import numpy as np

from pyvc import native

OBS = 123456.0
PARAMS = ('t1', 't2')
DOWN = ('y', 'S1', 'S2', 'd')
ANC = {'t1': (), 't2': (), 'y': ('t1', 't2'), 'S1': ('y',), 'S2': ('y',), 'd': ('S1', 'S2')}
OUTPUTS = ('y', 'S1', 'S2')
KMAX = 3


def store_sets():
    out = []
    for r in range(1, 5):
        for sub in itertools.combinations(DOWN, r):
            out.append(tuple(sub))
            out.append(PARAMS + tuple(sub))
    return out


def executed(stores, outputs):
    """nodes whose operation has to run for a batch the pool holds completely: the requested outputs (user outputs + parameters +
    discrepancy) that are not stored, and recursively their parents that are not stored"""
    todo = [n for n in tuple(outputs) + PARAMS + ('d',) if n not in stores]
    ex = set()
    while todo:
        n = todo.pop()
        if n not in ex:
            ex.add(n)
            todo.extend(p for p in ANC[n] if p not in stores)
    return ex


def admissible(stores, outputs=OUTPUTS):
    """store_set_admissible for this model: when the pool holds a batch, the stochastic nodes that are skipped must form a suffix of
    (t1, t2, y) in execution order (or be all of them): inadmissible exactly when a parameter is stored and y has to be executed."""
    return not (any(p in stores for p in PARAMS) and 'y' in executed(stores, outputs))


# ---------------------------------------------------------------------------------------------- model with recorders
class Rec:
    def __init__(self):
        self.calls = []      # (node, batch_index)
        self.vals = {}       # (node, batch_index) -> array

    def hit(self, node, meta, val, extra=None):
        i = meta['batch_index']
        self.calls.append((node, i))
        self.vals[(node, i)] = np.array(val, copy=True)
        for k, v in (extra or {}).items():
            self.vals[(k, i)] = np.array(v, copy=True)


def build(elfi, variant, rec):
    vS2, vd = variant
    m = elfi.ElfiModel()
    t1 = elfi.Prior('uniform', 0, 1, model=m, name='t1')
    t2 = elfi.Prior('normal', 0, 1, model=m, name='t2')

    def sim(t1, t2, batch_size=1, random_state=None, meta=None):
        y = t1 + t2 + random_state.normal(size=batch_size)
        rec.hit('y', meta, y, dict(t1=t1, t2=t2))
        return y

    def s1(y, meta=None):
        r = y * 2.0
        if not (y.size == 1 and y.ravel()[0] == OBS):
            rec.hit('S1', meta, r)
        return r

    def s2(y, meta=None):
        r = y ** 2 if vS2 == 0 else np.abs(y) + 1.0
        if not (y.size == 1 and y.ravel()[0] == OBS):
            rec.hit('S2', meta, r)
        return r

    def dist(a, b, observed=None, meta=None):
        a, b = np.asarray(a).reshape(-1), np.asarray(b).reshape(-1)
        r = (np.abs(a) + np.abs(b)) if vd == 0 else np.maximum(np.abs(a), 2 * np.abs(b))
        rec.hit('d', meta, r)
        return r
    y = elfi.Simulator(sim, t1, t2, model=m, name='y', observed=np.array([OBS]))
    S1 = elfi.Summary(s1, y, model=m, name='S1')
    S2 = elfi.Summary(s2, y, model=m, name='S2')
    d = elfi.Discrepancy(dist, S1, S2, model=m, name='d')
    for n in (y, S1, S2, d):
        n.uses_meta = True
    return m


_ref_cache = {}


def reference(elfi, variant, b, seed, k, outputs=OUTPUTS):
    """the pool-free run: Sample of k batches + per-batch record of every node's value (from a KMAX-batch run)"""
    c = _ref_cache.setdefault((native.repo(), variant, b, seed, tuple(outputs)), {})
    for kk in (k, KMAX):
        if kk not in c:
            rec = Rec()
            m = build(elfi, variant, rec)
            res = elfi.Rejection(m['d'], batch_size=b, seed=seed, output_names=list(outputs)).sample(min(3, 2 * b), n_sim=kk * b, bar=False)
            c[kk] = (res, rec)
    return c[k][0], c[KMAX][1]


def same_sample(a, r):
    for k in r.outputs:
        if k not in a.outputs or not np.array_equal(np.asarray(a.outputs[k]), np.asarray(r.outputs[k])):
            return 'output %s differs from the pool-free run' % k
    if a.n_sim != r.n_sim or a.n_batches != r.n_batches:
        return 'n_sim / n_batches = %r / %r, pool-free %r / %r' % (a.n_sim, a.n_batches, r.n_sim, r.n_batches)
    if a.threshold != r.threshold:
        return 'threshold %r, pool-free %r' % (a.threshold, r.threshold)
    return None


def held(pool):
    out = {}
    for n, st in pool.stores.items():
        out[n] = set() if st is None else {i for i in range(0, 8) if i in st}
    return out


# ---------------------------------------------------------------------------------------------- one history
def refusals(elfi, pool, m, b, seed, outputs, where):
    """(d): a pool that has a context - whether or not it holds a batch yet - refuses every other batch_size / seed (also the falsy seed 0)"""
    if not pool.has_context:
        return None
    for kw, nm in ((dict(batch_size=b + 1), 'batch_size'), (dict(batch_size=b, seed=seed + 1), 'seed'),
                   (dict(batch_size=b, seed=0), 'seed (explicit 0)'), (dict(batch_size=b, seed=np.uint32(0)), 'seed (explicit uint32 0)')):
        try:
            elfi.Rejection(m['d'], output_names=list(outputs), pool=pool, **kw)
            return dict(what='%s: a different %s than the pool was created with is accepted (pool holds %d batches)' % (where, nm, len(pool)), signature='c05:context-not-refused')
        except ValueError:
            pass
    if pool.batch_size != b or pool.seed != seed:
        return dict(what='%s: the pool context changed to batch_size=%r seed=%r' % (where, pool.batch_size, pool.seed), signature='c05:context-changed')
    return None


def run_history(elfi, kind, stores, hist, b, seed, tmp, outputs=OUTPUTS):
    """-> None or dict(what, signature)"""
    variant = (0, 0)
    if kind == 'dict':
        pool = elfi.OutputPool(list(stores))
    else:
        pool = elfi.ArrayPool(list(stores), name='p%d' % next(_pool_ids), prefix=tmp)
    n_run = 0
    try:
        for step, op in enumerate(hist):
            where = 'step %d (%s)' % (step, op)
            if op in ('R2', 'R3'):
                k = int(op[1])
                ref, ref_rec = reference(elfi, variant, b, seed, k, outputs)
                before = held(pool)
                rec = Rec()
                m = build(elfi, variant, rec)
                f = refusals(elfi, pool, m, b, seed, outputs, where)
                if f:
                    return f
                kw = dict(batch_size=b)
                if not pool.has_context or n_run % 2 == 0:
                    kw['seed'] = seed
                n_run += 1
                try:
                    rej = elfi.Rejection(m['d'], output_names=list(outputs), pool=pool, **kw)
                except ValueError as e:
                    return dict(what='%s: the pool refuses its own batch_size / seed: %s' % (where, e), signature='c05:context-refused')
                res = rej.sample(min(3, 2 * b), n_sim=k * b, bar=False)
                # admissibility is per batch: a store that does not hold batch i (e.g. a store added later, still empty) is not loaded for it
                adm = all(admissible([n for n in pool.stores if i in before[n]], outputs) for i in range(k)) and admissible([s for s in pool.stores], outputs)
                tag = '' if adm else ' [parameters stored, simulator re-executed]'
                w = same_sample(res, ref)
                if w:
                    return dict(what='%s: %s%s' % (where, w, tag), signature='c05:params-stored-sim-reexecuted' if tag else 'c05:result-differs')
                cnt = {}
                for c in rec.calls:
                    cnt[c] = cnt.get(c, 0) + 1
                for (n, i), c in cnt.items():
                    if n in before and i in before[n]:
                        return dict(what='%s: operation of stored node %s invoked for batch %d, which the pool held' % (where, n, i), signature='c05:re-simulated')
                    if c > 1:
                        return dict(what='%s: operation of %s invoked %d times for batch %d' % (where, n, c, i), signature='c05:invoked-twice')
                after = held(pool)
                for n in pool.stores:
                    want = before[n] | set(range(k))
                    if after[n] != want:
                        return dict(what='%s: store %s holds batches %s, expected %s' % (where, n, sorted(after[n]), sorted(want)), signature='c05:pool-index-set')
                    for i in sorted(after[n]):
                        if (n, i) in ref_rec.vals and not np.array_equal(np.asarray(pool.stores[n][i]).reshape(-1), ref_rec.vals[(n, i)].reshape(-1)):
                            return dict(what='%s: store %s batch %d holds a value a fresh computation does not produce%s' % (where, n, i, tag),
                                        signature='c05:params-stored-sim-reexecuted' if tag else 'c05:pool-value')
            elif op == 'AT':
                # attach an inference object without consuming a batch (the first attachment gives the pool its context)
                m = build(elfi, variant, Rec())
                f = refusals(elfi, pool, m, b, seed, outputs, where)
                if f:
                    return f
                elfi.Rejection(m['d'], output_names=list(outputs), pool=pool, batch_size=b, **({} if pool.has_context else dict(seed=seed)))
            elif op == 'CL':
                pool.clear()
            elif op == 'RM_P':
                for p in PARAMS:
                    if p in pool.stores:
                        _drop(pool, p)
            elif op == 'RM_D':
                dn = [n for n in DOWN if n in pool.stores]
                if len(dn) >= 2:
                    _drop(pool, dn[-1])
            elif op in ('RP_S2', 'RP_d'):
                gone = ('S2', 'd') if op == 'RP_S2' else ('d',)
                left = [n for n in DOWN if n in pool.stores and n not in gone]
                if not left:
                    continue        # would leave a store set that is not of the stated form
                for n in gone:
                    if n in pool.stores:
                        _drop(pool, n)
                variant = (1 - variant[0], variant[1]) if op == 'RP_S2' else (variant[0], 1 - variant[1])
            elif op == 'RA_d':
                # the discrepancy is redefined and gets a NEW, EMPTY store while the other stores keep their batches: the stores of one pool
                # then have different lengths and the next run has to fill `d` for batches the other stores already hold
                if 'd' not in pool.stores or not [n for n in DOWN if n in pool.stores and n != 'd']:
                    continue
                _drop(pool, 'd')
                if kind == 'array':
                    fn = os.path.join(pool.path, 'd.npy') if getattr(pool, 'path', None) else None
                    if fn and os.path.exists(fn):
                        os.remove(fn)
                variant = (variant[0], 1 - variant[1])
                pool.add_store('d')
            elif op == 'RO':
                if kind == 'array' and pool.has_context:
                    name = pool.name
                    pool.close()
                    pool = elfi.ArrayPool.open(name, prefix=tmp)
        return None
    finally:
        if kind == 'array':
            try:
                pool.delete()
            except Exception:
                pass


def _drop(pool, n):
    st = pool.remove_store(n)
    if hasattr(st, 'close'):
        st.close()


_pool_ids = itertools.count()

OPS_DICT = ('R2', 'R3', 'AT', 'CL', 'RM_P', 'RM_D', 'RP_S2', 'RP_d', 'RA_d')
OPS_ARRAY = OPS_DICT + ('RO',)


def histories(kind, L):
    ops = OPS_DICT if kind == 'dict' else OPS_ARRAY
    for ln in range(1, L + 1):
        for h in itertools.product(ops, repeat=ln):
            if h[0] in ('R2', 'R3', 'AT') and h[-1] in ('R2', 'R3', 'AT'):
                yield h


def run_histories(tier='quick', seed=0, stop_first=True, only_admissible=None):
    elfi = native.import_elfi()
    rnd = random.Random(seed)
    tmp = tempfile.mkdtemp(prefix='c05-pools-', dir='/var/tmp')
    cases = nontrivial = 0
    failures, seen = [], set()
    sets = store_sets()
    try:
        plan = []
        for kind in ('dict', 'array'):
            short = list(histories(kind, 3))
            long_ = [h for h in histories(kind, 4) if len(h) == 4]
            for si, st in enumerate(sets):
                if only_admissible is not None and admissible(st) != only_admissible:
                    continue
                if tier == 'quick':
                    if kind == 'array' and si % 5 != seed % 5:
                        continue
                    hs = (short if (kind == 'dict' and si % 3 == seed % 3) else rnd.sample(short, 20 if kind == 'dict' else 12)) + rnd.sample(long_, 8 if kind == 'dict' else 6)
                    bs = (2,)
                else:
                    hs = short + rnd.sample(long_, 200 if kind == 'dict' else 120)
                    bs = (1, 3) if kind == 'dict' else (2,)
                for b in bs:
                    for h in hs:
                        plan.append((kind, st, h, b))
        for kind, st, h, b in plan:
            cases += 1
            outs = OUTPUTS if cases % 2 else ()
            sd = 3 + seed + (cases % 3)
            nontrivial += 1 if len(h) >= 2 else 0
            inp = dict(vehicle='history', kind=kind, stores=list(st), history=list(h), batch_size=b, seed=sd, outputs=list(outs))
            try:
                with native.time_limit(60):
                    f = run_history(elfi, kind, st, h, b, sd, tmp, outs)
            except native.NativeTimeout as e:
                f = dict(what=str(e), signature='c05:timeout')
            except Exception as e:
                f = dict(what='%s: %s' % (type(e).__name__, str(e)[:200]), signature='c05:crash-' + type(e).__name__)
            if f and f['signature'] not in seen:
                seen.add(f['signature'])
                f['input'] = inp
                failures.append(f)
                if stop_first and f['signature'] != 'c05:params-stored-sim-reexecuted':
                    break
    finally:
        shutil.rmtree(tmp, ignore_errors=True)
    return dict(name='pool-histories', bound='histories <= 4 ops over %s (quick: all of length <= 3 for every third store set of dict pools + seeded samples of the others, of length 4 and of array-pool histories); '
                '30 store sets of the stated form; 2-3 batches; batch_size %s' % ('/'.join(OPS_ARRAY), '2' if tier == 'quick' else '1,3 (array: 2)'),
                rule='non-trivial = history with at least one operation after the fill', cases=cases, nontrivial=nontrivial, failures=failures)


# ---------------------------------------------------------------------------------------------- the pool API against a view
NODES = ('a', 'b', 'c')          # 'c' never has a store


class View:
    """independent reference: stores = {node: None | {index: value}}"""

    def __init__(self, init):
        self.st = {n: (None if v is None else dict(v)) for n, v in init.items()}

    def add_batch(self, batch, i):
        for n, v in batch.items():
            if n in self.st:
                if self.st[n] is None:
                    self.st[n] = {}
                self.st[n].setdefault(i, v)

    def get_batch(self, i):
        return {n: s[i] for n, s in self.st.items() if s is not None and i in s}

    def remove_batch(self, i):
        for s in self.st.values():
            if s is not None:
                s.pop(i, None)

    def clear(self):
        for s in self.st.values():
            if s is not None:
                s.clear()

    def length(self):
        return max([0] + [1 + max(s) for s in self.st.values() if s])

    def contains(self, i):
        return any(s is not None and i in s for s in self.st.values())

    def contiguous(self):
        return all(s is None or set(s) == set(range(len(s))) for s in self.st.values())


API_OPS = [('add_batch', n, i) for n in (('a',), ('a', 'b'), ('b', 'c')) for i in (0, 1, 2)] + [('remove_batch', i) for i in (0, 1)] + \
    [('clear',), ('add_store', 'b'), ('add_store', 'c'), ('remove_store', 'a'), ('remove_store', 'b')]
INITS = [dict(a=None, b=None), dict(a={}, b=None), dict(a={0: 'a0'}, b={}), dict(a={0: 'a0', 1: 'a1'}, b={0: 'b0'}), dict(a={0: 'a0'})]


def api_case(store_mod, init, seq):
    pool = store_mod.OutputPool({n: (None if v is None else dict(v)) for n, v in init.items()})
    view = View(init)
    fresh = itertools.count()
    for step, op in enumerate(seq):
        where = 'step %d %r' % (step, op)
        try:
            if op[0] == 'add_batch':
                batch = {n: 'v%d' % next(fresh) for n in op[1]}
                pool.add_batch(batch, op[2])
                view.add_batch(batch, op[2])
            elif op[0] == 'remove_batch':
                view.remove_batch(op[1])
                pool.remove_batch(op[1])
            elif op[0] == 'clear':
                view.clear()
                pool.clear()
            elif op[0] == 'add_store':
                n = op[1]
                exists = n in view.st and view.st[n] is not None
                try:
                    pool.add_store(n)
                    if exists:
                        return dict(what='%s: add_store over an existing store is accepted' % where, signature='c05:add-store-overwrites')
                    view.st[n] = {}
                except ValueError:
                    if not exists:
                        return dict(what='%s: add_store refused although there is no store' % where, signature='c05:add-store-refused')
            elif op[0] == 'remove_store':
                n = op[1]
                if n in view.st:
                    want = view.st.pop(n)
                    got = pool.remove_store(n)
                    if (got is None) != (want is None) or (got is not None and dict(got) != want):
                        return dict(what='%s: remove_store returned %r, the view says %r' % (where, got, want), signature='c05:remove-store')
        except Exception as e:
            return dict(what='%s: %s: %s' % (where, type(e).__name__, str(e)[:120]), signature='c05:api-crash-%s-%s' % (op[0], type(e).__name__))
        # observe
        try:
            got = {n: (None if s is None else dict(s)) for n, s in pool.stores.items()}
            if got != view.st:
                return dict(what='%s: stores %r, the view says %r' % (where, got, view.st), signature='c05:api-view-' + op[0])
            for i in (0, 1, 2):
                if pool.get_batch(i) != view.get_batch(i):
                    return dict(what='%s: get_batch(%d) = %r, the view says %r' % (where, i, pool.get_batch(i), view.get_batch(i)), signature='c05:api-get_batch')
            if view.contiguous():
                if len(pool) != view.length():
                    return dict(what='%s: len(pool) = %d, the view holds batches below %d' % (where, len(pool), view.length()), signature='c05:api-len')
                for i in (0, 1, 2, 3):
                    if (i in pool) != view.contains(i):
                        return dict(what='%s: (%d in pool) = %r, the view says %r' % (where, i, i in pool, view.contains(i)), signature='c05:api-contains')
        except Exception as e:
            return dict(what='%s: observing the pool: %s: %s' % (where, type(e).__name__, str(e)[:120]), signature='c05:api-observe-crash')
    return None


def run_api(tier='quick', seed=0):
    store_mod = native.import_module('elfi.store')
    cases = nontrivial = 0
    failures, seen = [], set()
    L = 3 if tier == 'quick' else 4
    for ii, init in enumerate(INITS):
        for ln in range(1, L + 1):
            for seq in itertools.product(API_OPS, repeat=ln):
                cases += 1
                nontrivial += 1 if ln >= 2 else 0
                with native.time_limit(10):
                    f = api_case(store_mod, init, seq)
                if f and f['signature'] not in seen:
                    seen.add(f['signature'])
                    f['input'] = dict(vehicle='api', init=ii, seq=[list(o) for o in seq])
                    failures.append(f)
    return dict(name='pool-api', bound='all sequences of <= %d OutputPool API calls over nodes a,b,c, batch indices 0..2, %d initial pools (stores None / empty / filled)' % (L, len(INITS)),
                rule='non-trivial = at least two calls', cases=cases, nontrivial=nontrivial, failures=failures)


def replay_input(inp):
    """True iff the property HOLDS on this input"""
    inp = inp.get('input', inp)          # the driver stores the whole failure record of a bounded run
    if inp.get('vehicle') == 'api':
        store_mod = native.import_module('elfi.store')
        return api_case(store_mod, INITS[inp['init']], [tuple(tuple(x) if isinstance(x, list) else x for x in o) for o in inp['seq']]) is None
    elfi = native.import_elfi()
    tmp = tempfile.mkdtemp(prefix='c05-pools-', dir='/var/tmp')
    try:
        with native.time_limit(60):
            return run_history(elfi, inp['kind'], tuple(inp['stores']), tuple(inp['history']), inp['batch_size'], inp['seed'], tmp, tuple(inp.get('outputs', OUTPUTS))) is None
    finally:
        shutil.rmtree(tmp, ignore_errors=True)
