"""Bounded stand-in / replay vehicle for C06 on the REAL elfi.store.NpyStore / NpyArray (labelled bounded).

OPS: append (store[len] = batch), overwrite (batch 0) / overwrite_last (last batch; on an empty store: store[len+1] = batch must raise
IndexError), del_last (first checks that deleting index len and, with >= 2 batches, batch 0 raise IndexError), clear, flush,
reopen (close + NpyStore(path)), pickle (dumps, close, loads).  reopen/pickle/clear are skipped while the store was never appended to
(the property is about initialised stores).
(a) functional: every operation sequence of length <= L over OPS, for the (dtype, row shape) configurations, batch size 2, compared with
    an in-memory list after every operation (len, `in`, every batch) and numpy.load(file) after every flush / close / pickle.
(b) crash: for every sequence of length <= LK that contains a completed flush-like operation before its last operation, a child
    process (os.fork) re-runs the sequence and os._exit()s before the first, after EVERY low-level file call (seek / write /
    truncate / flush / close on NpyArray.fs, including those numpy.memmap makes) of the LAST operation, and right after it (kill
    points in earlier operations are the last-operation kill points of the prefix sequences, which are all enumerated); afterwards
    numpy.load(file) must succeed and equal one of the logical contents between the last completed flush and the end of the
    interrupted operation.  "before call k" leaves the same file as "after call k-1", so the quick tier only runs the latter.
(c) preloaded: the store is opened over an EXISTING file that holds more rows than the store exposes - PRELOADS: NpyStore(file, bs,
    n_batches=k) over a file with more than k batches ('longer'), or NpyStore(file, bs) over a file whose length is not a multiple
    of the batch size ('ragged': n_batches = len // bs).  Same comparison with the in-memory list; numpy.load after flush/close must
    START with the stored batches (the file may legitimately hold further rows); reopen passes n_batches = len(store).  The harness
    tracks the physical row count: `store[len] = batch` may raise IndexError only when the ragged tail leaves no room for a whole
    batch (bs*len < rows < bs*(len+1)); if it does not raise, the batch must read back exactly.
"""
import io
import itertools
import os
import pickle
import shutil

import numpy as np

from pyvc import native

OPS = ('append', 'overwrite', 'overwrite_last', 'del_last', 'clear', 'flush', 'reopen', 'pickle')
FLUSHLIKE = ('flush', 'reopen', 'pickle')
CONFIGS = [('f8', ()), ('i4', (2,)), ('i4', ()), ('f8', (2,))]
BS = 2
LOW = ('seek', 'write', 'truncate', 'flush', 'close')
# (kind, physical rows in the file, n_batches passed to NpyStore or None for the default -1)
# memory layouts of the batches handed to the store (all have the same LOGICAL value): C-ordered, Fortran-ordered copy, transposed
# view, every-other-row view x[::2], every-other-item view x[..., ::2], non-native byte order (whole history), and a native store
# that is handed non-native batches after the first one (append may refuse them with ValueError, overwrite must convert)
LAYOUTS = ('F', 'T', 'S', 'L', 'E', 'X')
LCONFIGS = [('i4', (2,)), ('f8', (2, 3)), ('f8', ())]
LOPS = ('append', 'overwrite', 'overwrite_last', 'del_last', 'flush', 'reopen', 'pickle')


def lay_out(b, layout, first):
    """the same logical array in another memory layout"""
    if layout == 'C':
        return b
    if layout == 'F':
        return np.asfortranarray(b)
    if layout == 'T':
        return np.ascontiguousarray(b.T).T
    if layout == 'S' or (layout == 'L' and b.ndim == 1):
        big = np.zeros((2 * b.shape[0],) + b.shape[1:], dtype=b.dtype)
        big[::2] = b
        return big[::2]
    if layout == 'L':
        big = np.zeros(b.shape[:-1] + (2 * b.shape[-1],), dtype=b.dtype)
        big[..., ::2] = b
        return big[..., ::2]
    if layout == 'E' or (layout == 'X' and not first):
        return b.astype(b.dtype.newbyteorder())
    if layout == 'X':
        return b
    raise ValueError(layout)


PRELOADS = [('longer', 4 * BS, 2), ('longer', 2 * BS, 0), ('longer', 3 * BS, 1), ('ragged', 2 * BS + 1, None), ('ragged', 1, None), ('ragged', 3 * BS + 1, 1)]


def _tmpdir():
    d = os.path.join(os.environ.get('PYVC_TMP', '/var/tmp/pyvc-tmp'), 'c06-%d' % os.getpid())
    os.makedirs(d, exist_ok=True)
    return d


def store_module():
    native.import_elfi()
    import elfi.store as S
    return S


class KillFile:
    """wraps NpyArray.fs: counts the low-level calls while ctl['active'] and os._exit()s at the chosen one"""

    def __init__(self, f, ctl):
        self.__dict__['_f'] = f
        self.__dict__['_ctl'] = ctl

    def __getattr__(self, name):
        a = getattr(self._f, name)
        if name not in LOW:
            return a
        ctl = self._ctl

        def call(*args, **kw):
            if not ctl['active']:
                return a(*args, **kw)
            k = ctl['count']
            ctl['count'] = k + 1
            ctl['names'].append(name)
            t = ctl['target']
            if t is not None and t[0] == k and t[1] == 'before':
                os._exit(0)
            r = a(*args, **kw)
            if t is not None and t[0] == k and t[1] == 'after':
                os._exit(0)
            return r
        return call


def diff_dtype(a, b):
    """dtypes differ in more than the byte order (the values are compared separately)"""
    return np.dtype(a).newbyteorder('=') != np.dtype(b).newbyteorder('=')


class Fail(Exception):
    def __init__(self, sig, what):
        Exception.__init__(self, what)
        self.sig, self.what = sig, what


class Runner:
    def __init__(self, S, path, cfg, ctl=None, preload=None, layout='C'):
        self.S, self.path, self.ctl, self.layout = S, path, ctl, layout
        self.dtype, self.rshape = np.dtype(cfg[0]), tuple(cfg[1])
        if layout == 'E':
            self.dtype = self.dtype.newbyteorder()      # the store is created from, and only ever sees, non-native batches
        self.model, self.counter, self.initialised = [], 0, False
        self.preload = preload
        self.phys = 0                   # rows physically in the file (tracked for preloaded histories)
        if preload is not None:
            kind, rows, nb = preload
            n = rows * int(np.prod(self.rshape, dtype=int))
            content = (np.arange(n) + 7000).reshape((rows,) + self.rshape).astype(self.dtype)
            S.NpyArray(path, content).close()
            self.store = S.NpyStore(path, BS) if nb is None else S.NpyStore(path, BS, n_batches=nb)
            k = rows // BS if nb is None else nb
            self.model = [content[BS * i:BS * (i + 1)].copy() for i in range(k)]
            self.phys, self.initialised = rows, True
        else:
            self.store = S.NpyStore(path, BS)
        self.snapshots = [self.content()]
        self.flushed_at = None          # index into snapshots of the state at the last completed flush-like op
        self.wrap()

    def wrap(self):
        if self.ctl is not None:
            self.store.array.fs = KillFile(self.store.array.fs, self.ctl)

    def batch(self):
        self.counter += 1
        n = BS * int(np.prod(self.rshape, dtype=int))
        b = (np.arange(n) + 100 * self.counter).reshape((BS,) + self.rshape).astype(np.dtype(self.dtype).newbyteorder('='))
        return lay_out(b, self.layout, not self.initialised)

    def logical(self, b):
        """what the store must report for batch b: same values, the dtype of the store, plain C order"""
        return np.ascontiguousarray(b).astype(self.dtype)

    def content(self):
        if not self.model:
            return np.zeros((0,) + self.rshape, dtype=self.dtype)
        return np.concatenate(self.model, axis=0)

    def _expect_index_error(self, fn, what):
        try:
            fn()
        except IndexError:
            return
        raise Fail('raise', '%s did not raise IndexError' % what)

    def do(self, op, pos=0):
        st, m = self.store, self.model
        if op == 'append':
            b = self.batch()
            if self.preload is not None and BS * len(m) < self.phys < BS * (len(m) + 1):
                # ragged tail without room for a whole batch: IndexError is acceptable; silently storing is too, IF it reads back
                try:
                    st[len(m)] = b
                except IndexError:
                    self.snapshots.append(self.content())
                    return
                m.append(self.logical(b))
                self.phys = max(self.phys, BS * len(m))
            elif b.dtype != self.dtype:
                # a batch of another dtype (byte order): the store may refuse it (ValueError, nothing changed) - if it takes it, it must read back
                try:
                    st[len(m)] = b
                except ValueError:
                    self.snapshots.append(self.content())
                    return
                m.append(self.logical(b))
                self.phys = max(self.phys, BS * len(m))
            else:
                st[len(m)] = b
                m.append(self.logical(b))
                self.phys = max(self.phys, BS * len(m))
            self.initialised = True
        elif op in ('overwrite', 'overwrite_last'):
            b = self.batch()
            if m:
                i = 0 if op == 'overwrite' else len(m) - 1
                st[i] = b
                m[i] = self.logical(b)
            else:
                self._expect_index_error(lambda: st.__setitem__(len(m) + 1, b), 'store[len+1] = batch')
        elif op == 'del_last':
            # the list-of-batches spec: only the last batch can be deleted
            self._expect_index_error(lambda: st.__delitem__(len(m)), 'del store[len]')
            if len(m) >= 2:
                self._expect_index_error(lambda: st.__delitem__(0), 'del store[0] (a middle batch)')
            if m:
                del st[len(m) - 1]
                m.pop()
                self.phys = BS * len(m)
        elif not self.initialised and op in ('clear', 'reopen', 'pickle'):
            pass      # the property is about initialised stores
        elif op == 'clear':
            st.clear()
            del m[:]
            self.phys = 0
        elif op == 'flush':
            st.flush()
            if self.initialised:
                self.check_file('flush')
                self.flushed_at = len(self.snapshots)
        elif op == 'reopen':
            st.close()
            self.check_file('close')
            self.store = self.S.NpyStore(self.path, BS) if self.preload is None else self.S.NpyStore(self.path, BS, n_batches=len(m))
            self.wrap()
            self.flushed_at = len(self.snapshots)
        elif op == 'pickle':
            data = pickle.dumps(st)
            self.check_file('pickling')
            st.close()
            self.store = pickle.loads(data)
            self.wrap()
            self.flushed_at = len(self.snapshots)
        else:
            raise ValueError(op)
        self.snapshots.append(self.content())

    def check_file(self, after):
        try:
            a = np.load(self.path)
        except Exception as e:
            raise Fail('file', 'numpy.load fails after %s: %s: %s' % (after, type(e).__name__, str(e)[:80]))
        want = self.content()
        if self.preload is not None:
            # the file may hold rows beyond the exposed batches: it must START with the stored batches
            if diff_dtype(a.dtype, want.dtype) or a.shape[1:] != want.shape[1:] or len(a) < len(want) or not np.array_equal(a[:len(want)], want):
                raise Fail('file', 'numpy.load after %s gives %s rows %s, which do not start with the %s rows the store holds %s'
                           % (after, a.shape[0], a.tolist()[:6], want.shape[0], want.tolist()[:6]))
            return
        if diff_dtype(a.dtype, want.dtype) or a.shape != want.shape or not np.array_equal(a, want):
            raise Fail('file', 'numpy.load after %s gives %s rows %s, the store holds %s rows %s' % (after, a.shape[0], a.tolist()[:6], want.shape[0], want.tolist()[:6]))

    def check_view(self):
        st, m = self.store, self.model
        if len(st) != len(m):
            raise Fail('view', 'len(store) = %d, in-memory sequence has %d batches' % (len(st), len(m)))
        for i in range(len(m) + 2):
            if (i in st) != (i < len(m)):
                raise Fail('view', '(%d in store) = %r with %d batches' % (i, i in st, len(m)))
        for i, b in enumerate(m):
            got = np.array(st[i])
            if diff_dtype(got.dtype, b.dtype) or got.shape != b.shape or not np.array_equal(got, b):
                raise Fail('view', 'store[%d] = %s, written %s' % (i, got.tolist(), b.tolist()))

    def finish(self):
        try:
            self.store.close()
        except Exception:
            pass


def _path(tag):
    return os.path.join(_tmpdir(), 'a%s.npy' % tag)


def run_sequence(S, cfg, seq, count_last=False, preload=None, layout='C'):
    """functional run -> (failure dict or None, info).  info = dict(calls=#file calls of the last op, names, hist=[contents], flushed)"""
    path = _path('f')
    if os.path.exists(path):
        os.remove(path)
    ctl = dict(active=False, count=0, target=None, names=[]) if count_last else None
    inp = dict(dtype=cfg[0], row_shape=list(cfg[1]), batch_size=BS, seq=list(seq))
    if preload is not None:
        inp['preload'] = list(preload)
    if layout != 'C':
        inp['layout'] = layout
    r = None
    try:
        with native.time_limit(20):
            r = Runner(S, path, cfg, ctl, preload, layout)
            for j, op in enumerate(seq):
                if ctl is not None and j == len(seq) - 1:
                    ctl['active'] = True
                    r.flushed_before_last = r.flushed_at
                r.do(op, j)
                if ctl is not None:
                    ctl['active'] = False
                r.check_view()
    except Fail as e:
        return dict(signature='c06:' + e.sig, what=e.what, input=inp), None
    except native.NativeTimeout as e:
        return dict(signature='c06:timeout', what=str(e), input=inp), None
    except Exception as e:
        return dict(signature='c06:exception', what='%s: %s' % (type(e).__name__, str(e)[:120]), input=inp), None
    finally:
        if r is not None:
            r.finish()
    info = None
    if ctl is not None:
        f = getattr(r, 'flushed_before_last', None)
        info = dict(calls=ctl['count'], names=list(ctl['names']), hist=(r.snapshots[f:] if f is not None else None))
    return None, info


def kill_run(S, cfg, seq, k, when, hist):
    """child re-runs seq and dies at file call k of the last op; parent loads the file -> failure dict or None"""
    path = _path('k')
    if os.path.exists(path):
        os.remove(path)
    inp = dict(dtype=cfg[0], row_shape=list(cfg[1]), batch_size=BS, seq=list(seq), kill=[k, when])
    pid = os.fork()
    if pid == 0:
        code = 7
        try:
            ctl = dict(active=False, count=0, target=(k, when), names=[])
            r = Runner(S, path, cfg, ctl)
            for j, op in enumerate(seq):
                if j == len(seq) - 1:
                    ctl['active'] = True
                r.do(op, j)
                if j < len(seq) - 1:
                    r.check_view()          # as in the counting run (reads create and cache the memmap)
            code = 0 if when == 'end' else 8
        except BaseException:
            code = 9
        finally:
            os._exit(code)
    _, status = os.waitpid(pid, 0)
    code = os.waitstatus_to_exitcode(status)
    if code != 0:
        return dict(signature='c06:harness', what='child did not reach the kill point (exit %s)' % code, input=inp)
    try:
        a = np.load(path)
    except Exception as e:
        return dict(signature='c06:crash-load', input=inp,
                    what='%s `%s`: numpy.load fails: %s: %s' % (_kp(k, when), seq[-1], type(e).__name__, str(e)[:90]))
    for h in hist:
        if not diff_dtype(a.dtype, h.dtype) and a.shape == h.shape and np.array_equal(a, h):
            return None
    return dict(signature='c06:crash-content', input=inp,
                what='%s `%s`: file holds %d rows %s, which was never the logical content since the last flush (%s)'
                     % (_kp(k, when), seq[-1], a.shape[0], a.tolist()[:6], ' | '.join(str(h.tolist()[:6]) for h in hist)))


def _kp(k, when):
    return 'killed right after' if when == 'end' else 'killed %s file call %d of' % (when, k)


def sequences(L, ops=OPS):
    for ln in range(1, L + 1):
        for seq in itertools.product(ops, repeat=ln):
            yield seq


def kill_points(info, full):
    pts = [(0, 'before')] if info['calls'] else []
    for k in range(info['calls']):
        if full and k > 0:
            pts.append((k, 'before'))
        pts.append((k, 'after'))
    pts.append((info['calls'], 'end'))       # the operation completed (covers stores through the memmap, which are not file calls)
    return pts


def run(tier='quick', seed=0):
    S = store_module()
    L = 4 if tier == 'quick' else 5
    LK = 4
    cfgs = CONFIGS
    kcfgs = CONFIGS[1:2] if tier == 'quick' else CONFIGS[:2]
    L6 = () if tier == 'quick' else CONFIGS[1:2]        # thorough: length 6 for one configuration
    fun = dict(name='npystore-op-sequences', bound='sequences <= %d (%s: <= 6) over %s; batch_size %d; %s' % (L, list(L6), '/'.join(OPS), BS, cfgs),
               rule='non-trivial = sequence with an append followed by a delete/clear/overwrite/reopen/pickle', cases=0, nontrivial=0, failures=[])
    kil = dict(name='npystore-kill-injection',
               bound='sequences <= %d%s with a completed flush before the last op; kill before the first file call, after every file call%s and right '
                     'after the last op; %s' % (LK, ' starting with append' if tier == 'quick' else '', '' if tier == 'quick' else ' (and before every one)', kcfgs),
               rule='non-trivial = kill inside or right after an operation that changes the content, after an earlier append', cases=0, nontrivial=0, failures=[])
    LP = 3 if tier == 'quick' else 4
    pcfgs = CONFIGS[1:2] if tier == 'quick' else CONFIGS
    pre = dict(name='npystore-preloaded-files', bound='sequences <= %d over the same ops on a store opened over an existing file; preloads (kind, rows, n_batches) %s; %s'
               % (LP, PRELOADS, pcfgs),
               rule='non-trivial = sequence that appends (writes batch index len(store)) while the file holds rows beyond the exposed batches',
               cases=0, nontrivial=0, failures=[])
    LL = 3 if tier == 'quick' else 4
    lcfgs = LCONFIGS
    lay = dict(name='npystore-batch-layouts', bound='sequences <= %d (quick: <= 4 for the first configuration) starting with append over %s, every batch handed over in memory layout %s '
               '(F = Fortran-ordered copy, T = transposed view, S = x[::2] rows, L = x[..., ::2] items, E = non-native byte order throughout, '
               'X = non-native batches to a native store); batch_size %d; %s' % (LL, '/'.join(LOPS), '/'.join(LAYOUTS), BS, lcfgs),
               rule='non-trivial = the layout changes the byte image of the batch (row shape with >= 2 items, or a strided / byte-swapped batch)',
               cases=0, nontrivial=0, failures=[])
    fsg = dict(name='npyarray-file-names', bound='scenarios: pickle / deepcopy round trip of a store in a sub-folder (relative and absolute path) with and '
               'without another array file of the same base name in the working directory / elsewhere, store moved with its folder, file gone, '
               'ArrayPool node stores (pickle of the node store; save/close/open) next to a namesake file, NpyArray(name) with and without the .npy '
               'suffix x reopen / truncate=True / array over an existing file, delete (open, pending header, closed; twice)',
               rule='non-trivial = another file with the same base name (or the suffix-less name) exists', cases=0, nontrivial=0, failures=[])
    seen_f, seen_k, seen_p, seen_l = set(), set(), set(), set()
    try:
        for inp, fn in fs_scenarios(S, tier):
            f = run_fs(S, inp, fn)
            fsg['cases'] += 1
            if inp.get('other') or inp['scenario'] in ('arraypool', 'file-name', 'delete') or inp.get('namesake_elsewhere'):
                fsg['nontrivial'] += 1
            if f and f['signature'] not in seen_f:
                seen_f.add(f['signature'])
                fsg['failures'].append(f)
        seen_f = set()
        for cfg in lcfgs:
            for layout in LAYOUTS:
                for seq in sequences(LL if (tier == 'quick' and cfg == LCONFIGS[0]) else LL - 1, LOPS):
                    seq = ('append',) + seq
                    f, _ = run_sequence(S, cfg, seq, layout=layout)
                    lay['cases'] += 1
                    if cfg[1] or layout in ('S', 'L', 'E', 'X'):
                        lay['nontrivial'] += 1
                    if f and (f['signature'], layout) not in seen_l:
                        seen_l.add((f['signature'], layout))
                        f['signature'] = f['signature'].replace('c06:', 'c06:layout-%s-' % layout)
                        lay['failures'].append(f)
        for cfg in pcfgs:
            for pl in PRELOADS:
                for seq in sequences(LP):
                    f, _ = run_sequence(S, cfg, seq, preload=pl)
                    pre['cases'] += 1
                    if 'append' in seq and 'clear' not in seq[:seq.index('append')]:
                        pre['nontrivial'] += 1
                    if f and f['signature'] not in seen_p:
                        seen_p.add(f['signature'])
                        f['signature'] = f['signature'].replace('c06:', 'c06:preloaded-')
                        pre['failures'].append(f)
        for cfg in cfgs:
            for seq in sequences(6 if cfg in L6 else L):
                want_kill = cfg in kcfgs and len(seq) <= LK and any(o in FLUSHLIKE for o in seq[:-1]) and (tier != 'quick' or seq[0] == 'append')
                f, info = run_sequence(S, cfg, seq, count_last=want_kill)
                fun['cases'] += 1
                if 'append' in seq and any(o in seq[seq.index('append') + 1:] for o in ('del_last', 'clear', 'overwrite', 'reopen', 'pickle')):
                    fun['nontrivial'] += 1
                if f:
                    if f['signature'] not in seen_f:
                        seen_f.add(f['signature'])
                        fun['failures'].append(f)
                    continue
                if want_kill and info and info['hist'] is not None:
                    for k, when in kill_points(info, tier != 'quick'):
                        kf = kill_run(S, cfg, seq, k, when, info['hist'])
                        kil['cases'] += 1
                        if seq[-1] in ('append', 'overwrite', 'overwrite_last', 'del_last', 'clear') and 'append' in seq[:-1]:
                            kil['nontrivial'] += 1
                        if kf and kf['signature'] not in seen_k:
                            seen_k.add(kf['signature'])
                            kil['failures'].append(kf)
    finally:
        shutil.rmtree(_tmpdir(), ignore_errors=True)
    return [fun, kil, pre, lay, fsg]


# ------------------------------------------------------------------------------------------------ file names: reopen, unpickle, delete
def _b(start, rshape=(2,), dtype='f8'):
    n = BS * int(np.prod(rshape, dtype=int))
    return (np.arange(n) + start).reshape((BS,) + tuple(rshape)).astype(dtype)


def _same(store, model):
    if len(store) != len(model):
        return 'reports %d batches, the in-memory sequence has %d' % (len(store), len(model))
    for i, b in enumerate(model):
        got = np.array(store[i])
        if diff_dtype(got.dtype, b.dtype) or got.shape != b.shape or not np.array_equal(got, b):
            return 'batch %d is %s, written %s' % (i, got.tolist(), b.tolist())
    return None


def _rows(path):
    try:
        return np.load(path).tolist()
    except Exception as e:
        return '%s: %s' % (type(e).__name__, str(e)[:60])


def fs_scenarios(S, tier='quick', extra=False):
    """-> list of (input dict, callable() -> None | str).  Every scenario runs in a fresh directory that is the working directory."""
    out = []

    def namesake(store_rel, other_rel, absolute, via):
        def run():
            sp = os.path.abspath(store_rel) if absolute else store_rel
            for q in (sp, other_rel):
                if q and os.path.dirname(q):
                    os.makedirs(os.path.dirname(q), exist_ok=True)
            other0 = None
            if other_rel:
                S.NpyArray(other_rel, np.concatenate([_b(-500), _b(-400)])).close()
                other0 = open(other_rel + '.npy', 'rb').read()
            st = S.NpyStore(sp, BS)
            model = []
            for k in range(3):
                model.append(_b(100 * (k + 1)))
                st[k] = model[-1]
            if via == 'pickle':
                cp = pickle.loads(pickle.dumps(st))
            else:
                import copy
                cp = copy.deepcopy(st)
            try:
                w = _same(cp, model)
                if w:
                    return 'unpickled store of %s%s: %s' % (sp, ' (another %s.npy exists)' % other_rel if other_rel else '', w)
                st.close()
                # keep working through the unpickled store
                model[0] = _b(900)
                cp[0] = model[0]
                del cp[2]
                model.pop()
                model.append(_b(1000))
                cp[2] = model[-1]
                w = _same(cp, model)
                if w:
                    return 'after overwrite/delete/append through the unpickled store of %s: %s' % (sp, w)
                cp.flush()
                if _rows(sp + '.npy') != np.concatenate(model).tolist():
                    return 'file %s.npy holds %s after flush, the store holds %s' % (sp, _rows(sp + '.npy'), np.concatenate(model).tolist())
                if other_rel and open(other_rel + '.npy', 'rb').read() != other0:
                    return 'the unrelated file %s.npy was modified through the unpickled store of %s' % (other_rel, sp)
            finally:
                cp.close()
                st.close()
            return None
        return dict(scenario='namesake', store=store_rel, other=other_rel, absolute=absolute, via=via), run

    layouts = [('sub/d', 'd'), ('a/b/S1', 'S1'), ('sub/d', None), ('d', 'sub/d'), ('x/d', 'y/d'), ('sub/d', 'sub2/sub/d')]
    for store_rel, other_rel in layouts:
        for absolute in (False, True):
            for via in (('pickle',) if tier == 'quick' and absolute else ('pickle', 'deepcopy')):
                out.append(namesake(store_rel, other_rel, absolute, via))

    def moved(with_namesake_elsewhere):
        def run():
            os.makedirs('old')
            st = S.NpyStore('old/m', BS)
            model = [_b(100), _b(200)]
            st[0], st[1] = model
            data = pickle.dumps(st)
            st.close()
            os.rename('old', 'new')
            if with_namesake_elsewhere:
                os.makedirs('old2')
                S.NpyArray('old2/m', _b(-1)).close()
            cwd = os.getcwd()
            os.chdir('new')            # as OutputPool.open does: unpickle inside the (moved) folder
            try:
                cp = pickle.loads(data)
                try:
                    w = _same(cp, model)
                finally:
                    cp.close()
            finally:
                os.chdir(cwd)
            return 'store unpickled inside its moved folder: %s' % w if w else None
        return dict(scenario='moved-folder', namesake_elsewhere=with_namesake_elsewhere), run
    out += [moved(False), moved(True)]

    def missing():
        os.makedirs('gone')
        st = S.NpyStore('gone/z', BS)
        st[0] = _b(5)
        data = pickle.dumps(st)
        st.close()
        shutil.rmtree('gone')
        S.NpyArray('zz', _b(7)).close()
        before = sorted(os.listdir('.'))
        try:
            cp = pickle.loads(data)
        except FileNotFoundError:
            return None if sorted(os.listdir('.')) == before else 'a failed unpickle changed the directory: %s -> %s' % (before, sorted(os.listdir('.')))
        n = len(cp)
        cp.close()
        return 'unpickling a store whose file is gone did not raise FileNotFoundError (store reports %d batches; files now %s)' % (n, sorted(os.listdir('.')))
    out.append((dict(scenario='missing-file'), missing))

    def pool(via_open, repickle=False):
        def run():
            class Ctx:
                batch_size = BS
                seed = 123
            S.NpyArray('theta', np.concatenate([_b(-500), _b(-400)])).close()
            other0 = open('theta.npy', 'rb').read()
            p = S.ArrayPool(['theta', 'mu'], name='run', prefix='pools')
            p.set_context(Ctx)
            model = []
            for k in range(3):
                model.append(_b(100 * (k + 1)))
                p.add_batch({'theta': model[-1], 'mu': _b(7 * k)}, k)
            if via_open:
                p.save()
                p.close()
                q = S.ArrayPool.open('run', prefix='pools')
                st = q.get_store('theta')
                if repickle:
                    st = pickle.loads(pickle.dumps(st))
            else:
                q = None
                st = pickle.loads(pickle.dumps(p.get_store('theta')))
            try:
                w = _same(st, model)
                if w:
                    return 'store of node theta of pool pools/run %s, with an unrelated ./theta.npy: %s' % ('after save/close/open' if via_open else 'unpickled', w)
                model.append(_b(2000))
                st[3] = model[-1]
                st.flush()
                if _rows(os.path.join('pools', 'run', 'theta.npy')) != np.concatenate(model).tolist():
                    return 'pool file pools/run/theta.npy holds %s, the store holds %s' % (_rows(os.path.join('pools', 'run', 'theta.npy')), np.concatenate(model).tolist())
                if open('theta.npy', 'rb').read() != other0:
                    return 'the unrelated ./theta.npy was modified through the pool store'
            finally:
                st.close()
                (q or p).close()
            return None
        return dict(scenario='arraypool', via=('save/close/open, then pickle of the node store' if repickle else 'save/close/open') if via_open else 'pickle of the node store'), run
    out += [pool(False), pool(True)]
    # ArrayPool.open unpickles the node stores inside the pool folder; with a relative prefix the unfixed tree bound them to the bare base name
    # (relative to a directory that is no longer current): pickling such a store again from the restored working directory bound the copy to a
    # namesake file there or raised FileNotFoundError (genuine defect found in round 2, repaired in /repo: see KNOWN_FINDINGS.jsonl)
    out.append(pool(True, True))

    def names(stem, first, second, mode):
        def run():
            a0 = np.concatenate([_b(10), _b(20)])
            target = stem + '.npy'
            decoys = sorted(x for x in ('keep', 'keepnpy', 'keep.npy.npy') if x != target)
            for x in decoys:                       # files with the suffix-less / doubly suffixed name must never be touched
                open(x, 'wb').write(b'not an array')
            x = S.NpyArray(first, a0)
            x.close()
            if sorted(os.listdir('.')) != sorted(decoys + [target]):
                return 'NpyArray(%r, array) left the files %s' % (first, sorted(os.listdir('.')))
            if mode == 'reopen':
                y = S.NpyArray(second)
                try:
                    if not y.initialized or len(y) != len(a0) or not np.array_equal(np.array(y[0:len(y)]), a0):
                        return 'NpyArray(%r) over the file written as %r reports %s rows, the file holds %s' % (second, first, len(y), len(a0))
                    y.append(_b(30))
                    y.flush()
                    if _rows(target) != np.concatenate([a0, _b(30)]).tolist():
                        return 'after reopen + append + flush the file holds %s' % (_rows(target),)
                finally:
                    y.close()
            elif mode == 'truncate':
                y = S.NpyArray(second, truncate=True)
                try:
                    if len(y) != 0 or y.initialized or os.path.getsize(target) != 0:
                        return 'NpyArray(%r, truncate=True) over an existing file: len %d, file size %d' % (second, len(y), os.path.getsize(target))
                    y.append(_b(40))
                    y.flush()
                    if _rows(target) != _b(40).tolist():
                        return 'after truncate=True + append + flush the file holds %s' % (_rows(target),)
                finally:
                    y.close()
            else:
                y = S.NpyArray(second, _b(50))
                try:
                    if len(y) != BS or not np.array_equal(np.array(y[0:BS]), _b(50)) or _rows(target) != _b(50).tolist():
                        return 'NpyArray(%r, array) over an existing file reports %d rows; file holds %s' % (second, len(y), _rows(target))
                finally:
                    y.close()
            if sorted(os.listdir('.')) != sorted(decoys + [target]) or any(open(x, 'rb').read() != b'not an array' for x in decoys):
                return 'a file other than %s was written: %s' % (target, sorted(os.listdir('.')))
            return None
        return dict(scenario='file-name', first=first, second=second, mode=mode), run
    for stem in ('keep', 'keepnpy'):
        for first, second in ((stem, stem), (stem, stem + '.npy'), (stem + '.npy', stem), (stem + '.npy', stem + '.npy')):
            for mode in ('reopen', 'truncate', 'array'):
                out.append(names(stem, first, second, mode))

    def delete(how):
        def run():
            os.makedirs('d')
            S.NpyArray('x', _b(1)).close()
            S.NpyArray('d/other', _b(2)).close()
            a = S.NpyArray('d/x', _b(3))
            if how == 'pending':
                a.append(_b(4))
            elif how == 'closed':
                a.close()
            a.delete()
            left = sorted(os.listdir('.')) + sorted(os.listdir('d'))
            if left != ['d', 'x.npy', 'other.npy']:
                return 'after delete (%s) of d/x.npy the files are %s' % (how, left)
            if not a.deleted or not a.closed or a.initialized:
                return 'after delete: deleted=%r closed=%r initialized=%r' % (a.deleted, a.closed, a.initialized)
            a.delete()
            if sorted(os.listdir('.')) + sorted(os.listdir('d')) != left or _rows('x.npy') != _b(1).tolist():
                return 'a second delete changed the directory'
            return None
        return dict(scenario='delete', how=how), run
    out += [delete(h) for h in ('open', 'pending', 'closed')]
    return out


def run_fs(S, inp, fn):
    """one scenario in a fresh working directory -> failure dict or None"""
    d = os.path.join(_tmpdir(), 'fs')
    shutil.rmtree(d, ignore_errors=True)
    os.makedirs(d)
    cwd = os.getcwd()
    import sys
    hook = sys.unraisablehook
    sys.unraisablehook = lambda *a: None        # a half-unpickled store's __del__ complains on stderr
    try:
        os.chdir(d)
        with native.time_limit(20):
            w = fn()
    except native.NativeTimeout as e:
        return dict(signature='c06:fs-timeout', what=str(e), input=inp)
    except Exception as e:
        return dict(signature='c06:fs-%s-exception' % inp['scenario'], what='%s: %s' % (type(e).__name__, str(e)[:160]), input=inp)
    finally:
        os.chdir(cwd)
        import gc
        gc.collect()
        sys.unraisablehook = hook
        shutil.rmtree(d, ignore_errors=True)
    return dict(signature='c06:fs-%s' % inp['scenario'], what=w, input=inp) if w else None


def search_fs(cname):
    S = store_module()
    pref = {'__setstate__': ('namesake', 'arraypool', 'moved-folder', 'missing-file'), '__init__': ('file-name', 'namesake'), 'delete': ('delete',)}
    meth = cname.split('[')[0].split('.')[-1]
    order = pref.get(meth, ())
    sc = sorted(fs_scenarios(S, 'thorough'), key=lambda x: order.index(x[0]['scenario']) if x[0]['scenario'] in order else 9)
    try:
        for inp, fn in sc:
            f = run_fs(S, inp, fn)
            if f:
                return dict(found=True, input=f['input'], observed=f['what'])
    finally:
        shutil.rmtree(_tmpdir(), ignore_errors=True)
    return dict(found=False, searched='%d file-name scenarios (namesake files, moved folder, missing file, ArrayPool node stores, names with/without .npy, delete)' % len(sc), cases=len(sc))


def search(cname, crash):
    """replay search for a refuted obligation of contract `cname`: first failing native input"""
    S = store_module()
    tail = {'truncate': ('del_last', 'clear'), 'clear': ('clear',), '__delitem__': ('del_last',), 'append': ('append',),
            '__setitem__': ('overwrite', 'overwrite_last', 'append'), '__getitem__': ('overwrite', 'append'), 'memmap': ('overwrite', 'append'), 'flush': ('flush', 'pickle'), 'close': ('reopen',), '_write_header_data': ('flush', 'reopen', 'del_last'),
            '_prepare_header_data': ('append', 'del_last'), '__getstate__': ('pickle',), '_init_from_file_header': ('reopen', 'pickle'),
            'init_from_array': ('append',)}
    meth = cname.split('[')[0].split('.')[-1]
    last = tail.get(meth, ())
    seqs = sorted(sequences(4), key=lambda q: (last.index(q[-1]) if q[-1] in last else 9, len(q)))
    n = 0
    store_level = ('NpyStore.' in cname or 'ArrayStore.' in cname) and not crash

    def preloaded():
        nonlocal n
        for cfg in (CONFIGS[1], CONFIGS[0]):
            for pl in PRELOADS:
                for seq in sorted(sequences(3), key=lambda q: (last.index(q[-1]) if q[-1] in last else 9, len(q))):
                    f, _ = run_sequence(S, cfg, seq, preload=pl)
                    n += 1
                    if f:
                        return dict(found=True, input=f['input'], observed=f['what'])
        return None
    def layouts():
        nonlocal n
        for layout in LAYOUTS:
            for cfg in LCONFIGS[:2]:
                for seq in sorted(sequences(2, LOPS), key=lambda q: (last.index(q[-1]) if q[-1] in last else 9, len(q))):
                    f, _ = run_sequence(S, cfg, ('append',) + seq, layout=layout)
                    n += 1
                    if f:
                        return dict(found=True, input=f['input'], observed=f['what'])
        return None
    try:
        if not crash:
            r = layouts()
            if r:
                return r
        if store_level:
            r = preloaded()
            if r:
                return r
        for cfg in (CONFIGS[1], CONFIGS[0]):
            for seq in seqs:
                want_kill = crash and any(o in FLUSHLIKE for o in seq[:-1])
                if crash and not want_kill:
                    continue
                f, info = run_sequence(S, cfg, seq, count_last=want_kill)
                n += 1
                if f:
                    return dict(found=True, input=f['input'], observed=f['what'])
                if want_kill and info and info['hist'] is not None:
                    for k, when in kill_points(info, True):
                        kf = kill_run(S, cfg, seq, k, when, info['hist'])
                        n += 1
                        if kf:
                            return dict(found=True, input=kf['input'], observed=kf['what'])
        if not crash and not store_level:
            r = preloaded()
            if r:
                return r
    finally:
        shutil.rmtree(_tmpdir(), ignore_errors=True)
    return dict(found=False, searched='sequences <= %d%s; preloaded files <= 3; batch layouts %s <= 3' % (4, ' x kill at every file call of the last op' if crash else '', '/'.join(LAYOUTS)), cases=n)


def replay_input(inp):
    """True iff the property HOLDS on this input"""
    S = store_module()
    if inp.get('scenario'):
        try:
            for i2, fn in fs_scenarios(S, 'thorough', extra=True):
                if i2 == inp:
                    f = run_fs(S, i2, fn)
                    if f:
                        print('observed: %s' % f['what'])
                    return f is None
            raise ValueError('unknown scenario %r' % (inp,))
        finally:
            shutil.rmtree(_tmpdir(), ignore_errors=True)
    cfg = (inp['dtype'], tuple(inp['row_shape']))
    seq = tuple(inp['seq'])
    pl = tuple(inp['preload']) if inp.get('preload') else None
    try:
        f, info = run_sequence(S, cfg, seq, count_last=bool(inp.get('kill')), preload=pl, layout=inp.get('layout', 'C'))
        if f:
            print('observed: %s' % f['what'])
            return False
        if inp.get('kill'):
            if info['hist'] is None:
                return True
            kf = kill_run(S, cfg, seq, inp['kill'][0], inp['kill'][1], info['hist'])
            if kf:
                print('observed: %s' % kf['what'])
                return False
        return True
    finally:
        shutil.rmtree(_tmpdir(), ignore_errors=True)


# ------------------------------------------------------------------------------------------------ assumed-contract sanity tests
def sanity():
    import numpy.lib.format as nf
    out = []

    def hlen(shape, descr):
        b = io.BytesIO()
        nf.write_array_header_2_0(b, {'shape': shape, 'fortran_order': False, 'descr': descr})
        return b.tell(), b.getvalue()
    ok_len = ok_rt = True
    rows = [0, 1, 9, 10, 99, 12345, 10 ** 9, 2 ** 31, 2 ** 63, 2 ** 64 - 1, 2 ** 64]
    for tail in ((), (2,), (3, 2)):
        for dt in ('<f8', '<i4', '|b1', '<U3'):
            top, image = hlen((2 ** 64,) + tail, dt)
            prev = 0
            for r in rows:
                n, text = hlen((r,) + tail, dt)
                ok_len &= (n > 12) and (n >= prev) and (n <= top)
                prev = n
                # the image NpyArray writes: prefix of the 2**64 header + text of the real header + space padding
                img = image[:12] + text[12:] + b'\x20' * (top - n)
                f = io.BytesIO(img)
                f.seek(8)
                sh, fo, d = nf.read_array_header_2_0(f)
                ok_rt &= (sh == (r,) + tail) and (fo is False) and (d == np.dtype(dt)) and f.tell() == top and len(img) == top
    out.append(('numpy header length > 12, non-decreasing in rows, <= length for 2**64 rows', bool(ok_len)))
    out.append(('numpy header round trip through prefix + text + space padding, cursor ends at the fixed length', bool(ok_rt)))
    # os.path.abspath (assumed facts of contracts/c06.py::abs_facts)
    dd = _tmpdir()
    here = os.getcwd()
    try:
        os.chdir(dd)
        open('t.npy', 'wb').write(b'x')
        ok_abs = True
        for q in ('t.npy', 'missing.npy', os.path.join('sub', 't.npy'), 't'):
            a_ = os.path.abspath(q)
            ok_abs &= os.path.exists(a_) == os.path.exists(q) and a_.endswith('.npy') == q.endswith('.npy') and os.path.basename(a_) == os.path.basename(q) \
                and os.path.abspath(a_) == a_ and (not os.path.exists(q) or os.path.samefile(a_, q))
        out.append(('os.path.abspath(p) names the file p names, exists / ends with .npy / has the base name as p does, idempotent', bool(ok_abs)))
    finally:
        os.chdir(here)
        shutil.rmtree(dd, ignore_errors=True)
    d = _tmpdir()
    try:
        p = os.path.join(d, 's.npy')
        a = np.arange(8, dtype='i4').reshape(4, 2)
        np.save(p, a)
        with open(p, 'r+b') as f:
            f.seek(0, 2)
            f.write(a[:1].tobytes('C'))
        out.append(('numpy.load ignores bytes after the rows the header announces', bool(np.array_equal(np.load(p), a))))
        with open(p, 'r+b') as f:
            f.seek(-12, 2)
            f.truncate()
            end = f.tell()
        raised = False
        try:
            np.load(p)
        except Exception:
            raised = True
        out.append(('numpy.load fails when fewer rows are present than the header announces', raised))
        out.append(('truncate() cuts the file at the cursor', os.path.getsize(p) == end))
        with open(p, 'w+b') as f:
            f.write(b'abcdef')
            f.seek(2)
            f.write(b'XY')
            f.flush()
            f.seek(0)
            got = f.read()
        out.append(('write at an offset replaces exactly those bytes', got == b'abXYef'))
    finally:
        shutil.rmtree(d, ignore_errors=True)
    d = _tmpdir()
    try:
        p = os.path.join(d, 'b.npy')
        with open(p, 'w+b') as f:
            f.write(b'x' * 16)
            buffered = os.path.getsize(p) == 0
            f.seek(0)
            pushed = os.path.getsize(p) == 16
            f.write(b'y' * 8)
            mm = np.memmap(f, dtype='u1', shape=(16,), offset=0)
            pushed2 = open(p, 'rb').read()[:8] == b'y' * 8
            mm[8:10] = 122
            direct = open(p, 'rb').read()[8:10] == b'zz'
            del mm
        out.append(('file object: written bytes stay in its buffer until the next seek', bool(buffered and pushed)))
        out.append(('np.memmap(fileobj) pushes the file object buffer out; a store through it is in the file at once', bool(pushed2 and direct)))
    finally:
        shutil.rmtree(d, ignore_errors=True)
    out.append(('np.prod((r,)+tail) = r*prod(tail); tobytes("C") has rows*prod(tail)*itemsize bytes, rows in order',
                int(np.prod((5, 3, 2))) == 5 * int(np.prod((3, 2))) and len(a.tobytes('C')) == 4 * 2 * 4 and a.tobytes('C')[8:16] == a[1].tobytes('C')))
    out.append(('bytes * n has n bytes', len(b'\x20' * 7) == 7))
    # memory layout: tobytes('C') is the logical row-major image whatever the layout; 'F' the column-major one; 'A' = 'F' exactly for
    # Fortran-contiguous, not C-contiguous arrays; the two images coincide when the array is empty or a row has one item
    ok_c = ok_a = ok_one = ok_mm = True
    for shape in ((2, 2), (3, 2), (2, 2, 3), (1, 2, 3), (4,), (3, 1), (3, 1, 1), (0, 2)):
        x = (np.arange(int(np.prod(shape))) + 5).reshape(shape).astype('i4')
        ref = x.tobytes('C')
        for lay in ('F', 'T', 'S', 'L'):
            y = lay_out(x, lay, True)
            ok_c &= np.array_equal(y, x) and y.tobytes('C') == ref and y.tobytes() == ref
            fnc = y.flags.f_contiguous and not y.flags.c_contiguous
            ok_a &= y.tobytes('A') == (y.tobytes('F') if fnc else ref)
            ok_a &= (lay in ('S', 'L') or x.size == 0 or sum(1 for d in shape if d > 1) <= 1) == (not fnc)
            if x.size == 0 or int(np.prod(shape[1:])) <= 1:
                ok_one &= y.tobytes('F') == ref
        if len(shape) == 2 and shape[0] >= 2 and shape[1] >= 2:
            ok_one &= np.asfortranarray(x).tobytes('F') != ref
    out.append(("ndarray.tobytes('C') / tobytes() = logical row-major bytes for Fortran-ordered, transposed and strided arrays", bool(ok_c)))
    out.append(("ndarray.tobytes('A') = tobytes('F') iff Fortran-contiguous and not C-contiguous, else tobytes('C')", bool(ok_a)))
    out.append(('column-major image = row-major image when the array is empty or a row has one item; differs for a 2x2 array', bool(ok_one)))
    d = _tmpdir()
    try:
        p = os.path.join(d, 'm.npy')
        with open(p, 'w+b') as f:
            f.write(b'\0' * 64)
            f.flush()
            mm = np.memmap(f, dtype='<i4', shape=(4, 2, 2), offset=0)
            x = (np.arange(8) + 1).reshape(2, 2, 2).astype('<i4')
            for j, lay in enumerate(('F', 'T', 'S', 'L', 'E')):
                mm[1:3] = lay_out(x + j, lay, False)
                ok_mm &= open(p, 'rb').read()[16:48] == (x + j).tobytes('C')
            del mm
        out.append(('memmap[a:b] = value stores the LOGICAL rows of value (Fortran-ordered, transposed, strided, byte-swapped value)', bool(ok_mm)))
    finally:
        shutil.rmtree(d, ignore_errors=True)
    return out
