"""Bounded stand-in / replay vehicle for C07: end-to-end SMC-ABC on the REAL code, every population
re-checked against the property text with independently written formulas.
Bound: 1-D and 2-D models with a bounded (uniform), an unbounded (normal) and a hierarchical prior,
2-3 rounds, threshold lists and quantile lists, continued sampling once, small populations."""
import numpy as np
import scipy.stats as ss

from pyvc import native


def model(elfi, kind):
    m = elfi.ElfiModel()
    if kind == 'uniform1':
        t1 = elfi.Prior('uniform', -2, 4, model=m, name='t1')
        params = ['t1']
    elif kind == 'normal2':
        t1 = elfi.Prior('normal', 0, 1.5, model=m, name='t1')
        t2 = elfi.Prior('normal', 1, 1.0, model=m, name='t2')
        params = ['t1', 't2']
    elif kind == 'tiny1':     # a parameter on a small numerical scale (population variance far below 1e-6)
        t1 = elfi.Prior('uniform', 0, 1e-3, model=m, name='t1')
        params = ['t1']
    else:       # hierarchical, bounded second level
        t1 = elfi.Prior('uniform', 0, 2, model=m, name='t1')
        t2 = elfi.Prior('uniform', 0, t1, model=m, name='t2')
        params = ['t1', 't2']

    scale = 1e3 if kind == 'tiny1' else 1.0

    def sim(*th, batch_size=1, random_state=None):
        mu = sum(th) * scale
        return mu + 0.5 * random_state.randn(batch_size)
    y = elfi.Simulator(sim, *[m[p] for p in params], model=m, name='y', observed=np.array([0.7]))
    s = elfi.Summary(lambda y: y, y, model=m, name='s')
    d = elfi.Distance('euclidean', s, model=m, name='d')
    return m, params


def prior_pdf(kind, th):
    th = np.atleast_2d(th)
    if kind == 'uniform1':
        return ss.uniform(-2, 4).pdf(th[:, 0])
    if kind == 'tiny1':
        return ss.uniform(0, 1e-3).pdf(th[:, 0])
    if kind == 'normal2':
        return ss.norm(0, 1.5).pdf(th[:, 0]) * ss.norm(1, 1.0).pdf(th[:, 1])
    with np.errstate(all='ignore'):
        second = np.where(th[:, 0] > 0, ss.uniform(0, np.where(th[:, 0] > 0, th[:, 0], 1.0)).pdf(th[:, 1]), 0.0)
    return ss.uniform(0, 2).pdf(th[:, 0]) * second


def wquantile(x, alpha, w):
    """definition (C13): an element q with weight{x <= q} >= alpha and weight{x < q} <= alpha.  When alpha sits exactly on a
    cumulative boundary two elements qualify (and float rounding decides which one the code takes), so the LARGEST valid
    element is the bound that every particle must respect."""
    w = np.asarray(w, float) / np.sum(w)
    best = None
    for q in np.sort(np.unique(x)):
        if w[x <= q].sum() >= alpha - 1e-9 and w[x < q].sum() <= alpha + 1e-9:
            best = q
    return np.max(x) if best is None else best


def check_populations(kind, params, pops, n, thresholds, quantiles, n_sim_total):
    prev = None
    tot = 0
    for r, pop in enumerate(pops):
        th = np.column_stack([pop.outputs[p] for p in params])
        d = np.asarray(pop.discrepancies, float).ravel()
        w = np.asarray(pop.weights, float)
        tot += pop.n_sim
        if len(d) != n or th.shape[0] != n:
            return 'round %d: %d particles instead of %d' % (r, len(d), n)
        thr = float(pop.threshold)
        if thresholds is not None and thresholds[r] is not None:
            if np.any(d > thresholds[r] + 1e-12):
                return 'round %d: a particle has discrepancy above the user threshold %r' % (r, thresholds[r])
        if quantiles is not None and r >= 1 and quantiles[r] is not None:
            want = wquantile(np.asarray(prev.discrepancies, float).ravel(), quantiles[r], prev.weights)
            if np.any(d > want + 1e-9):
                return 'round %d: a particle exceeds the weighted %.2f-quantile %r of the previous population' % (r, quantiles[r], float(want))
        if np.any(d > thr + 1e-12):
            return 'round %d: a particle exceeds the reported threshold' % r
        pp = prior_pdf(kind, th)
        if np.any(~(pp > 0)):
            return 'round %d: a particle has zero prior density' % r
        if prev is None:
            if not np.allclose(w, 1.0):
                return 'first-population weights are not 1'
        else:
            pm = np.atleast_2d(np.asarray(prev.means, float).reshape(n, -1))
            pw = np.asarray(prev.weights, float)
            pw = pw / pw.sum()
            cov = np.asarray(prev.cov, float)
            q = np.zeros(n)
            for k in range(n):
                q += pw[k] * ss.multivariate_normal.pdf(th, mean=pm[k], cov=cov)
            want = pp / q
            if not np.allclose(w, want, rtol=1e-6, atol=1e-300):
                return 'round %d: weights differ from prior density / mixture density of the previous population (max rel err %.3g)' % (r, float(np.max(np.abs(w - want) / np.maximum(want, 1e-300))))
        # cov = 2 * diag(reliability-weighted variance)
        V1, V2 = w.sum(), (w ** 2).sum()
        xbar = (w[:, None] * th).sum(0) / V1
        var = (w[:, None] * (th - xbar) ** 2).sum(0) / (V1 - V2 / V1)
        if np.all(np.isfinite(var)) and not np.allclose(np.asarray(pop.cov, float), 2 * np.diag(var), rtol=1e-8):
            return 'round %d: cov is not twice the weighted sample variance' % r
        prev = pop
    if n_sim_total != tot:
        return 'reported n_sim %d != sum over populations %d' % (n_sim_total, tot)
    return None


def run_case(elfi, kind, n, b, mode, seed, continued=False):
    m, params = model(elfi, kind)
    smc = elfi.SMC(m['d'], batch_size=b, seed=seed)
    thresholds = quantiles = None
    with native.time_limit(120):
        if mode == 'thresholds':
            thresholds = [1.0, 0.6, 0.4]
            res = smc.sample(n, thresholds=thresholds, bar=False)
        else:
            quantiles = [0.5, 0.5, 0.6]
            res = smc.sample(n, quantiles=quantiles, bar=False)
        pops = list(res.populations)
        if continued:
            if mode == 'thresholds':
                more = [0.35, 0.3]
                res = smc.sample(n, thresholds=more, bar=False)
                thresholds = thresholds + more
            else:
                more = [0.6, 0.7]
                res = smc.sample(n, quantiles=more, bar=False)
                quantiles = quantiles + more
            pops = list(res.populations)
    if len(pops) != (5 if continued else 3):
        return '%d populations returned' % len(pops)
    return check_populations(kind, params, pops, n, thresholds, quantiles, res.n_sim)


def run(tier='quick', seed=0):
    elfi = native.import_elfi()
    cases = nontriv = 0
    fails = []
    grid = [('tiny1', 15, 40, 'quantiles', False), ('uniform1', 20, 50, 'thresholds', False), ('normal2', 20, 40, 'quantiles', False), ('hier2', 15, 40, 'quantiles', False), ('uniform1', 15, 30, 'quantiles', True)]
    if tier != 'quick':
        grid += [('normal2', 30, 50, 'thresholds', True), ('hier2', 20, 30, 'thresholds', False), ('uniform1', 10, 7, 'quantiles', False), ('normal2', 12, 25, 'quantiles', True)]
    for kind, n, b, mode, cont in grid:
        for sd in range(seed, seed + (1 if tier == 'quick' else 3)):
            cases += 1
            nontriv += 1
            try:
                f = run_case(elfi, kind, n, b, mode, sd, cont)
            except native.NativeTimeout as e:
                f = str(e)
            except Exception as e:
                f = '%s: %s' % (type(e).__name__, str(e)[:200])
            if f:
                fails.append(dict(signature='c07:' + f.split(':')[0][:40], what=f, input=dict(kind=kind, n=n, b=b, mode=mode, seed=sd, continued=cont)))
                return [_res(tier, cases, nontriv, fails)]
    return [_res(tier, cases, nontriv, fails)]


def _res(tier, cases, nontriv, fails):
    return dict(name='smc-populations-end-to-end', bound='3 prior kinds (bounded 1-D, unbounded 2-D, hierarchical 2-D), 3 rounds (+2 continued), threshold and quantile lists, %s' % ('1 seed' if tier == 'quick' else '3 seeds'),
                rule='every case is a multi-round SMC run; all populations re-checked', cases=cases, nontrivial=nontriv, failures=fails)


def replay_input(inp):
    elfi = native.import_elfi()
    try:
        f = run_case(elfi, inp['kind'], inp['n'], inp['b'], inp['mode'], inp['seed'], inp.get('continued', False))
    except Exception as e:
        f = '%s: %s' % (type(e).__name__, e)
    if f:
        print('replay observed:', f)
    return f is None
