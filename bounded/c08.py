"""Bounded stand-in / replay vehicle for C08: the REAL elfi.model.extensions.ModelPrior against direct scipy.stats products.

Bound: the hierarchical models of ZOO (<= 4 parameters, constant and parameter-valued distribution arguments); every non-empty
parent-closed parameter subset in every order (quick tier: every order up to 3 names, 6 orders per 4-subset); a grid of evaluation
points per model that has rows inside, on the boundary of and outside the support; matrix / vector / scalar inputs;
rvs with 3 seeds; gradient_logpdf against the analytic derivative on the all-normal models.
A subset that is NOT closed under "is a parameter-valued argument of" gives the statement no meaning (the density of b ~ N(a, 1)
"at the point" needs a value for a): such requests are skipped and counted in `skipped`.

Oracle (independent of the code): prod over the requested names n of scipy.stats.<dist_n>.pdf(x_n, *args_n) with every
parameter-valued argument replaced by that parameter's coordinate of the same row."""
import itertools
import math

import numpy as np

from pyvc import native

# name -> list of (parameter, scipy distribution, args); a str argument is the name of an earlier parameter
ZOO = {
    'single-expon': [('t', 'expon', (0, 1))],
    'single-norm': [('t', 'norm', (1, 2))],
    'indep2-norm': [('a', 'norm', (0, 1)), ('b', 'norm', (0, 1))],
    'hier2': [('a', 'uniform', (0, 2)), ('b', 'norm', ('a', 1))],
    'hier3': [('a', 'uniform', (0, 2)), ('b', 'norm', ('a', 1)), ('c', 'expon', ('a', 2))],
    'chain3-uniform': [('z', 'uniform', (-1, 2)), ('y', 'uniform', ('z', 1)), ('w', 'uniform', ('y', 1))],
    'smooth3-norm': [('m', 'norm', (0, 2)), ('x', 'norm', ('m', 1)), ('y', 'norm', ('x', 3))],
    'hier4': [('m', 'norm', (1, 2)), ('s', 'gamma', (2, 0, 1)), ('x', 'norm', ('m', 's')), ('u', 'beta', (2, 3))],
    'order4': [('d', 'uniform', (0, 1)), ('c', 'uniform', ('d', 1)), ('b', 'norm', ('c', 2)), ('a', 'expon', (0, 'c'))],
}
# candidate coordinates per parameter (inside / boundary / outside the support of some row)
GRID = {
    'single-expon': {'t': [-1.0, 0.0, 0.5, 3.0]},
    'single-norm': {'t': [-3.0, 0.0, 1.0, 2.5]},
    'indep2-norm': {'a': [-1.5, 0.0, 0.7], 'b': [-0.3, 0.0, 2.0]},
    'hier2': {'a': [-0.5, 0.0, 0.5, 2.0, 2.5], 'b': [-1.0, 0.2, 3.0]},
    'hier3': {'a': [-0.5, 0.0, 0.5, 2.0, 2.5], 'b': [-1.0, 0.2], 'c': [0.0, 0.5, 1.0, 3.0]},
    'chain3-uniform': {'z': [-1.5, -1.0, 0.0, 1.0, 1.5], 'y': [-1.0, 0.5, 1.0, 2.0], 'w': [0.0, 0.5, 1.5, 2.0, 3.5]},
    'smooth3-norm': {'m': [-1.0, 0.3], 'x': [-0.5, 1.2], 'y': [0.0, 4.0]},
    'hier4': {'m': [-1.0, 1.0], 's': [0.5, 2.0], 'x': [-2.0, 0.4], 'u': [-0.1, 0.0, 0.3, 1.0, 1.2]},
    'order4': {'d': [0.0, 0.25, 1.0, 1.5], 'c': [0.1, 0.25, 1.2, 2.5], 'b': [-1.0, 0.3], 'a': [-0.5, 0.0, 1.0]},
}
TIMEOUTS = []
SMOOTH = ('single-norm', 'indep2-norm', 'smooth3-norm')     # all-normal, constant scales: analytic gradient below


def build(elfi, zoo_name):
    m = elfi.ElfiModel()
    nodes = {}
    for name, dist, args in ZOO[zoo_name]:
        nodes[name] = elfi.Prior(dist, *[nodes[a] if isinstance(a, str) else a for a in args], model=m, name=name)
    return m


def spec_of(zoo_name):
    return {n: (d, a) for n, d, a in ZOO[zoo_name]}


def closed(zoo_name, names):
    sp = spec_of(zoo_name)
    return all(a in names for n in names for a in sp[n][1] if isinstance(a, str))


def oracle_factors(zoo_name, names, X):
    """X: (N, len(names)) -> (N, len(names)) conditional densities, computed with scipy.stats directly"""
    import scipy.stats as ss
    sp = spec_of(zoo_name)
    col = {n: X[:, i] for i, n in enumerate(names)}
    out = np.empty(X.shape, dtype=float)
    with np.errstate(all='ignore'):
        for i, n in enumerate(names):
            d, args = sp[n]
            out[:, i] = getattr(ss, d).pdf(col[n], *[col[a] if isinstance(a, str) else a for a in args])
    return out


def analytic_grad(zoo_name, names, X):
    """d/dx log prod for the all-normal models with constant scales"""
    sp = spec_of(zoo_name)
    idx = {n: i for i, n in enumerate(names)}
    G = np.zeros(X.shape)
    for n in names:
        d, (mu, sd) = sp[n]
        muv = X[:, idx[mu]] if isinstance(mu, str) else mu
        r = (X[:, idx[n]] - muv) / sd ** 2
        G[:, idx[n]] -= r
        if isinstance(mu, str):
            G[:, idx[mu]] += r
    return G


def grid_points(zoo_name, names):
    g = GRID[zoo_name]
    return np.array(list(itertools.product(*[g[n] for n in names])), dtype=float)


def _same(got, want):
    got, want = np.asarray(got, dtype=float), np.asarray(want, dtype=float)
    if got.shape != want.shape:
        return False
    fin = np.isfinite(want)
    if not np.array_equal(fin, np.isfinite(got)):
        return False
    if not np.array_equal(got[~fin], want[~fin], equal_nan=True):
        return False
    return bool(np.allclose(got[fin], want[fin], rtol=1e-9, atol=1e-300))


def check_case(elfi, zoo_name, names, X=None, seeds=(0,), draws=True, grad=True, model=None):
    """-> (failure dict or None, nontrivial flag).  names: requested parameter_names (list, in request order)"""
    from elfi.model.extensions import ModelPrior
    names = list(names)
    k = len(names)
    inp = dict(model=zoo_name, parameter_names=names)
    m = model if model is not None else build(elfi, zoo_name)
    all_names = sorted(n for n, _, _ in ZOO[zoo_name])
    strict = set(names) != set(all_names)
    tag = 'F11-strict-subset-request' if strict else None

    def fail(sig, what, **extra):
        t = None if sig.startswith('N1') else tag
        d = dict(signature='c08:' + (t or sig), what=('[%s] ' % sig if t else '') + what, input=dict(inp, **extra))
        return d, False
    try:
        with native.time_limit(120):
            mp = ModelPrior(m, list(names)) if names != all_names or X is not None else ModelPrior(m)
            if mp.parameter_names != names or mp.dim != k:
                return fail('names', 'parameter_names/dim of the prior are %r/%r' % (mp.parameter_names, mp.dim))
            X = grid_points(zoo_name, names) if X is None else np.asarray(X, dtype=float).reshape(-1, k)
            inp['x'] = X.tolist()
            F = oracle_factors(zoo_name, names, X)
            want = np.prod(F, axis=1)
            zero = (F == 0).any(axis=1)
            with np.errstate(all='ignore'):
                wantlog = np.where(zero, -np.inf, np.log(F).sum(axis=1))
            nontriv = bool(zero.any() and (~zero).any() and k > 1)
            # matrix input
            p, lp = mp.pdf(X), mp.logpdf(X)
            if np.shape(p) != (len(X),) or np.shape(lp) != (len(X),):
                return fail('shape', 'matrix input (%d, %d): pdf shape %r, logpdf shape %r' % (len(X), k, np.shape(p), np.shape(lp)))
            if not _same(p, want):
                r = int(np.argmax(~np.isclose(np.asarray(p, float), want, rtol=1e-9, atol=0, equal_nan=True)))
                return fail('value', 'pdf(%r) = %r, product of the conditional densities = %r' % (X[r].tolist(), float(p[r]), float(want[r])), row=r)
            if not _same(lp, wantlog):
                r = int(np.argmax(~np.isclose(np.asarray(lp, float), wantlog, rtol=1e-9, atol=0, equal_nan=True)))
                return fail('value', 'logpdf(%r) = %r, sum of the log conditional densities = %r' % (X[r].tolist(), float(lp[r]), float(wantlog[r])), row=r)
            if not np.array_equal(np.asarray(p) == 0, zero) or not np.array_equal(np.isneginf(lp), zero):
                return fail('zero-set', 'pdf is zero / logpdf is -inf on a different set of rows than "some conditional density is zero"')
            # vector / scalar inputs
            for r in sorted({0, len(X) // 2, len(X) - 1}):
                if k > 1:
                    pv, lv = mp.pdf(X[r]), mp.logpdf(X[r])
                    if np.shape(pv) != () or np.shape(lv) != ():
                        return fail('shape', 'vector input (one point, dim %d): pdf shape %r' % (k, np.shape(pv)), row=r)
                    pl = mp.pdf(X[r].tolist())
                else:
                    pv, lv = mp.pdf(X[r, 0]), mp.logpdf(float(X[r, 0]))
                    if np.shape(pv) != () or np.shape(lv) != ():
                        return fail('shape', 'scalar input: pdf shape %r' % (np.shape(pv),), row=r)
                    pl = mp.pdf(float(X[r, 0]))
                if not (_same(pv, want[r]) and _same(lv, wantlog[r]) and _same(pl, want[r])):
                    return fail('value', 'single point %r: pdf %r / logpdf %r, expected %r / %r' % (X[r].tolist(), float(pv), float(lv), float(want[r]), float(wantlog[r])), row=r)
            if k == 1:
                pv = mp.pdf(X[:, 0])
                if np.shape(pv) != (len(X),) or not _same(pv, want):
                    return fail('shape', 'vector input of %d points (dim 1): pdf shape %r' % (len(X), np.shape(pv)))
            # draws
            if draws:
                for sd in seeds:
                    rs = np.random.RandomState(sd)
                    d1, dn = mp.rvs(random_state=rs), mp.rvs(size=7, random_state=rs)
                    if np.shape(d1) != (() if k == 1 else (k,)) or np.shape(dn) != ((7,) if k == 1 else (7, k)):
                        return fail('shape', 'rvs shapes %r / %r for dim %d' % (np.shape(d1), np.shape(dn), k), seed=sd)
                    pd = np.concatenate([np.atleast_1d(mp.pdf(d1)), np.atleast_1d(mp.pdf(dn))])
                    ld = np.concatenate([np.atleast_1d(mp.logpdf(d1)), np.atleast_1d(mp.logpdf(dn))])
                    D = np.vstack([np.reshape(d1, (1, k)), np.reshape(dn, (7, k))])
                    if not ((pd > 0).all() and np.isfinite(ld).all()):
                        return fail('draw', 'a draw has density %r' % (float(pd.min()),), seed=sd, draws=D.tolist())
                    if not _same(pd, np.prod(oracle_factors(zoo_name, names, D), axis=1)):
                        return fail('value', 'pdf at a draw differs from the product of the conditional densities', seed=sd, draws=D.tolist())
            # gradient
            if grad:
                inside = X[~zero]
                if zoo_name in SMOOTH and len(inside):
                    P = inside[:6]
                    g = mp.gradient_logpdf(P)
                    ga = analytic_grad(zoo_name, names, P)
                    if np.shape(g) != P.shape:
                        return fail('shape', 'gradient_logpdf of a (%d, %d) input has shape %r' % (P.shape + (np.shape(g),)))
                    if not np.allclose(g, ga, rtol=1e-4, atol=1e-5):
                        return fail('gradient', 'gradient_logpdf(%r) = %r, derivative of the log density = %r' % (P[0].tolist(), np.asarray(g)[0].tolist(), ga[0].tolist()))
                    g1 = mp.gradient_logpdf(P[0] if k > 1 else P[0, 0])
                    if np.shape(g1) != (k,) or not np.allclose(g1, ga[0], rtol=1e-4, atol=1e-5):
                        return fail('shape', 'gradient_logpdf of one point has shape %r (dim %d)' % (np.shape(g1), k))
                if zoo_name in SMOOTH:
                    # the same kind of point given as python / numpy INTEGERS (a point with integer coordinates is an evaluation point)
                    Pi = np.array([[1, 2, 3][:k], [3, -1, 2][:k]], dtype=int)
                    gi = mp.gradient_logpdf(Pi)
                    gai = analytic_grad(zoo_name, names, Pi.astype(float))
                    g1 = mp.gradient_logpdf(Pi[0].tolist() if k > 1 else int(Pi[0, 0]))
                    if np.shape(gi) != Pi.shape or not np.allclose(np.asarray(gi, dtype=float), gai, rtol=1e-4, atol=1e-5) or \
                            not np.allclose(np.asarray(g1, dtype=float), gai[0], rtol=1e-4, atol=1e-5):
                        bad = [r for r in range(len(Pi)) if np.shape(gi) != Pi.shape or not np.allclose(np.asarray(gi, dtype=float)[r], gai[r], rtol=1e-4, atol=1e-5)]
                        r = bad[0] if bad else 0
                        d, nt_ = fail('N1-integer-typed-gradient-input', 'gradient_logpdf(%r) [integer-typed query] = %r, derivative of the log density = %r' % (
                            Pi[r].tolist(), np.asarray(gi)[r].tolist() if np.shape(gi) == Pi.shape else np.asarray(gi).tolist(), gai[r].tolist()), int_query=Pi.tolist())
                        return d, nt_
                outside = X[zero]
                if len(outside):
                    g0 = mp.gradient_logpdf(outside[:2])
                    if np.shape(g0) != outside[:2].shape or np.any(np.asarray(g0) != 0):
                        return fail('gradient', 'gradient_logpdf outside the support is %r, the code states 0' % (np.asarray(g0).tolist(),))
    except native.NativeTimeout:
        TIMEOUTS.append(dict(inp))           # undecided (a loaded machine), never a violation
        return None, False
    except Exception as e:
        return fail('exception', '%s: %s' % (type(e).__name__, e))
    return None, nontriv


def check_rejects(elfi, zoo_name):
    """ModelPrior raises iff a requested name is not a parameter / the request is not a list"""
    from elfi.model.extensions import ModelPrior
    m = build(elfi, zoo_name)
    names = sorted(n for n, _, _ in ZOO[zoo_name])
    for bad, why in ((names + ['nope'], 'unknown name'), (['_' + names[0]], 'private node name'), (tuple(names), 'tuple')):
        try:
            with native.time_limit(60):
                ModelPrior(m, bad)
        except ValueError:
            continue
        except native.NativeTimeout:
            TIMEOUTS.append(dict(model=zoo_name, parameter_names=list(bad)))
            continue
        except Exception as e:
            return dict(signature='c08:exception', what='%s for %s: %s' % (type(e).__name__, why, e), input=dict(model=zoo_name, parameter_names=list(bad)))
        return dict(signature='c08:accepts', what='ModelPrior accepted a request with an %s' % why, input=dict(model=zoo_name, parameter_names=list(bad)))
    return None


def orders(names, tier, rng):
    names = list(names)
    perms = list(itertools.permutations(names))
    if len(names) <= 3 or tier == 'thorough':
        return perms
    pick = [perms[0], perms[-1]] + [perms[i] for i in rng.choice(len(perms), size=4, replace=False)]
    return list(dict.fromkeys(pick))


def run(tier='quick', seed=0, first_failure_only=True, per_signature=True):
    elfi = native.import_elfi()
    del TIMEOUTS[:]
    rng = np.random.RandomState(seed)
    cases = nontrivial = skipped = 0
    failures, seen = [], set()
    for zoo_name in ZOO:
        all_names = sorted(n for n, _, _ in ZOO[zoo_name])
        f = check_rejects(elfi, zoo_name)
        cases += 1
        if f and f['signature'] not in seen:
            seen.add(f['signature'])
            failures.append(f)
        for k in range(1, len(all_names) + 1):
            for sub in itertools.combinations(all_names, k):
                if not closed(zoo_name, sub):
                    skipped += 1
                    continue
                for od in orders(sub, tier, rng):
                    cases += 1
                    full = k == len(all_names)
                    f, nt = check_case(elfi, zoo_name, od, seeds=(seed, seed + 1, seed + 2) if full and od == tuple(all_names) else (seed,),
                                       grad=(tier == 'thorough' or od in (tuple(sub), tuple(reversed(sub)))))
                    nontrivial += 1 if nt else 0
                    if f:
                        if f['signature'] in seen:
                            continue
                        seen.add(f['signature'])
                        failures.append(f)
    return dict(name='ModelPrior-vs-scipy-products',
                bound='%d hierarchical models <= 4 parameters; every parent-closed subset, %s; grid points inside/on/outside the support; '
                      'matrix/vector/scalar inputs; rvs seeds %d..%d; skipped (not parent-closed) %d; cases without a result inside the time limit (undecided): %d' % (
                          len(ZOO), 'every order' if tier == 'thorough' else 'every order up to 3 names and 6 orders per 4-subset', seed, seed + 2, skipped, len(TIMEOUTS)),
                rule='non-trivial = request of >= 2 parameters whose grid has rows with zero density and rows with positive density',
                cases=cases, nontrivial=nontrivial, failures=failures)


def replay_input(inp):
    """True iff the property HOLDS on this input"""
    if 'model' not in inp and isinstance(inp.get('input'), dict):       # a whole failure record (bounded replay file)
        inp = inp['input']
    elfi = native.import_elfi()
    if 'x' not in inp:                       # a rejection case
        from elfi.model.extensions import ModelPrior
        try:
            ModelPrior(build(elfi, inp['model']), inp['parameter_names'] if not isinstance(inp['parameter_names'], tuple) else tuple(inp['parameter_names']))
        except ValueError:
            return True
        return False
    f, _ = check_case(elfi, inp['model'], inp['parameter_names'], X=inp['x'], seeds=(inp.get('seed', 0),))
    return f is None


def find(signature, tier='quick', seed=0):
    """first failing input with that signature (replay of a refuted obligation)"""
    r = run(tier, seed)
    for f in r['failures']:
        if f['signature'] == signature:
            return f
    return None
