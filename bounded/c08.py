"""Bounded stand-in / replay vehicle for C08: the REAL elfi.model.extensions.ModelPrior against direct scipy.stats products.

Bound: the hierarchical models of ZOO (<= 4 parameters, constant and parameter-valued distribution arguments); every non-empty
parent-closed parameter subset in every order (quick tier: every order up to 3 names, 6 orders per 4-subset); a grid of evaluation
points per model that has rows inside, on the boundary of and outside the support; matrix / vector / scalar inputs;
rvs with 3 seeds; gradient_logpdf against the analytic derivative on the all-normal models.
A subset that is NOT closed under "is a parameter-valued argument of" gives the statement no meaning (the density of b ~ N(a, 1)
"at the point" needs a value for a): such requests are skipped and counted in `skipped`.

Oracle (independent of the code): prod over the requested names n of scipy.stats.<dist_n>.pdf(x_n, *args_n) with every
parameter-valued argument replaced by that parameter's coordinate of the same row."""
import itertools
import math

import numpy as np

from pyvc import native

# name -> list of (parameter, scipy distribution, args); a str argument is the name of an earlier parameter
ZOO = {
    'single-expon': [('t', 'expon', (0, 1))],
    'single-norm': [('t', 'norm', (1, 2))],
    'indep2-norm': [('a', 'norm', (0, 1)), ('b', 'norm', (0, 1))],
    'hier2': [('a', 'uniform', (0, 2)), ('b', 'norm', ('a', 1))],
    'hier3': [('a', 'uniform', (0, 2)), ('b', 'norm', ('a', 1)), ('c', 'expon', ('a', 2))],
    'chain3-uniform': [('z', 'uniform', (-1, 2)), ('y', 'uniform', ('z', 1)), ('w', 'uniform', ('y', 1))],
    'smooth3-norm': [('m', 'norm', (0, 2)), ('x', 'norm', ('m', 1)), ('y', 'norm', ('x', 3))],
    'hier4': [('m', 'norm', (1, 2)), ('s', 'gamma', (2, 0, 1)), ('x', 'norm', ('m', 's')), ('u', 'beta', (2, 3))],
    'order4': [('d', 'uniform', (0, 1)), ('c', 'uniform', ('d', 1)), ('b', 'norm', ('c', 2)), ('a', 'expon', (0, 'c'))],
}
# candidate coordinates per parameter (inside / boundary / outside the support of some row)
GRID = {
    'single-expon': {'t': [-1.0, 0.0, 0.5, 3.0]},
    'single-norm': {'t': [-3.0, 0.0, 1.0, 2.5]},
    'indep2-norm': {'a': [-1.5, 0.0, 0.7], 'b': [-0.3, 0.0, 2.0]},
    'hier2': {'a': [-0.5, 0.0, 0.5, 2.0, 2.5], 'b': [-1.0, 0.2, 3.0]},
    'hier3': {'a': [-0.5, 0.0, 0.5, 2.0, 2.5], 'b': [-1.0, 0.2], 'c': [0.0, 0.5, 1.0, 3.0]},
    'chain3-uniform': {'z': [-1.5, -1.0, 0.0, 1.0, 1.5], 'y': [-1.0, 0.5, 1.0, 2.0], 'w': [0.0, 0.5, 1.5, 2.0, 3.5]},
    'smooth3-norm': {'m': [-1.0, 0.3, 20.0], 'x': [-0.5, 1.2, -12.0], 'y': [0.0, 4.0, 50.0]},      # incl. far tails (log density about -770)
    'hier4': {'m': [-1.0, 1.0], 's': [0.5, 2.0], 'x': [-2.0, 0.4], 'u': [-0.1, 0.0, 0.3, 1.0, 1.2]},
    'order4': {'d': [0.0, 0.25, 1.0, 1.5], 'c': [0.1, 0.25, 1.2, 2.5], 'b': [-1.0, 0.3], 'a': [-0.5, 0.0, 1.0]},
}
TIMEOUTS = []
SMOOTH = ('single-norm', 'indep2-norm', 'smooth3-norm')     # all-normal, constant scales: analytic gradient below


def build(elfi, zoo_name):
    m = elfi.ElfiModel()
    nodes = {}
    for name, dist, args in ZOO[zoo_name]:
        nodes[name] = elfi.Prior(dist, *[nodes[a] if isinstance(a, str) else a for a in args], model=m, name=name)
    return m


def spec_of(zoo_name):
    return {n: (d, a) for n, d, a in ZOO[zoo_name]}


def closed(zoo_name, names):
    sp = spec_of(zoo_name)
    return all(a in names for n in names for a in sp[n][1] if isinstance(a, str))


def oracle_factors(zoo_name, names, X):
    """X: (N, len(names)) -> (N, len(names)) conditional densities, computed with scipy.stats directly"""
    import scipy.stats as ss
    sp = spec_of(zoo_name)
    col = {n: X[:, i] for i, n in enumerate(names)}
    out = np.empty(X.shape, dtype=float)
    with np.errstate(all='ignore'):
        for i, n in enumerate(names):
            d, args = sp[n]
            out[:, i] = getattr(ss, d).pdf(col[n], *[col[a] if isinstance(a, str) else a for a in args])
    return out


def oracle_logsum(zoo_name, names, X, F=None):
    """sum of the conditional LOG densities computed with scipy's logpdf (not log(pdf): far in the tails the product of positive densities
    underflows to 0 in machine floats although no conditional density is zero - the log density there is finite)"""
    import scipy.stats as ss
    sp = spec_of(zoo_name)
    col = {n: X[:, i] for i, n in enumerate(names)}
    tot = np.zeros(len(X))
    with np.errstate(all='ignore'):
        for n in names:
            d, args = sp[n]
            tot = tot + getattr(ss, d).logpdf(col[n], *[col[a] if isinstance(a, str) else a for a in args])
    F = oracle_factors(zoo_name, names, X) if F is None else F
    return np.where((F == 0).any(axis=1), -np.inf, tot)


def analytic_grad(zoo_name, names, X):
    """d/dx log prod for the all-normal models with constant scales"""
    sp = spec_of(zoo_name)
    idx = {n: i for i, n in enumerate(names)}
    G = np.zeros(X.shape)
    for n in names:
        d, (mu, sd) = sp[n]
        muv = X[:, idx[mu]] if isinstance(mu, str) else mu
        r = (X[:, idx[n]] - muv) / sd ** 2
        G[:, idx[n]] -= r
        if isinstance(mu, str):
            G[:, idx[mu]] += r
    return G


def grid_points(zoo_name, names):
    g = GRID[zoo_name]
    return np.array(list(itertools.product(*[g[n] for n in names])), dtype=float)


def _same(got, want):
    got, want = np.asarray(got, dtype=float), np.asarray(want, dtype=float)
    if got.shape != want.shape:
        return False
    fin = np.isfinite(want)
    if not np.array_equal(fin, np.isfinite(got)):
        return False
    if not np.array_equal(got[~fin], want[~fin], equal_nan=True):
        return False
    return bool(np.allclose(got[fin], want[fin], rtol=1e-9, atol=1e-300))


def check_case(elfi, zoo_name, names, X=None, seeds=(0,), draws=True, grad=True, model=None):
    """-> (failure dict or None, nontrivial flag).  names: requested parameter_names (list, in request order)"""
    from elfi.model.extensions import ModelPrior
    names = list(names)
    k = len(names)
    inp = dict(model=zoo_name, parameter_names=names)
    m = model if model is not None else build(elfi, zoo_name)
    all_names = sorted(n for n, _, _ in ZOO[zoo_name])
    strict = set(names) != set(all_names)
    tag = 'F11-strict-subset-request' if strict else None

    def fail(sig, what, **extra):
        t = None if sig.startswith('N1') else tag
        d = dict(signature='c08:' + (t or sig), what=('[%s] ' % sig if t else '') + what, input=dict(inp, **extra))
        return d, False
    try:
        with native.time_limit(120):
            mp = ModelPrior(m, list(names)) if names != all_names or X is not None else ModelPrior(m)
            if mp.parameter_names != names or mp.dim != k:
                return fail('names', 'parameter_names/dim of the prior are %r/%r' % (mp.parameter_names, mp.dim))
            X = grid_points(zoo_name, names) if X is None else np.asarray(X, dtype=float).reshape(-1, k)
            inp['x'] = X.tolist()
            F = oracle_factors(zoo_name, names, X)
            want = np.prod(F, axis=1)
            zero = (F == 0).any(axis=1)
            wantlog = oracle_logsum(zoo_name, names, X, F)
            nontriv = bool(zero.any() and (~zero).any() and k > 1)
            # matrix input
            p, lp = mp.pdf(X), mp.logpdf(X)
            if np.shape(p) != (len(X),) or np.shape(lp) != (len(X),):
                return fail('shape', 'matrix input (%d, %d): pdf shape %r, logpdf shape %r' % (len(X), k, np.shape(p), np.shape(lp)))
            if not _same(p, want):
                r = int(np.argmax(~np.isclose(np.asarray(p, float), want, rtol=1e-9, atol=0, equal_nan=True)))
                return fail('value', 'pdf(%r) = %r, product of the conditional densities = %r' % (X[r].tolist(), float(p[r]), float(want[r])), row=r)
            if not _same(lp, wantlog):
                r = int(np.argmax(~np.isclose(np.asarray(lp, float), wantlog, rtol=1e-9, atol=0, equal_nan=True)))
                return fail('value', 'logpdf(%r) = %r, sum of the log conditional densities = %r' % (X[r].tolist(), float(lp[r]), float(wantlog[r])), row=r)
            # logpdf is -inf EXACTLY where a conditional density is zero; pdf is zero there (and, in machine floats, also where the product of
            # positive densities underflows: `want` is computed the same way, compared above)
            if np.any(np.asarray(p)[zero] != 0) or not np.array_equal(np.isneginf(lp), zero):
                return fail('zero-set', 'pdf is zero / logpdf is -inf on a different set of rows than "some conditional density is zero"')
            # vector / scalar inputs
            for r in sorted({0, len(X) // 2, len(X) - 1}):
                if k > 1:
                    pv, lv = mp.pdf(X[r]), mp.logpdf(X[r])
                    if np.shape(pv) != () or np.shape(lv) != ():
                        return fail('shape', 'vector input (one point, dim %d): pdf shape %r' % (k, np.shape(pv)), row=r)
                    pl = mp.pdf(X[r].tolist())
                else:
                    pv, lv = mp.pdf(X[r, 0]), mp.logpdf(float(X[r, 0]))
                    if np.shape(pv) != () or np.shape(lv) != ():
                        return fail('shape', 'scalar input: pdf shape %r' % (np.shape(pv),), row=r)
                    pl = mp.pdf(float(X[r, 0]))
                if not (_same(pv, want[r]) and _same(lv, wantlog[r]) and _same(pl, want[r])):
                    return fail('value', 'single point %r: pdf %r / logpdf %r, expected %r / %r' % (X[r].tolist(), float(pv), float(lv), float(want[r]), float(wantlog[r])), row=r)
            if k == 1:
                pv = mp.pdf(X[:, 0])
                if np.shape(pv) != (len(X),) or not _same(pv, want):
                    return fail('shape', 'vector input of %d points (dim 1): pdf shape %r' % (len(X), np.shape(pv)))
            # draws
            if draws:
                for sd in seeds:
                    rs = np.random.RandomState(sd)
                    d1, dn = mp.rvs(random_state=rs), mp.rvs(size=7, random_state=rs)
                    if np.shape(d1) != (() if k == 1 else (k,)) or np.shape(dn) != ((7,) if k == 1 else (7, k)):
                        return fail('shape', 'rvs shapes %r / %r for dim %d' % (np.shape(d1), np.shape(dn), k), seed=sd)
                    pd = np.concatenate([np.atleast_1d(mp.pdf(d1)), np.atleast_1d(mp.pdf(dn))])
                    ld = np.concatenate([np.atleast_1d(mp.logpdf(d1)), np.atleast_1d(mp.logpdf(dn))])
                    D = np.vstack([np.reshape(d1, (1, k)), np.reshape(dn, (7, k))])
                    if not ((pd > 0).all() and np.isfinite(ld).all()):
                        return fail('draw', 'a draw has density %r' % (float(pd.min()),), seed=sd, draws=D.tolist())
                    if not _same(pd, np.prod(oracle_factors(zoo_name, names, D), axis=1)):
                        return fail('value', 'pdf at a draw differs from the product of the conditional densities', seed=sd, draws=D.tolist())
            # gradient
            if grad:
                inside = X[~zero]
                if zoo_name in SMOOTH and len(inside):
                    P = inside[:6]
                    g = mp.gradient_logpdf(P)
                    ga = analytic_grad(zoo_name, names, P)
                    if np.shape(g) != P.shape:
                        return fail('shape', 'gradient_logpdf of a (%d, %d) input has shape %r' % (P.shape + (np.shape(g),)))
                    if not np.allclose(g, ga, rtol=1e-4, atol=1e-5):
                        return fail('gradient', 'gradient_logpdf(%r) = %r, derivative of the log density = %r' % (P[0].tolist(), np.asarray(g)[0].tolist(), ga[0].tolist()))
                    g1 = mp.gradient_logpdf(P[0] if k > 1 else P[0, 0])
                    if np.shape(g1) != (k,) or not np.allclose(g1, ga[0], rtol=1e-4, atol=1e-5):
                        return fail('shape', 'gradient_logpdf of one point has shape %r (dim %d)' % (np.shape(g1), k))
                if zoo_name in SMOOTH:
                    # the same kind of point given as python / numpy INTEGERS (a point with integer coordinates is an evaluation point)
                    Pi = np.array([[1, 2, 3][:k], [3, -1, 2][:k]], dtype=int)
                    gi = mp.gradient_logpdf(Pi)
                    gai = analytic_grad(zoo_name, names, Pi.astype(float))
                    g1 = mp.gradient_logpdf(Pi[0].tolist() if k > 1 else int(Pi[0, 0]))
                    if np.shape(gi) != Pi.shape or not np.allclose(np.asarray(gi, dtype=float), gai, rtol=1e-4, atol=1e-5) or \
                            not np.allclose(np.asarray(g1, dtype=float), gai[0], rtol=1e-4, atol=1e-5):
                        bad = [r for r in range(len(Pi)) if np.shape(gi) != Pi.shape or not np.allclose(np.asarray(gi, dtype=float)[r], gai[r], rtol=1e-4, atol=1e-5)]
                        r = bad[0] if bad else 0
                        d, nt_ = fail('N1-integer-typed-gradient-input', 'gradient_logpdf(%r) [integer-typed query] = %r, derivative of the log density = %r' % (
                            Pi[r].tolist(), np.asarray(gi)[r].tolist() if np.shape(gi) == Pi.shape else np.asarray(gi).tolist(), gai[r].tolist()), int_query=Pi.tolist())
                        return d, nt_
                outside = X[zero]
                if len(outside):
                    g0 = mp.gradient_logpdf(outside[:2])
                    if np.shape(g0) != outside[:2].shape or np.any(np.asarray(g0) != 0):
                        return fail('gradient', 'gradient_logpdf outside the support is %r, the code states 0' % (np.asarray(g0).tolist(),))
    except native.NativeTimeout:
        TIMEOUTS.append(dict(inp))           # undecided (a loaded machine), never a violation
        return None, False
    except Exception as e:
        return fail('exception', '%s: %s' % (type(e).__name__, e))
    return None, nontriv


def check_rejects(elfi, zoo_name):
    """ModelPrior raises iff a requested name is not a parameter / the request is not a list"""
    from elfi.model.extensions import ModelPrior
    m = build(elfi, zoo_name)
    names = sorted(n for n, _, _ in ZOO[zoo_name])
    for bad, why in ((names + ['nope'], 'unknown name'), (['_' + names[0]], 'private node name'), (tuple(names), 'tuple')):
        try:
            with native.time_limit(60):
                ModelPrior(m, bad)
        except ValueError:
            continue
        except native.NativeTimeout:
            TIMEOUTS.append(dict(model=zoo_name, parameter_names=list(bad)))
            continue
        except Exception as e:
            return dict(signature='c08:exception', what='%s for %s: %s' % (type(e).__name__, why, e), input=dict(model=zoo_name, parameter_names=list(bad)))
        return dict(signature='c08:accepts', what='ModelPrior accepted a request with an %s' % why, input=dict(model=zoo_name, parameter_names=list(bad)))
    return None


def orders(names, tier, rng):
    names = list(names)
    perms = list(itertools.permutations(names))
    if len(names) <= 3 or tier == 'thorough':
        return perms
    pick = [perms[0], perms[-1]] + [perms[i] for i in rng.choice(len(perms), size=4, replace=False)]
    return list(dict.fromkeys(pick))


# ---------------------------------------------------------------------- matrices mixing rows inside / outside / on the boundary of the support
GRAD_MODELS = ('hier2', 'hier3', 'hier4', 'order4', 'chain3-uniform', 'smooth3-norm', 'indep2-norm')
H = 1e-5


def oracle_logpdf(zoo_name, names, X):
    return oracle_logsum(zoo_name, names, X)


def oracle_stencil(zoo_name, names, X, h=H):
    """(central difference of the recomputed sum of conditional log-densities, class of each row: 'inside' = every stencil value finite,
    'outside' = log-density -inf at the row, 'boundary' = finite at the row but -inf at one of its +-h neighbours)"""
    n, k = X.shape
    L0 = oracle_logpdf(zoo_name, names, X)
    cd = np.zeros((n, k))
    anyneg = np.isneginf(L0)
    for j in range(k):
        e = np.zeros(k)
        e[j] = h
        lp, lm = oracle_logpdf(zoo_name, names, X + e), oracle_logpdf(zoo_name, names, X - e)
        anyneg |= np.isneginf(lp) | np.isneginf(lm)
        with np.errstate(all='ignore'):
            cd[:, j] = (lp - lm) / (2 * h)
    cls = np.where(np.isneginf(L0), 'outside', np.where(anyneg, 'boundary', 'inside'))
    return cd, cls


def mixed_matrix(zoo_name, names, rng):
    """rows of the model's grid, interleaved so that rows outside / on the boundary sit between rows inside the support whose gradient
    is not zero (where the model has such rows)"""
    X = grid_points(zoo_name, names)
    cd, cls = oracle_stencil(zoo_name, names, X)
    with np.errstate(all='ignore'):
        steep = np.array([c == 'inside' and np.abs(g).max() > 1e-3 for c, g in zip(cls, cd)])
    pick = lambda mask, m: list(rng.permutation(np.flatnonzero(mask))[:m])
    ins = pick(steep, 4) or pick(cls == 'inside', 4)
    out, bnd = pick(cls == 'outside', 2), pick(cls == 'boundary', 2)
    order = []
    for i in range(max(len(ins), len(out) + len(bnd))):
        if i < len(out + bnd):
            order.append((out + bnd)[i])            # the first row of the matrix is a row outside the support when there is one
        if i < len(ins):
            order.append(ins[i])
    return X[order]


def check_gradient_matrix(elfi, zoo_name, names, X):
    """gradient_logpdf of a matrix: every row equals the single-point call on that row (a row does not depend on the rest of the batch),
    equals the independent central difference where the whole stencil is inside the support, and is 0 where a stencil value is -inf"""
    from elfi.model.extensions import ModelPrior
    names, X = list(names), np.asarray(X, dtype=float)
    k = len(names)
    inp = dict(model=zoo_name, parameter_names=names, gradient_matrix=X.tolist())
    fail = lambda what, **extra: dict(signature='c08:gradient-rows', what=what, input=dict(inp, **extra))
    try:
        with native.time_limit(120):
            mp = ModelPrior(build(elfi, zoo_name), list(names))
            cd, cls = oracle_stencil(zoo_name, names, X)
            G = np.asarray(mp.gradient_logpdf(X if k > 1 else X[:, 0]), dtype=float)
            if G.shape != X.shape:
                return fail('gradient_logpdf of a (%d, %d) matrix has shape %r' % (X.shape + (G.shape,))), 0
            for r in range(len(X)):
                g1 = np.asarray(mp.gradient_logpdf(X[r] if k > 1 else float(X[r, 0])), dtype=float).reshape(-1)
                if not np.allclose(G[r], g1, rtol=1e-6, atol=1e-9):
                    return fail('row %d (%s the support) x=%r: gradient in the batch %r != single-point gradient %r; classes of the rows: %s' % (
                        r, cls[r], X[r].tolist(), G[r].tolist(), g1.tolist(), ','.join(cls)), row=r), 0
                if cls[r] == 'inside' and not np.allclose(G[r], cd[r], rtol=1e-5, atol=1e-6):
                    return fail('row %d inside the support x=%r: gradient_logpdf %r, central difference of the sum of the conditional log-densities %r; '
                                'classes of the rows: %s' % (r, X[r].tolist(), G[r].tolist(), cd[r].tolist(), ','.join(cls)), row=r), 0
                if cls[r] != 'inside' and np.any(G[r] != 0):
                    return fail('row %d (%s the support) x=%r: gradient %r, the code states 0 where a probe is -inf' % (r, cls[r], X[r].tolist(), G[r].tolist()), row=r), 0
            with np.errstate(all='ignore'):
                nt = int((cls != 'inside').any() and any(c == 'inside' and np.abs(g).max() > 1e-3 for c, g in zip(cls, cd)))
            return None, nt
    except native.NativeTimeout:
        TIMEOUTS.append(dict(inp))
        return None, 0
    except Exception as e:
        return dict(signature='c08:exception', what='gradient_logpdf of a mixed matrix: %s: %s' % (type(e).__name__, e), input=inp), 0


# ---------------------------------------------------------------------- long inputs (size thresholds an implementation may have)
def int_class_constants(cls):
    out = {}
    for c in cls.__mro__[:-1]:
        for k_, v in vars(c).items():
            if isinstance(v, (int, np.integer)) and not isinstance(v, bool) and not k_.startswith('__'):
                out.setdefault(k_, int(v))
    return out


def long_points(zoo_name, names, n, rng):
    g = GRID[zoo_name]
    X = np.column_stack([rng.uniform(min(g[p]) - 0.1, max(g[p]) + 0.1, n) for p in names])
    G = grid_points(zoo_name, names)
    m = min(n, len(G))
    X[:m] = G[rng.permutation(len(G))[:m]]           # boundary / outside rows of the grid come first
    return X


def check_long(elfi, zoo_name, names, n, rng, patched=None):
    """pdf / logpdf of an n-row matrix: row-wise equal to the scipy product and to the same points evaluated in small chunks"""
    from elfi.model.extensions import ModelPrior
    names = list(names)
    inp = dict(model=zoo_name, parameter_names=names, long_rows=int(n), patched=patched)
    fail = lambda what: dict(signature='c08:long-input', what=what + (' [class constants set to %r]' % (patched,) if patched else ''), input=inp)
    try:
        with native.time_limit(180):
            mp = ModelPrior(build(elfi, zoo_name), list(names))
            X = long_points(zoo_name, names, n, rng)
            F = oracle_factors(zoo_name, names, X)
            zero = (F == 0).any(axis=1)
            want = np.prod(F, axis=1)
            wantlog = oracle_logsum(zoo_name, names, X, F)
            step = 3 if n < 50 else 4999
            for nm, fn, w in (('pdf', mp.pdf, want), ('logpdf', mp.logpdf, wantlog)):
                got = np.asarray(fn(X if len(names) > 1 else X[:, 0]))
                if got.shape != (n,):
                    return fail('%s of a %d-row matrix has shape %r' % (nm, n, got.shape))
                if not _same(got, w):
                    with np.errstate(all='ignore'):
                        r = int(np.argmax(~np.isclose(got.astype(float), w, rtol=1e-9, atol=0, equal_nan=True)))
                    return fail('%s of a %d-row matrix, row %d x=%r: %r, %s of the conditional densities %r' % (
                        nm, n, r, X[r].tolist(), float(got[r]), 'sum of the logs' if nm == 'logpdf' else 'product', float(w[r])))
                chunks = np.concatenate([np.atleast_1d(fn(X[i:i + step] if len(names) > 1 else X[i:i + step, 0])) for i in range(0, n, step)])
                if not _same(got, chunks):
                    return fail('%s of a %d-row matrix differs from the same rows evaluated in chunks of %d' % (nm, n, step))
            return None
    except native.NativeTimeout:
        TIMEOUTS.append(dict(inp))
        return None
    except Exception as e:
        return dict(signature='c08:exception', what='%d-row input: %s: %s' % (n, type(e).__name__, e), input=inp)


def long_cases(elfi, tier):
    """[(n, patched constants or None)]: 1, 7, 100000, 100001, 130000 rows and c-1, c, c+1, 2c+1 for every integer class constant c of the REAL
    ModelPrior (read from the imported class, not hard-coded); constants too large to run are set to 5 on the class and 4, 5, 6, 11 rows are run"""
    from elfi.model.extensions import ModelPrior
    consts = int_class_constants(ModelPrior)
    sizes = {1, 7, 100000, 100001, 130000}
    big = {}
    for k_, c in consts.items():
        if 2 <= c <= 400000:
            sizes |= {c - 1, c, c + 1, 2 * c + 1}
        elif c > 400000:
            big[k_] = c
    out = [(n, None) for n in sorted(sizes)]
    if big:
        out += [(n, {k_: 5 for k_ in big}) for n in (4, 5, 6, 11)]
    return out, consts


def run_extra(tier, seed, elfi, failures, seen):
    """the two families above -> (cases, nontrivial)"""
    from elfi.model.extensions import ModelPrior
    rng = np.random.RandomState(seed + 7)
    cases = nontrivial = 0

    def note(f):
        if f and f['signature'] not in seen:
            seen.add(f['signature'])
            failures.append(f)
    for zoo_name in GRAD_MODELS:
        names = sorted(n for n, _, _ in ZOO[zoo_name])
        for od in ([names, names[::-1]] if tier == 'quick' else [list(p) for p in itertools.permutations(names)][:6]):
            X = mixed_matrix(zoo_name, od, rng)
            cases += 1
            f, nt = check_gradient_matrix(elfi, zoo_name, od, X)
            nontrivial += nt
            note(f)
    todo, consts = long_cases(elfi, tier)
    for zoo_name in (('hier2',) if tier == 'quick' else ('hier2', 'hier3')):
        names = sorted(n for n, _, _ in ZOO[zoo_name])
        for n, patched in todo:
            old = {k_: getattr(ModelPrior, k_) for k_ in (patched or {})}
            try:
                for k_, v in (patched or {}).items():
                    setattr(ModelPrior, k_, v)
                cases += 1
                nontrivial += 1 if n > 7 else 0
                note(check_long(elfi, zoo_name, names if n % 2 else names[::-1], n, rng, patched))
            finally:
                for k_, v in old.items():
                    setattr(ModelPrior, k_, v)
    return cases, nontrivial, sorted(consts.items())


def run(tier='quick', seed=0, first_failure_only=True, per_signature=True):
    elfi = native.import_elfi()
    del TIMEOUTS[:]
    rng = np.random.RandomState(seed)
    cases = nontrivial = skipped = 0
    failures, seen = [], set()
    for zoo_name in ZOO:
        all_names = sorted(n for n, _, _ in ZOO[zoo_name])
        f = check_rejects(elfi, zoo_name)
        cases += 1
        if f and f['signature'] not in seen:
            seen.add(f['signature'])
            failures.append(f)
        for k in range(1, len(all_names) + 1):
            for sub in itertools.combinations(all_names, k):
                if not closed(zoo_name, sub):
                    skipped += 1
                    continue
                for od in orders(sub, tier, rng):
                    cases += 1
                    full = k == len(all_names)
                    f, nt = check_case(elfi, zoo_name, od, seeds=(seed, seed + 1, seed + 2) if full and od == tuple(all_names) else (seed,),
                                       grad=(tier == 'thorough' or od in (tuple(sub), tuple(reversed(sub)))))
                    nontrivial += 1 if nt else 0
                    if f:
                        if f['signature'] in seen:
                            continue
                        seen.add(f['signature'])
                        failures.append(f)
    xc, xn, consts = run_extra(tier, seed, elfi, failures, seen)
    cases += xc
    nontrivial += xn
    return dict(name='ModelPrior-vs-scipy-products',
                bound='gradient_logpdf of matrices mixing rows inside / outside / on the boundary of the support (%d models, each row against the single-point '
                      'call and an independent central difference); pdf/logpdf of 1, 7, 100000, 100001, 130000 rows and c-1, c, c+1, 2c+1 rows for the integer class '
                      'constants of ModelPrior found in the tree (%s) against scipy and chunked evaluation; ' % (len(GRAD_MODELS), consts or 'none') +
                      '%d hierarchical models <= 4 parameters; every parent-closed subset, %s; grid points inside/on/outside the support; '
                      'matrix/vector/scalar inputs; rvs seeds %d..%d; skipped (not parent-closed) %d; cases without a result inside the time limit (undecided): %d' % (
                          len(ZOO), 'every order' if tier == 'thorough' else 'every order up to 3 names and 6 orders per 4-subset', seed, seed + 2, skipped, len(TIMEOUTS)),
                rule='non-trivial = request of >= 2 parameters whose grid has rows with zero density and rows with positive density; a gradient matrix that has '
                     'rows outside / on the boundary AND a row inside with a non-zero gradient; a long input of more than 7 rows',
                cases=cases, nontrivial=nontrivial, failures=failures)


def replay_input(inp):
    """True iff the property HOLDS on this input"""
    if 'model' not in inp and isinstance(inp.get('input'), dict):       # a whole failure record (bounded replay file)
        inp = inp['input']
    elfi = native.import_elfi()
    if 'gradient_matrix' in inp:
        f, _ = check_gradient_matrix(elfi, inp['model'], inp['parameter_names'], inp['gradient_matrix'])
        return f is None
    if 'long_rows' in inp:
        from elfi.model.extensions import ModelPrior
        old = {k_: getattr(ModelPrior, k_) for k_ in (inp.get('patched') or {})}
        try:
            for k_, v in (inp.get('patched') or {}).items():
                setattr(ModelPrior, k_, v)
            return check_long(elfi, inp['model'], inp['parameter_names'], inp['long_rows'], np.random.RandomState(7), inp.get('patched')) is None
        finally:
            for k_, v in old.items():
                setattr(ModelPrior, k_, v)
    if 'x' not in inp:                       # a rejection case
        from elfi.model.extensions import ModelPrior
        try:
            ModelPrior(build(elfi, inp['model']), inp['parameter_names'] if not isinstance(inp['parameter_names'], tuple) else tuple(inp['parameter_names']))
        except ValueError:
            return True
        return False
    f, _ = check_case(elfi, inp['model'], inp['parameter_names'], X=inp['x'], seeds=(inp.get('seed', 0),))
    return f is None


def find(signature, tier='quick', seed=0):
    """first failing input with that signature (replay of a refuted obligation)"""
    r = run(tier, seed)
    for f in r['failures']:
        if f['signature'] == signature:
            return f
    return None
