"""Bounded stand-in / replay vehicle for C09 on the REAL elfi/methods/mcmc.py (labelled bounded; never counted as proof).

(a) metropolis-stream-replay: `ref_metropolis` below is an independently written random-walk Metropolis (from the property
    text) that replays the same RandomState(seed) stream; elfi's metropolis must equal it state by state (exact float
    equality: same operations in the same order; the reference is a float64 chain whatever the numpy dtype of params0 /
    sigma_proposals - integer-typed and float32 starting points are in the grid).  Grid: dims 1-3 x targets {smooth, hard boundary, NaN region,
    -inf/NaN/+inf regions} x warm-up values x lengths x seeds; plus the start-validity clause (ValueError iff the start
    has infinite log-target).
(b) sampler-contract-grid (metropolis and nuts): requested length, deterministic in the seed (also when the GLOBAL numpy
    generator is perturbed between two runs), no returned state with log-target -inf / nan, over a grid of targets / seeds /
    lengths / adaptation lengths (including n_adapt = n_iter - 1 and the default n_adapt for short chains).
(c) nuts-stream-replay: `ref_nuts` is an independently written NUTS with dual averaging (Hoffman & Gelman 2014, Algorithm 6;
    draws consumed in the documented order: momentum, slice, direction per doubling, sub-tree choice, acceptance) compared
    state by state (rtol 1e-9) with elfi's nuts for an explicitly given initial step size.  This is the only (bounded)
    evidence for "NUTS implements its algorithm"; the deductive tier covers support safety only.
"""
import math

import numpy as np

from pyvc import native

DELTA_MAX = 1000.0


# ---------------------------------------------------------------- targets (named, so that inputs are JSON-able)
def _gauss(x):
    return float(-0.5 * np.sum(np.asarray(x, dtype=float) ** 2))


def t_gauss(x):
    return _gauss(x)


def t_box(x):
    """hard support boundary: density 0 outside [-1, 1.5]^d"""
    x = np.asarray(x, dtype=float)
    if np.any(x < -1.0) or np.any(x > 1.5):
        return float('-inf')
    return _gauss(x)


def t_nanregion(x):
    """NaN region x[0] < -0.5 (e.g. log of a negative number)"""
    x = np.asarray(x, dtype=float)
    if x[0] < -0.5:
        return float('nan')
    return _gauss(x)


def t_mixed(x):
    """-inf for x[0] > 1, nan for x[0] < -1, +inf on a thin shell, smooth elsewhere"""
    x = np.asarray(x, dtype=float)
    if x[0] > 1.0:
        return float('-inf')
    if x[0] < -1.0:
        return float('nan')
    if 0.90 < x[0] < 0.93:
        return float('inf')
    return float(-0.5 * np.sum((x / 0.7) ** 2))


def t_steep(x):
    """smooth but steep (scale 0.1): many rejections / large energy errors"""
    x = np.asarray(x, dtype=float)
    return float(-0.5 * np.sum((x / 0.1) ** 2))


def g_gauss(x):
    return -np.asarray(x, dtype=float)


def g_mixed(x):
    return -np.asarray(x, dtype=float) / 0.49


def g_steep(x):
    return -np.asarray(x, dtype=float) / 0.01


TARGETS = {'gauss': (t_gauss, g_gauss), 'box': (t_box, g_gauss), 'nanregion': (t_nanregion, g_gauss), 'mixed': (t_mixed, g_mixed),
           'steep': (t_steep, g_steep)}


def _mcmc():
    m = native.load_file_module('elfi/methods/mcmc.py')
    if hasattr(m, 'logger'):
        m.logger.disabled = True
    return m


def _arr(inp, key='x0'):
    """the array argument in the numpy dtype the case asks for (default float64)"""
    return np.array(inp[key]).astype(inp.get(key + '_dtype', 'float64'))


def start_point(d, name):
    return np.array([0.1, -0.2, 0.3][:d]) if name != 'steep' else np.array([0.01, -0.02, 0.03][:d])


# ---------------------------------------------------------------- (a) independent Metropolis
def ref_metropolis(n_samples, x0, target, sigma, warmup, seed):
    """Random-walk Metropolis as the property states it: z_i then u_i are drawn from RandomState(seed) at every step;
    the proposal x + sigma * z_i is accepted iff its log-target is finite and not (exp(t_prop - t_prev) < u_i)."""
    rs = np.random.RandomState(seed)
    x = np.array(x0, dtype=float)
    t = target(x)
    if math.isinf(t):
        raise ValueError('start has infinite log-target')
    states = []
    for _ in range(n_samples + warmup):
        z = rs.randn(*x.shape)
        cand = x + sigma * z
        t_cand = target(cand)
        u = rs.rand()
        with np.errstate(all='ignore'):
            ratio = np.exp(np.float64(t_cand) - np.float64(t))
        if math.isfinite(t_cand) and not (ratio < u):
            x, t = cand, t_cand
        states.append(x.copy())
    return np.array(states[warmup:]).reshape((n_samples,) + x.shape)


def check_metropolis_case(inp, mod=None):
    """-> None or a failure dict(what, input)"""
    mod = mod or _mcmc()
    tgt = TARGETS[inp['target']][0]
    x0 = _arr(inp)
    sigma = _arr(inp, 'sigma')
    n, w, seed = inp['n_samples'], inp['warmup'], inp['seed']
    t0 = tgt(x0)
    try:
        with native.time_limit(20):
            with np.errstate(all='ignore'):
                got = mod.metropolis(n, x0.copy(), tgt, sigma, warmup=w, seed=seed)
    except native.NativeTimeout as e:
        return dict(what='timeout: %s' % e, input=inp)
    except ValueError as e:
        if math.isinf(t0):
            return None
        return dict(what='ValueError for a start with non-infinite log-target: %s' % e, input=inp)
    except Exception as e:
        return dict(what='%s: %s' % (type(e).__name__, e), input=inp)
    if math.isinf(t0):
        return dict(what='no ValueError although the start has infinite log-target', input=inp)
    got = np.asarray(got)
    if got.shape != (n,) + x0.shape:
        return dict(what='length: returned shape %s, requested %s' % (got.shape, (n,) + x0.shape), input=inp)
    ref = ref_metropolis(n, x0.astype(float), tgt, sigma.astype(float), w, seed)      # the reference chain is float64 whatever the dtype of the arguments
    if not np.array_equal(got, ref):
        bad = int(np.argmax(np.any(got != ref, axis=tuple(range(1, got.ndim))))) if got.ndim > 1 else int(np.argmax(got != ref))
        return dict(what='chain: state %d differs from the random-walk Metropolis chain of the seed (got %s, chain %s)' % (bad, got[bad].tolist(), ref[bad].tolist()), input=inp)
    bad = [i for i, row in enumerate(got) if not math.isfinite(tgt(row))]
    if bad:
        return dict(what='support: returned state %d has log-target %r' % (bad[0], tgt(got[bad[0]])), input=inp)
    return None


def metropolis_cases(tier, seed):
    seeds = range(seed, seed + (5 if tier == 'quick' else 16))
    lens = [(1, 0), (7, 0), (12, 5), (30, 13)] if tier == 'quick' else [(1, 0), (2, 1), (7, 0), (12, 5), (30, 13), (120, 40)]
    for name in ('gauss', 'box', 'nanregion', 'mixed'):
        for d in (1, 2, 3):
            for n, w in lens:
                for sd in seeds:
                    for sig in (0.4, 1.5):
                        yield dict(fn='metropolis', target=name, x0=start_point(d, name).tolist(), sigma=[sig * (1 + 0.5 * j) for j in range(d)],
                                   n_samples=n, warmup=w, seed=sd)
    # starting points / scales that are not float64 arrays (integer-typed, float32): the chain must still be the float64 chain of the seed
    for name in ('gauss', 'box', 'nanregion', 'mixed'):
        for d in (1, 2, 3):
            for n, w in ((9, 0), (20, 6)):
                for sd in list(seeds)[:2]:
                    for dt in ('int64', 'int32', 'float32'):
                        x0 = [0, 1, 0][:d] if dt.startswith('int') else start_point(d, name).tolist()
                        yield dict(fn='metropolis', target=name, x0=x0, x0_dtype=dt, sigma=[0.7 * (1 + 0.5 * j) for j in range(d)], n_samples=n, warmup=w, seed=sd)
                    yield dict(fn='metropolis', target=name, x0=start_point(d, name).tolist(), sigma=[1, 2, 1][:d], sigma_dtype='int64', n_samples=n, warmup=w, seed=sd)
    # start validity: infinite start must be refused, valid start accepted
    for name, x0 in (('box', [2.0]), ('box', [2.0, 0.0]), ('mixed', [1.5]), ('mixed', [0.91]), ('box', [1.5]), ('box', [-1.0, 1.5])):
        yield dict(fn='metropolis', target=name, x0=x0, sigma=[0.5] * len(x0), n_samples=5, warmup=2, seed=seed)


# ---------------------------------------------------------------- (c) independent NUTS (Hoffman & Gelman 2014, Algorithm 6)
class _RefNuts:
    def __init__(self, logp, grad, rs):
        self.L, self.grad, self.rs = logp, grad, rs

    def joint(self, theta, r):
        return self.L(theta) - 0.5 * np.inner(r, r)

    def leapfrog(self, theta, r, eps):
        r_half = r + 0.5 * eps * self.grad(theta)
        theta_new = theta + eps * r_half
        r_new = r_half + 0.5 * eps * self.grad(theta_new)
        return theta_new, r_new

    def build(self, theta, r, log_u, v, j, eps, joint0):
        """-> theta_minus, r_minus, theta_plus, r_plus, theta_prop, n, s, alpha, n_alpha"""
        if j == 0:
            th, rr = self.leapfrog(theta, r, v * eps)
            jt = self.joint(th, rr)
            n = 1.0 if log_u <= jt else 0.0
            s = bool(log_u < DELTA_MAX + jt)
            with np.errstate(all='ignore'):
                alpha = min(1.0, float(np.exp(jt - joint0))) if s else 0.0
            return th, rr, th, rr, th, n, s, alpha, 1.0
        tm, rm, tp, rp, prop, n, s, alpha, n_alpha = self.build(theta, r, log_u, v, j - 1, eps, joint0)
        if s:
            if v < 0:
                tm, rm, _, _, prop2, n2, s2, alpha2, n_alpha2 = self.build(tm, rm, log_u, v, j - 1, eps, joint0)
            else:
                _, _, tp, rp, prop2, n2, s2, alpha2, n_alpha2 = self.build(tp, rp, log_u, v, j - 1, eps, joint0)
            if n2 > 0 and self.rs.rand() < n2 / (n + n2):
                prop = prop2
            alpha, n_alpha = alpha + alpha2, n_alpha + n_alpha2
            s = bool(s2 and np.inner(tp - tm, rm) >= 0 and np.inner(tp - tm, rp) >= 0)
            n = n + n2
        return tm, rm, tp, rp, prop, n, s, alpha, n_alpha


def ref_nuts(n_iter, x0, logp, grad, n_adapt, eps0, seed, delta=0.6, max_depth=5):
    """NUTS with dual averaging, Algorithm 6; gamma = 0.05, t0 = 10, kappa = 0.75, mu = log(10 eps0); slice variable in log
    space (log u = joint - Exp(1)); tree depth at most max_depth + 1 doublings."""
    rs = np.random.RandomState(seed)
    R = _RefNuts(logp, grad, rs)
    if math.isinf(logp(x0)):
        raise ValueError('start has infinite log-target')
    mu, gamma, t0, kappa = math.log(10.0 * eps0), 0.05, 10.0, 0.75
    eps, log_eps_bar, h_bar = eps0, 0.0, 0.0
    theta = np.array(x0, dtype=float)
    out = []
    for m in range(1, n_iter + 1):
        r0 = rs.randn(*theta.shape)
        joint0 = R.joint(theta, r0)
        log_u = joint0 - rs.exponential()
        tm = tp = theta
        rm = rp = r0
        j, n, s = 0, 1.0, True
        new = theta
        while s and j <= max_depth:
            v = 1 if rs.rand() < 0.5 else -1
            if v == -1:
                tm, rm, _, _, prop, n1, s1, alpha, n_alpha = R.build(tm, rm, log_u, v, j, eps, joint0)
            else:
                _, _, tp, rp, prop, n1, s1, alpha, n_alpha = R.build(tp, rp, log_u, v, j, eps, joint0)
            if s1 and rs.rand() < n1 / n:
                new = prop
            n += n1
            s = bool(s1 and np.inner(tp - tm, rm) >= 0 and np.inner(tp - tm, rp) >= 0)
            j += 1
        theta = new
        out.append(np.array(theta, dtype=float))
        if m <= n_adapt:
            h_bar = (1.0 - 1.0 / (m + t0)) * h_bar + (delta - alpha / n_alpha) / (m + t0)
            log_eps = mu - math.sqrt(m) / gamma * h_bar
            log_eps_bar = m ** (-kappa) * log_eps + (1.0 - m ** (-kappa)) * log_eps_bar
            eps = math.exp(log_eps)
        elif m == n_adapt + 1:
            eps = math.exp(log_eps_bar)
    return np.array(out).reshape((n_iter,) + np.shape(x0))


def _run_nuts(mod, inp, perturb_global=False):
    tgt, grd = TARGETS[inp['target']]
    x0 = _arr(inp)
    kw = dict(n_adapt=inp.get('n_adapt'), seed=inp['seed'])
    if inp.get('stepsize') is not None:
        kw['stepsize'] = inp['stepsize']
    if inp.get('max_depth') is not None:
        kw['max_depth'] = inp['max_depth']
    if perturb_global:
        np.random.seed(12345 + inp['seed'])
        np.random.rand(7)
    with native.time_limit(60):
        with np.errstate(all='ignore'):
            return np.asarray(mod.nuts(inp['n_iter'], x0.copy(), tgt, grd, **kw))


def _run_metropolis(mod, inp, perturb_global=False):
    tgt = TARGETS[inp['target']][0]
    if perturb_global:
        np.random.seed(999 + inp['seed'])
        np.random.rand(3)
    with native.time_limit(20):
        with np.errstate(all='ignore'):
            return np.asarray(mod.metropolis(inp['n_samples'], _arr(inp), tgt, _arr(inp, 'sigma'),
                                             warmup=inp['warmup'], seed=inp['seed']))


def check_contract_case(inp, mod=None):
    """requested length / deterministic in the seed / no state with log-target -inf or nan (start valid)"""
    mod = mod or _mcmc()
    run = _run_nuts if inp['fn'] == 'nuts' else _run_metropolis
    n = inp['n_iter'] if inp['fn'] == 'nuts' else inp['n_samples']
    tgt = TARGETS[inp['target']][0]
    x0 = _arr(inp)
    t0 = tgt(x0)
    try:
        a = run(mod, inp)
        b = run(mod, inp, perturb_global=True)
    except native.NativeTimeout as e:
        return dict(what='timeout: %s' % e, input=inp)
    except ValueError as e:
        if math.isinf(t0):
            return None
        return dict(what='ValueError for a start with non-infinite log-target: %s' % e, input=inp)
    except Exception as e:
        return dict(what='%s: %s (valid start, log-target %r)' % (type(e).__name__, e, tgt(x0)), input=inp)
    if math.isinf(t0):
        return dict(what='no ValueError although the start has infinite log-target %r' % t0, input=inp)
    if a.shape != (n,) + x0.shape:
        return dict(what='length: returned shape %s, requested %s' % (a.shape, (n,) + x0.shape), input=inp)
    if not np.array_equal(a, b):
        return dict(what='determinism: two runs with the same seed differ (global numpy generator perturbed in between)', input=inp)
    for i, row in enumerate(a):
        t = tgt(row)
        if t != t or t == float('-inf'):
            return dict(what='support: returned state %d = %s has log-target %r' % (i, row.tolist(), t), input=inp)
    return None


def check_nuts_replay_case(inp, mod=None):
    mod = mod or _mcmc()
    tgt, grd = TARGETS[inp['target']]
    x0 = _arr(inp).astype(float)
    try:
        got = _run_nuts(mod, inp)
    except native.NativeTimeout as e:
        return dict(what='timeout: %s' % e, input=inp)
    except Exception as e:
        return dict(what='%s: %s (valid start, log-target %r)' % (type(e).__name__, e, tgt(x0)), input=inp)
    n_adapt = inp['n_adapt'] if inp.get('n_adapt') is not None else inp['n_iter'] // 2
    with np.errstate(all='ignore'):
        ref = ref_nuts(inp['n_iter'], x0, tgt, grd, n_adapt, inp['stepsize'], inp['seed'], max_depth=inp.get('max_depth') or 5)
    if got.shape != ref.shape:
        return dict(what='length: returned shape %s, requested %s' % (got.shape, ref.shape), input=inp)
    if not np.allclose(got, ref, rtol=1e-9, atol=1e-12):
        bad = int(np.argmax(np.any(~np.isclose(got, ref, rtol=1e-9, atol=1e-12), axis=1)))
        return dict(what='chain: state %d differs from the independently written NUTS (Algorithm 6) on the same stream (got %s, reference %s)' % (
            bad, got[bad].tolist(), ref[bad].tolist()), input=inp)
    return None


def contract_cases(tier, seed):
    seeds = range(seed, seed + (4 if tier == 'quick' else 12))
    for name in ('gauss', 'box', 'nanregion', 'mixed'):
        for d in (1, 2):
            for sd in seeds:
                yield dict(fn='metropolis', target=name, x0=start_point(d, name).tolist(), sigma=[0.8] * d, n_samples=25, warmup=5, seed=sd)
                for n_iter, n_adapt in ((12, None), (9, 3), (6, 0), (5, 9)) + (() if tier == 'quick' else ((40, None), (25, 10))):
                    yield dict(fn='nuts', target=name, x0=start_point(d, name).tolist(), n_iter=n_iter, n_adapt=n_adapt, seed=sd)
    # start validity: a start with infinite log-target must be refused with ValueError, a valid one on the boundary accepted
    for name, x0 in (('box', [2.0]), ('box', [0.3, -1.5]), ('mixed', [1.5]), ('mixed', [0.91]), ('box', [1.5]), ('box', [-1.0, 1.5])):
        yield dict(fn='nuts', target=name, x0=x0, n_iter=6, n_adapt=2, stepsize=0.3, seed=seed)
    # chain / adaptation lengths at the edges: short chains with the default n_adapt, n_adapt = n_iter - 1
    for n_iter, n_adapt in ((1, None), (2, None), (3, None), (3, 2), (5, 4), (4, 4), (1, 5)):
        yield dict(fn='nuts', target='gauss', x0=[0.1, -0.2], n_iter=n_iter, n_adapt=n_adapt, seed=seed)


def nuts_replay_cases(tier, seed):
    seeds = range(seed, seed + (6 if tier == 'quick' else 20))
    for name in ('gauss', 'box', 'mixed', 'steep'):
        for d in (1, 2, 3):
            for sd in seeds:
                for n_iter, n_adapt, eps, md in ((14, None, 0.5, 5), (10, 3, 1.2, 3)) + (() if tier == 'quick' else ((40, 15, 0.3, 5),)):
                    if name == 'steep':
                        eps = eps * 0.3
                    yield dict(fn='nuts-replay', target=name, x0=start_point(d, name).tolist(), n_iter=n_iter, n_adapt=n_adapt, stepsize=eps, max_depth=md, seed=sd)
    for name in ('gauss', 'box', 'mixed'):
        for d in (1, 2):
            for dt in ('int64', 'int32', 'float32'):
                x0 = [0, 1][:d] if dt.startswith('int') else start_point(d, name).tolist()
                yield dict(fn='nuts-replay', target=name, x0=x0, x0_dtype=dt, n_iter=10, n_adapt=4, stepsize=0.5, max_depth=4, seed=seed)


CHECKS = {'metropolis': check_metropolis_case, 'nuts': check_contract_case, 'nuts-replay': check_nuts_replay_case, 'metropolis-contract': check_contract_case}


def _sig(what):
    return 'c09:' + what.split(':')[0][:40]


def _run(name, bound, rule, cases, check, nontrivial_of, first_failure_only=True):
    mod = _mcmc()
    n = nontriv = 0
    failures = []
    seen = set()
    for inp in cases:
        n += 1
        f = check(inp, mod)
        if f is None:
            nontriv += nontrivial_of(inp)
            continue
        f['signature'] = _sig(f['what'])
        if f['signature'] in seen:
            continue
        seen.add(f['signature'])
        failures.append(f)
        if first_failure_only and len(failures) >= 3:
            break
    return dict(name=name, bound=bound, rule=rule, cases=n, nontrivial=nontriv, failures=failures)


def run_all(tier='quick', seed=0):
    out = []
    out.append(_run('metropolis-stream-replay',
                    'dims 1-3; targets gauss/box/nanregion/mixed; (n_samples,warmup) up to (%s); 2 proposal scales; seeds %d..; params0 of dtype float64 / int64 / int32 / float32 and integer-typed sigma (reference chain always float64); 6 start-validity cases' % (
                        '30,13' if tier == 'quick' else '120,40', seed),
                    'non-trivial = target with a hard boundary / NaN / +-inf region (rejections for non-finite log-target occur)',
                    metropolis_cases(tier, seed), check_metropolis_case, lambda i: int(i['target'] != 'gauss')))
    out.append(_run('sampler-contract-grid',
                    'metropolis and nuts; dims 1-2; targets gauss/box/nanregion/mixed; n_iter up to %d with n_adapt None / < / = n_iter-1 / > n_iter; seeds %d..' % (
                        12 if tier == 'quick' else 40, seed),
                    'non-trivial = nuts run, or target with non-finite regions',
                    contract_cases(tier, seed), check_contract_case, lambda i: int(i['fn'] == 'nuts' or i['target'] != 'gauss')))
    out.append(_run('nuts-stream-replay',
                    'dims 1-3; targets gauss/box/mixed/steep; n_iter up to %d; given initial step size; max_depth 3/5; seeds %d..; 18 cases with int64 / int32 / float32 params0' % (14 if tier == 'quick' else 40, seed),
                    'non-trivial = every case (trees of depth > 1 with U-turn / divergence terminations occur in all of them)',
                    nuts_replay_cases(tier, seed), check_nuts_replay_case, lambda i: 1))
    return out


def replay_input(inp):
    """True iff the property HOLDS on this input (used by --replay)"""
    if 'fn' not in inp and isinstance(inp.get('input'), dict):     # a failure record of the bounded stand-in: {what, input, signature}
        inp = inp['input']
    fn = inp.get('fn', 'metropolis')
    if fn == 'metropolis':
        return check_metropolis_case(inp) is None and check_contract_case(inp) is None
    return CHECKS[fn](inp) is None


def search_failure(fn):
    """first failing native input for `fn` ('metropolis' | 'nuts') over the thorough grids"""
    mod = _mcmc()
    n = 0
    gens = [metropolis_cases('thorough', 0), (c for c in contract_cases('quick', 0) if c['fn'] == 'metropolis')] if fn == 'metropolis' else \
        [(c for c in contract_cases('quick', 0) if c['fn'] == 'nuts'), nuts_replay_cases('quick', 0)]
    for g in gens:
        for inp in g:
            n += 1
            f = CHECKS[inp['fn']](inp, mod) if inp['fn'] != 'metropolis' else (check_metropolis_case(inp, mod) or check_contract_case(inp, mod))
            if f:
                return dict(found=True, input=f['input'], observed=f['what'])
    return dict(found=False, searched='bounded grids of bounded/c09.py', cases=n)
