"""Bounded stand-in / replay vehicle for C10 on the REAL code (GPyRegression + BolfiPosterior of the tree under analysis).

A case is a SCRIPT (JSON-able list of ops) run against one GPyRegression instance:
  ['new', dim, bounds, max_opt_iters, k]   GPyRegression(parameter_names, bounds, max_opt_iters=...); k = None (default kernel) | 'matern'
                                           (kernel=GPy.kern.Matern32) | 'noise' (noise_var=0.1): the last two must never take the fast path
  ['update', X, Y, optimize]               .update(np.array(X), np.array(Y), optimize)          -> evidence-order check
  ['optimize']                             .optimize()
  ['optimize-fails'] / ['update-optimize-fails', X, Y]
                                           .optimize() / .update(X, Y, optimize=True) while the GPy model's optimize() raises
                                           np.linalg.LinAlgError (GPy's numerical failure mode, injected on the instance): no exception may
                                           escape, the evidence must be intact (old ++ new) and the surrogate must stay usable
  ['sampling', flag]                       .is_sampling = flag
  ['predict', q]                           .predict(q) and .predictive_gradients(q) must equal GPy's own answers for the CURRENT _gp
                                           (reference: model._gp.predict / predictive_gradients called directly)
  ['posterior', h, queries]                BolfiPosterior(model, threshold=h, prior=P): .threshold == h (h = 0 and 0.0 included); logpdf = log Phi((h-m)/sqrt(v)) + log prior inside the
                                           bounds (m, v from GPy directly), -inf outside, closed on the boundary, answer shapes;
                                           gradient_logpdf vs central difference of logpdf at interior points
Oracles are independent of elfi's fast path.  `shim=True` runs the script with the module-level name `float` of gpy_regression.py bound
to a scalar extraction that accepts 1-element arrays (repairs defect F12 IN-PROCESS, nothing is written) so that what lies behind F12
(the stale-cache defect F13) can be replayed on a tree where F12 is still open; such inputs carry "shim": true.
Bound (quick): dims 1-3, 4 random scripts per dim, evidence sets of 3-8 points, 1-3 interleaved updates/optimisations of 1-3 points
(max_opt_iters <= 5), queries inside / outside / on the bounds."""
import builtins
import math

import numpy as np

from pyvc import native

TOL = 1e-6


def _mods():
    gpr = native.import_module('elfi.methods.bo.gpy_regression')
    post = native.import_module('elfi.methods.posteriors')
    return gpr, post


class Prior:
    """independent normal prior with ModelPrior's answer-shape convention"""

    def __init__(self, dim, loc=0.3, scale=1.5):
        self.dim, self.loc, self.scale = dim, loc, scale

    def _rows(self, x):
        x = np.asanyarray(x, dtype=float)
        return x.ndim, x.reshape((-1, self.dim))

    def logpdf(self, x):
        nd, r = self._rows(x)
        v = np.sum(-0.5 * ((r - self.loc) / self.scale) ** 2 - math.log(self.scale * math.sqrt(2 * math.pi)), axis=1)
        return v[0] if (nd == 0 or (nd == 1 and self.dim > 1)) else v

    def rvs(self, size=None, random_state=None):
        rs = random_state or np.random
        return self.loc + self.scale * rs.randn(size or 1, self.dim)

    def gradient_logpdf(self, x):
        nd, r = self._rows(x)
        g = -(r - self.loc) / self.scale ** 2
        return g[0] if (nd == 0 or (nd == 1 and self.dim > 1)) else g


def _log_phi(z):
    from scipy.special import log_ndtr
    return log_ndtr(z)


class Failure(Exception):
    def __init__(self, sig, what):
        Exception.__init__(self, what)
        self.sig, self.what = sig, what


def _close(a, b, tol=TOL):
    a, b = np.asarray(a, dtype=float), np.asarray(b, dtype=float)
    if a.shape != b.shape:
        return False
    return bool(np.all(np.abs(a - b) <= tol * (1 + np.abs(b))))


def _check_predict(model, q, after_change):
    q = np.asarray(q, dtype=float)
    gp = model._gp
    ref_m, ref_v = gp.predict(q.reshape((-1, model.input_dim)))
    ref_gm, ref_gv = gp.predictive_gradients(q.reshape((-1, model.input_dim)))
    ref_gm = ref_gm[:, :, 0]
    tag = 'fast' if (model.is_sampling and getattr(model, '_kernel_is_default', False)) else ('sampling-non-default-kernel' if model.is_sampling else 'slow')
    try:
        m, v = model.predict(q)
        gm, gv = model.predictive_gradients(q)
    except Exception as e:
        if isinstance(e, native.NativeTimeout):
            raise
        stale = after_change and model.is_sampling
        raise Failure('c10:%s-path-raises-%s%s' % (tag, type(e).__name__, '-after-evidence-change' if stale else ''),
                      '%s path: predict/predictive_gradients raised %s: %s' % (tag, type(e).__name__, str(e)[:120]))
    for name, got, ref in (('mean', m, ref_m), ('var', v, ref_v), ('grad_mean', gm, ref_gm), ('grad_var', gv, ref_gv)):
        if not _close(got, ref):
            raise Failure('c10:%s-path-%s-differs-from-GPy%s' % (tag, name, '-after-evidence-change' if (after_change and model.is_sampling) else ''),
                          '%s path: %s = %s, GPy on the current model gives %s' % (tag, name, np.asarray(got).ravel()[:4].tolist(), np.asarray(ref).ravel()[:4].tolist()))


def _expected_shape(q, dim):
    q = np.asarray(q, dtype=float)
    if q.ndim == 0 or (q.ndim == 1 and dim > 1):
        return ()
    return (q.reshape((-1, dim)).shape[0],)


def _check_posterior(post_mod, model, h, queries):
    dim = model.input_dim
    prior = Prior(dim)
    post = post_mod.BolfiPosterior(model, threshold=h, prior=prior, n_inits=2, max_opt_iters=20)
    try:
        same = float(post.threshold) == float(h)
    except Exception:
        same = False
    if not same:
        raise Failure('c10:threshold-not-the-given-one', 'BolfiPosterior(model, threshold=%r): the posterior uses threshold %r' % (h, post.threshold))
    lo = np.array([b[0] for b in model.bounds], dtype=float)
    hi = np.array([b[1] for b in model.bounds], dtype=float)
    for q in queries:
        qa = np.asarray(q, dtype=float)
        rows = qa.reshape((-1, dim))
        ins = np.all((rows >= lo) & (rows <= hi), axis=1)
        want = np.full(len(rows), -np.inf)
        if ins.any():
            m, v = model._gp.predict(rows[ins])
            want[ins] = _log_phi((h - m[:, 0]) / np.sqrt(v[:, 0])) + np.atleast_1d(prior.logpdf(rows[ins]))
        try:
            got = post.logpdf(qa)
            pdf = post.pdf(qa)
        except Exception as e:
            if isinstance(e, native.NativeTimeout):
                raise
            raise Failure('c10:logpdf-raises-%s' % type(e).__name__, 'logpdf(%s) raised %s: %s' % (qa.tolist(), type(e).__name__, str(e)[:120]))
        shp = _expected_shape(qa, dim)
        if np.shape(got) != shp:
            raise Failure('c10:logpdf-shape', 'logpdf of a query of shape %s (dim %d) has shape %s, expected %s' % (qa.shape, dim, np.shape(got), shp))
        g = np.atleast_1d(np.asarray(got, dtype=float))
        for r in range(len(rows)):
            if not ins[r]:
                if not (np.isinf(g[r]) and g[r] < 0):
                    raise Failure('c10:logpdf-not-minus-inf-outside', 'row %s is outside the bounds but logpdf = %r' % (rows[r].tolist(), float(g[r])))
            elif not _close(g[r], want[r]):
                on = bool(np.any((rows[r] == lo) | (rows[r] == hi)))
                raise Failure('c10:logpdf-value-%s' % ('on-boundary' if on else 'inside'),
                              'row %s inside the bounds: logpdf = %r, log Phi((h-m)/sd) + log prior = %r' % (rows[r].tolist(), float(g[r]), float(want[r])))
        if not _close(np.atleast_1d(pdf), np.exp(np.atleast_1d(np.asarray(got, dtype=float)))):
            raise Failure('c10:pdf-not-exp-logpdf', 'pdf(%s) = %s, exp(logpdf) = %s' % (qa.tolist(), np.atleast_1d(pdf).tolist(), np.exp(g).tolist()))
        # analytic gradient vs central difference at interior rows
        eps = 1e-5
        interior = np.all((rows >= lo + 1e-3) & (rows <= hi - 1e-3), axis=1)
        if interior.all():
            try:
                grad = np.asarray(post.gradient_logpdf(qa), dtype=float)
            except Exception as e:
                if isinstance(e, native.NativeTimeout):
                    raise
                raise Failure('c10:gradient-raises-%s' % type(e).__name__, 'gradient_logpdf(%s) raised %s: %s' % (qa.tolist(), type(e).__name__, str(e)[:120]))
            gshape = (dim,) if shp == () else (len(rows), dim)
            if grad.shape != gshape:
                raise Failure('c10:gradient-shape', 'gradient_logpdf of a query of shape %s (dim %d) has shape %s, expected %s' % (qa.shape, dim, grad.shape, gshape))
            grad = grad.reshape((-1, dim))
            for r in range(len(rows)):
                for c in range(dim):
                    e = np.zeros(dim)
                    e[c] = eps
                    num = (float(np.ravel(post.logpdf((rows[r] + e)[None, :]))[0]) - float(np.ravel(post.logpdf((rows[r] - e)[None, :]))[0])) / (2 * eps)
                    if abs(num - grad[r, c]) > 2e-4 * (1 + abs(num)):
                        raise Failure('c10:gradient-differs-from-central-difference',
                                      'row %s coordinate %d: gradient_logpdf = %r, central difference of logpdf = %r' % (rows[r].tolist(), c, float(grad[r, c]), num))


def _shim_float(x=0.0):
    a = np.asarray(x)
    if a.ndim >= 1 and a.size == 1:
        return builtins.float(a.reshape(-1)[0])
    return builtins.float(x)


def run_script(script, shim=False, seconds=90):
    """-> None if the property holds on the script, else dict(signature, what, at).  A script that runs out of time is INCONCLUSIVE
    (dict with inconclusive=True: machine load; never reported as a failure).  A NativeTimeout that fires inside GPyRegression.optimize's
    `try` surfaces as the AttributeError of its `except np.linalg.linalg.LinAlgError` clause (numpy 2.x has no np.linalg.linalg): also a timeout."""
    gpr, post_mod = _mods()
    if shim:
        gpr.float = _shim_float
    model = None
    want_X = want_Y = None
    state = dict(fast_used=False, changed=False)      # stale-cache route = a fast-path call, then an evidence / hyper-parameter change
    step = -1
    try:
        with native.time_limit(seconds):
            for step, op in enumerate(script):
                k = op[0]
                if k == 'new':
                    dim, bounds, iters = op[1:4]
                    kind = op[4] if len(op) > 4 else None
                    names = ['p%d' % i for i in range(dim)]
                    kw = {}
                    if kind == 'matern':
                        import GPy
                        kw['kernel'] = GPy.kern.Matern32(input_dim=dim)
                    elif kind == 'noise':
                        kw['noise_var'] = 0.1
                    model = gpr.GPyRegression(parameter_names=names, bounds={n_: tuple(b) for n_, b in zip(names, bounds)}, max_opt_iters=iters, **kw)
                    want_X, want_Y = np.zeros((0, dim)), np.zeros((0, 1))
                elif k == 'update':
                    X, Y = np.array(op[1], dtype=float), np.array(op[2], dtype=float)
                    model.update(X, Y, bool(op[3]))
                    want_X = np.concatenate([want_X, X.reshape((-1, model.input_dim))])
                    want_Y = np.concatenate([want_Y, Y.reshape((-1, 1))])
                    state['changed'] = True
                    if not (np.array_equal(np.asarray(model.X), want_X) and np.array_equal(np.asarray(model.Y), want_Y)):
                        raise Failure('c10:evidence-order', 'after update the evidence is not old ++ new in order: X = %s, expected %s' %
                                      (np.asarray(model.X).ravel()[:6].tolist(), want_X.ravel()[:6].tolist()))
                    if model.n_evidence != len(want_X):
                        raise Failure('c10:evidence-count', 'n_evidence = %r, expected %d' % (model.n_evidence, len(want_X)))
                elif k == 'optimize':
                    model.optimize()
                    state['changed'] = True
                elif k in ('optimize-fails', 'update-optimize-fails'):
                    def failing(*a, **kw):
                        raise np.linalg.LinAlgError('not positive definite, even with jitter.')
                    if k == 'optimize-fails':
                        object.__setattr__(model._gp, 'optimize', failing)
                        try:
                            model.optimize()
                        finally:
                            object.__delattr__(model._gp, 'optimize')
                    else:
                        X, Y = np.array(op[1], dtype=float), np.array(op[2], dtype=float)
                        make = model._make_gpy_instance

                        def make_failing(*a, **kw):
                            g = make(*a, **kw)
                            object.__setattr__(g, 'optimize', failing)
                            return g
                        model._make_gpy_instance = make_failing
                        want_X = np.concatenate([want_X, X.reshape((-1, model.input_dim))])
                        want_Y = np.concatenate([want_Y, Y.reshape((-1, 1))])
                        try:
                            model.update(X, Y, True)
                        finally:
                            del model._make_gpy_instance
                            if 'optimize' in model._gp.__dict__:
                                object.__delattr__(model._gp, 'optimize')
                    state['changed'] = True
                    if not (np.array_equal(np.asarray(model.X), want_X) and np.array_equal(np.asarray(model.Y), want_Y)):
                        raise Failure('c10:evidence-after-failed-optimize', 'after a failed hyper-parameter optimisation the evidence is not old ++ new')
                elif k == 'sampling':
                    model.is_sampling = bool(op[1])
                elif k == 'predict':
                    _check_predict(model, op[1], state['fast_used'] and state['changed'])
                    if model.is_sampling:
                        state.update(fast_used=True, changed=False)
                elif k == 'posterior':
                    _check_posterior(post_mod, model, op[1], op[2])
                    if model.is_sampling:
                        state.update(fast_used=True, changed=False)
                else:
                    raise ValueError('unknown op %r' % (k,))
    except Failure as f:
        return dict(signature=f.sig, what=('[F12 shimmed in-process] ' if shim else '') + f.what, at=step)
    except native.NativeTimeout as e:
        return dict(signature='c10:timeout', what=str(e), at=step, inconclusive=True)
    except Exception as e:
        ctx = e
        while ctx is not None:
            if isinstance(ctx, native.NativeTimeout):
                return dict(signature='c10:timeout', what=str(ctx), at=step, inconclusive=True)
            ctx = ctx.__context__
        return dict(signature='c10:%s-raises-%s' % (script[step][0] if 0 <= step < len(script) else 'script', type(e).__name__),
                    what='%s raised %s: %s' % (script[step][0] if 0 <= step < len(script) else 'script', type(e).__name__, str(e)[:160]), at=step)
    finally:
        if shim and 'float' in gpr.__dict__:
            del gpr.float
    return None


def replay_input(inp):
    """True iff the property HOLDS on this input (used by --replay)"""
    f = run_script(inp['script'], shim=bool(inp.get('shim')))
    return f is None or bool(f.get('inconclusive'))


# ---------------------------------------------------------------------------------------------- script generation
def _queries(rs, dim, bounds, single_row):
    lo = np.array([b[0] for b in bounds], dtype=float)
    hi = np.array([b[1] for b in bounds], dtype=float)
    inside = lambda: (lo + (hi - lo) * (0.05 + 0.9 * rs.rand(dim)))
    out = []
    p = inside()
    out.append(p[None, :].tolist())                       # 2-D, one row
    out.append(p.tolist() if dim > 1 else [float(p[0])])   # 1-D: a point (dim > 1) / a batch of one (dim = 1)
    if dim == 1:
        out.append(float(p[0]))                           # scalar
    b = inside()
    c = rs.randint(dim)
    b[c] = lo[c] if rs.rand() < 0.5 else hi[c]            # exactly on the boundary: inside (closed box)
    out.append(b[None, :].tolist())
    o = inside()
    c = rs.randint(dim)
    o[c] = (lo[c] - 1e-9) if rs.rand() < 0.5 else (hi[c] + 1e-9)
    out.append(o[None, :].tolist())                       # just outside
    if not single_row:
        rows = np.array([inside(), o, inside(), b])
        out.append(rows.tolist())                         # 2-D batch mixing inside / outside / boundary rows
        if dim == 1:
            out.append(rows[:, 0].tolist())               # 1-D batch
        out.append(np.array([o, o + 1.0]).tolist())       # all rows outside
    return out


def make_script(rs, dim, kernel=None):
    bounds = [[float(-1 - rs.rand()), float(1 + 2 * rs.rand())] for _ in range(dim)]
    lo = np.array([b[0] for b in bounds])
    hi = np.array([b[1] for b in bounds])
    pts = lambda n: (lo + (hi - lo) * rs.rand(n, dim))
    fy = lambda X: (np.sum((X - 0.2) ** 2, axis=1) + 0.1 * rs.randn(len(X)) + 1.0)
    script = [['new', dim, bounds, int(rs.randint(2, 6)), kernel]]
    X = pts(int(rs.randint(3, 9)))
    script.append(['update', X.tolist(), fy(X).tolist(), False])
    h = float(np.percentile(fy(X), 30))
    q = pts(1)
    script.append(['predict', q.tolist()])
    script.append(['posterior', h, _queries(rs, dim, bounds, False)])
    script.append(['posterior', 0, _queries(rs, dim, bounds, False)[:2]])          # threshold exactly zero (log 1 on a log discrepancy), int and float
    script.append(['posterior', 0.0, _queries(rs, dim, bounds, False)[:2]])
    script += [['sampling', True], ['predict', q.tolist()], ['predict', pts(1).tolist()], ['posterior', h, _queries(rs, dim, bounds, True)]]
    for _ in range(int(rs.randint(1, 4))):
        script.append(['sampling', False])
        if rs.rand() < 0.5:
            script.append(['predict', pts(1).tolist()])           # a slow-path predict in between clears the flag (the code's own refresh route)
        kind = rs.randint(3)
        Xn = pts(int(rs.randint(1, 4)))
        if kind == 0:
            script.append(['update', Xn.tolist(), fy(Xn).tolist(), False])
        elif kind == 1:
            script.append(['update', Xn.tolist(), fy(Xn).reshape((-1, 1)).tolist(), True])
        else:
            script.append(['optimize'])
        script += [['sampling', True], ['predict', pts(1).tolist()], ['posterior', h, _queries(rs, dim, bounds, True)]]
    script.append(['sampling', False])
    script.append(['posterior', h, _queries(rs, dim, bounds, False)])
    # GPy's numerical failure mode during hyper-parameter optimisation must be absorbed
    Xn = pts(2)
    script += [['optimize-fails'], ['predict', pts(1).tolist()], ['update-optimize-fails', Xn.tolist(), fy(Xn).tolist()], ['sampling', True], ['predict', pts(1).tolist()],
               ['sampling', False]]
    return script


def canonical(kind, dim=2, seed=0):
    """the replay scripts of DESIGN 6: F12 (enter the fast path) and F13 (evidence / hyper-parameters change while the cache is marked valid)"""
    rs = np.random.RandomState(seed)
    bounds = [[0.0, 1.0]] * dim
    X = rs.rand(5, dim)
    Y = (np.sum((X - 0.3) ** 2, axis=1) + 1.0)
    q = rs.rand(1, dim).tolist()
    if kind == 'threshold0':
        return [['new', dim, bounds, 5], ['update', X.tolist(), Y.tolist(), False], ['posterior', 0, [q]], ['posterior', 0.0, [q]], ['posterior', 0.5, [q]]]
    if kind == 'optimize-fails':
        return [['new', dim, bounds, 5], ['update', X.tolist(), Y.tolist(), False], ['optimize-fails'], ['predict', q]]
    if kind == 'update-optimize-fails':
        Xn = rs.rand(2, dim)
        return [['new', dim, bounds, 5], ['update', X.tolist(), Y.tolist(), False],
                ['update-optimize-fails', Xn.tolist(), (np.sum((Xn - 0.3) ** 2, axis=1) + 1.0).tolist()], ['predict', q]]
    s = [['new', dim, bounds, 5], ['update', X.tolist(), Y.tolist(), False], ['sampling', True], ['predict', q]]
    if kind == 'enter':
        return s
    s.append(['sampling', False])
    if kind == 'update':
        Xn = rs.rand(1, dim)
        s.append(['update', Xn.tolist(), (np.sum((Xn - 0.3) ** 2, axis=1) + 1.0).tolist(), False])
    else:
        s.append(['optimize'])
    s += [['sampling', True], ['predict', q]]
    return s


def replay_script(script):
    """run without the shim; if what fails is F12's TypeError before the end of the script, look behind it with the shim"""
    f = run_script(script)
    if f is not None and f.get('inconclusive'):
        f = None
    if f is not None and 'TypeError' in f['signature'] and f['at'] < len(script) - 1:
        f2 = run_script(script, shim=True)
        if f2 is not None and not f2.get('inconclusive'):
            return f2, True
    return f, False


def run(tier='quick', seed=0, first_failure_only=False):
    per_dim = 4 if tier == 'quick' else 20
    cases = nontrivial = skipped = 0
    failures, seen = [], set()
    bound = 'dims 1-3, %d random scripts per dim (seed %d), 3-8 + up to 3x(1-3) evidence points, max_opt_iters <= 5' % (per_dim, seed)
    rule = 'cases = predict / posterior / update checks executed; non-trivial = fast-path checks that follow an update/optimize (cache-staleness route)'

    def note(f, script, shim):
        if f['signature'] in seen:
            return
        seen.add(f['signature'])
        failures.append(dict(signature=f['signature'], what=f['what'], input=dict(script=script, shim=shim, failed_at_op=f['at'])))
    f12 = False
    scripts = []
    for dim in (1, 2, 3):
        for t in range(per_dim):
            rs = np.random.RandomState(1000 * seed + 100 * dim + t)
            scripts.append(make_script(rs, dim, kernel=(None if t % 4 != 3 else ('noise' if dim == 2 else 'matern'))))
    for script in scripts:
        f = run_script(script)
        n_checks = sum(1 for op in script if op[0] in ('predict', 'posterior', 'update', 'optimize-fails', 'update-optimize-fails'))
        if f is None:
            cases += n_checks
            k = 0
            for i, op in enumerate(script):
                if op[0] in ('update', 'optimize') and i > 2:
                    k += 1
            nontrivial += 2 * k
            continue
        if f.get('inconclusive'):
            skipped += 1
            continue
        cases += sum(1 for op in script[:f['at'] + 1] if op[0] in ('predict', 'posterior', 'update'))
        note(f, script, False)
        if 'TypeError' in f['signature']:
            f12 = True
        if first_failure_only:
            break
    if f12 and not first_failure_only:
        # look behind F12 (see module docstring): same scripts with the in-process scalar-extraction shim
        for script in scripts[:: max(1, len(scripts) // 6)]:
            f = run_script(script, shim=True)
            cases += 1
            if f is not None and not f.get('inconclusive'):
                note(f, script, True)
    if skipped:
        bound += '; %d script(s) ran out of time and were skipped (inconclusive)' % skipped
    return dict(name='gp-fast-vs-slow+posterior', bound=bound, rule=rule, cases=cases, nontrivial=nontrivial, failures=failures)
