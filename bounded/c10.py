"""Bounded stand-in / replay vehicle for C10 on the REAL code (GPyRegression + BolfiPosterior of the tree under analysis).

A case is a SCRIPT (JSON-able list of ops) run against one GPyRegression instance:
  ['new', dim, bounds, max_opt_iters, k]   GPyRegression(parameter_names, bounds, max_opt_iters=...); k = None (default kernel) | 'matern'
                                           (kernel=GPy.kern.Matern32) | 'noise' (noise_var=0.1): the last two must never take the fast path
  ['update', X, Y, optimize]               .update(np.array(X), np.array(Y), optimize)          -> evidence-order check
  ['optimize']                             .optimize()
  ['optimize-fails'] / ['update-optimize-fails', X, Y]
                                           .optimize() / .update(X, Y, optimize=True) while the GPy model's optimize() raises
                                           np.linalg.LinAlgError (GPy's numerical failure mode, injected on the instance): no exception may
                                           escape, the evidence must be intact (old ++ new) and the surrogate must stay usable
  ['sampling', flag]                       .is_sampling = flag
  ['predict', q]                           .predict(q) and .predictive_gradients(q) must equal GPy's own answers for the CURRENT _gp
                                           (reference: model._gp.predict / predictive_gradients called directly)
  ['posterior', h, queries]                BolfiPosterior(model, threshold=h, prior=P): .threshold == h (h = 0 and 0.0 included); logpdf = log Phi((h-m)/sqrt(v)) + log prior inside the
                                           bounds (m, v from GPy directly), -inf outside, closed on the boundary, answer shapes;
                                           gradient_logpdf vs central difference of logpdf at interior points
  ['query', api, q]                        HISTORY op: one of predict / predict_mean / predict_var / predictive_gradients / predictive_gradient_mean (skipped if the
                                           class has no such method) at ONE point q, compared with GPy's own answer for the CURRENT _gp; the failure signature
                                           records the last state-changing operation and whether q had been queried before it (memo / cache staleness route)
  ['copy'] / ['swap']                      model.copy() becomes the surrogate under test (the original is kept) / switch back to the other object
  ['tails', points, targets, grad_zmin]    TAIL op: for every target (a number z: threshold := mean(p0) + z * sd(p0) of GPy's noisy prediction at the first point;
                                           or ['h', value]: that threshold) a BolfiPosterior is built and _unnormalized_loglikelihood / logpdf at the in-bounds
                                           points (each alone as 2-D row and as point / scalar, and all together in one batch with an outside row) must equal
                                           scipy.special.log_ndtr((h - mean)/sd) (+ log prior) with a RELATIVE tolerance and be finite; the analytic gradient of
                                           the log-likelihood is compared with phi/Phi (evaluated as exp(logpdf - log_ndtr)) * dz/dx from GPy's gradients at the
                                           rows whose z >= grad_zmin
Oracles are independent of elfi's fast path.  `shim=True` runs the script with the module-level name `float` of gpy_regression.py bound
to a scalar extraction that accepts 1-element arrays (repairs defect F12 IN-PROCESS, nothing is written) so that what lies behind F12
(the stale-cache defect F13) can be replayed on a tree where F12 is still open; such inputs carry "shim": true.
Bound (quick): dims 1-3, 4 random scripts per dim, evidence sets of 3-8 points, 1-3 interleaved updates/optimisations of 1-3 points
(max_opt_iters <= 5), queries inside / outside / on the bounds.
History stand-in (run_history): ONE surrogate per dim (1, 2), max_opt_iters 12 (successive optimisations keep moving the hyper-parameters; the evidence grows in
between), kept in the sampling phase; every pair (update(optimize=False) | update(optimize=True) | optimize() | leave + re-enter the sampling phase | copy()) x
(predict | predict_mean | predict_var | predictive_gradients | predictive_gradient_mean | BolfiPosterior.logpdf + gradient_logpdf): the point is queried through
every API, the operation runs, the SAME point is the first query after it through the API under test, then two other earlier points and a fresh point through all.
Tail stand-in (run_tails): dims 1-2, z in {-1000, -100, -40, -38.5, -37, -30, -10, -1, 0, 1, 10, 40} by choice of the threshold, plus a near-deterministic
(optimised, noise variance ~1e-7) surrogate with thresholds at / below the smallest discrepancy queried at the corners of the box; slow and fast path."""
import builtins
import contextlib
import math

import numpy as np

from pyvc import native

TOL = 1e-6
APIS = ('predict', 'predict_mean', 'predict_var', 'predictive_gradients', 'predictive_gradient_mean')
GRAD_TAIL_ZMIN = -1000      # the gradient is checked over the whole tail range (the unfixed tree returned nan / -inf for z < about -38: fix in /repo, see KNOWN_FINDINGS.jsonl)


def _one_thread():
    """tiny matrices: BLAS threads only fight over a busy machine (94 s -> 4 s for the quick tier when the load is high)"""
    try:
        from threadpoolctl import threadpool_limits
        return threadpool_limits(limits=1)
    except Exception:
        return contextlib.nullcontext()


def _mods():
    gpr = native.import_module('elfi.methods.bo.gpy_regression')
    post = native.import_module('elfi.methods.posteriors')
    return gpr, post


class Prior:
    """independent normal prior with ModelPrior's answer-shape convention"""

    def __init__(self, dim, loc=0.3, scale=1.5):
        self.dim, self.loc, self.scale = dim, loc, scale

    def _rows(self, x):
        x = np.asanyarray(x, dtype=float)
        return x.ndim, x.reshape((-1, self.dim))

    def logpdf(self, x):
        nd, r = self._rows(x)
        v = np.sum(-0.5 * ((r - self.loc) / self.scale) ** 2 - math.log(self.scale * math.sqrt(2 * math.pi)), axis=1)
        return v[0] if (nd == 0 or (nd == 1 and self.dim > 1)) else v

    def rvs(self, size=None, random_state=None):
        rs = random_state or np.random
        return self.loc + self.scale * rs.randn(size or 1, self.dim)

    def gradient_logpdf(self, x):
        nd, r = self._rows(x)
        g = -(r - self.loc) / self.scale ** 2
        return g[0] if (nd == 0 or (nd == 1 and self.dim > 1)) else g


def _log_phi(z):
    from scipy.special import log_ndtr
    return log_ndtr(z)


class Failure(Exception):
    def __init__(self, sig, what):
        Exception.__init__(self, what)
        self.sig, self.what = sig, what


def _close(a, b, tol=TOL):
    a, b = np.asarray(a, dtype=float), np.asarray(b, dtype=float)
    if a.shape != b.shape:
        return False
    return bool(np.all(np.abs(a - b) <= tol * (1 + np.abs(b))))


def _check_predict(model, q, after_change):
    q = np.asarray(q, dtype=float)
    gp = model._gp
    ref_m, ref_v = gp.predict(q.reshape((-1, model.input_dim)))
    ref_gm, ref_gv = gp.predictive_gradients(q.reshape((-1, model.input_dim)))
    ref_gm = ref_gm[:, :, 0]
    tag = 'fast' if (model.is_sampling and getattr(model, '_kernel_is_default', False)) else ('sampling-non-default-kernel' if model.is_sampling else 'slow')
    try:
        m, v = model.predict(q)
        gm, gv = model.predictive_gradients(q)
    except Exception as e:
        if isinstance(e, native.NativeTimeout):
            raise
        stale = after_change and model.is_sampling
        raise Failure('c10:%s-path-raises-%s%s' % (tag, type(e).__name__, '-after-evidence-change' if stale else ''),
                      '%s path: predict/predictive_gradients raised %s: %s' % (tag, type(e).__name__, str(e)[:120]))
    for name, got, ref in (('mean', m, ref_m), ('var', v, ref_v), ('grad_mean', gm, ref_gm), ('grad_var', gv, ref_gv)):
        if not _close(got, ref):
            raise Failure('c10:%s-path-%s-differs-from-GPy%s' % (tag, name, '-after-evidence-change' if (after_change and model.is_sampling) else ''),
                          '%s path: %s = %s, GPy on the current model gives %s' % (tag, name, np.asarray(got).ravel()[:4].tolist(), np.asarray(ref).ravel()[:4].tolist()))


def _expected_shape(q, dim):
    q = np.asarray(q, dtype=float)
    if q.ndim == 0 or (q.ndim == 1 and dim > 1):
        return ()
    return (q.reshape((-1, dim)).shape[0],)


def _check_posterior(post_mod, model, h, queries):
    dim = model.input_dim
    prior = Prior(dim)
    post = post_mod.BolfiPosterior(model, threshold=h, prior=prior, n_inits=2, max_opt_iters=20)
    try:
        same = float(post.threshold) == float(h)
    except Exception:
        same = False
    if not same:
        raise Failure('c10:threshold-not-the-given-one', 'BolfiPosterior(model, threshold=%r): the posterior uses threshold %r' % (h, post.threshold))
    lo = np.array([b[0] for b in model.bounds], dtype=float)
    hi = np.array([b[1] for b in model.bounds], dtype=float)
    for q in queries:
        qa = np.asarray(q, dtype=float)
        rows = qa.reshape((-1, dim))
        ins = np.all((rows >= lo) & (rows <= hi), axis=1)
        want = np.full(len(rows), -np.inf)
        if ins.any():
            m, v = model._gp.predict(rows[ins])
            want[ins] = _log_phi((h - m[:, 0]) / np.sqrt(v[:, 0])) + np.atleast_1d(prior.logpdf(rows[ins]))
        try:
            got = post.logpdf(qa)
            pdf = post.pdf(qa)
        except Exception as e:
            if isinstance(e, native.NativeTimeout):
                raise
            raise Failure('c10:logpdf-raises-%s' % type(e).__name__, 'logpdf(%s) raised %s: %s' % (qa.tolist(), type(e).__name__, str(e)[:120]))
        shp = _expected_shape(qa, dim)
        if np.shape(got) != shp:
            raise Failure('c10:logpdf-shape', 'logpdf of a query of shape %s (dim %d) has shape %s, expected %s' % (qa.shape, dim, np.shape(got), shp))
        g = np.atleast_1d(np.asarray(got, dtype=float))
        for r in range(len(rows)):
            if not ins[r]:
                if not (np.isinf(g[r]) and g[r] < 0):
                    raise Failure('c10:logpdf-not-minus-inf-outside', 'row %s is outside the bounds but logpdf = %r' % (rows[r].tolist(), float(g[r])))
            elif not _close(g[r], want[r]):
                on = bool(np.any((rows[r] == lo) | (rows[r] == hi)))
                raise Failure('c10:logpdf-value-%s' % ('on-boundary' if on else 'inside'),
                              'row %s inside the bounds: logpdf = %r, log Phi((h-m)/sd) + log prior = %r' % (rows[r].tolist(), float(g[r]), float(want[r])))
        if not _close(np.atleast_1d(pdf), np.exp(np.atleast_1d(np.asarray(got, dtype=float)))):
            raise Failure('c10:pdf-not-exp-logpdf', 'pdf(%s) = %s, exp(logpdf) = %s' % (qa.tolist(), np.atleast_1d(pdf).tolist(), np.exp(g).tolist()))
        # analytic gradient vs central difference at interior rows
        eps = 1e-5
        interior = np.all((rows >= lo + 1e-3) & (rows <= hi - 1e-3), axis=1)
        if interior.all():
            try:
                grad = np.asarray(post.gradient_logpdf(qa), dtype=float)
            except Exception as e:
                if isinstance(e, native.NativeTimeout):
                    raise
                raise Failure('c10:gradient-raises-%s' % type(e).__name__, 'gradient_logpdf(%s) raised %s: %s' % (qa.tolist(), type(e).__name__, str(e)[:120]))
            gshape = (dim,) if shp == () else (len(rows), dim)
            if grad.shape != gshape:
                raise Failure('c10:gradient-shape', 'gradient_logpdf of a query of shape %s (dim %d) has shape %s, expected %s' % (qa.shape, dim, grad.shape, gshape))
            grad = grad.reshape((-1, dim))
            for r in range(len(rows)):
                for c in range(dim):
                    e = np.zeros(dim)
                    e[c] = eps
                    num = (float(np.ravel(post.logpdf((rows[r] + e)[None, :]))[0]) - float(np.ravel(post.logpdf((rows[r] - e)[None, :]))[0])) / (2 * eps)
                    if abs(num - grad[r, c]) > 2e-4 * (1 + abs(num)):
                        raise Failure('c10:gradient-differs-from-central-difference',
                                      'row %s coordinate %d: gradient_logpdf = %r, central difference of logpdf = %r' % (rows[r].tolist(), c, float(grad[r, c]), num))


def _check_query(model, api, q, state):
    """one fast/slow-path API at ONE point against GPy on the same object -> False if the class has no such method"""
    if not hasattr(model, api):
        return False
    q = np.asarray(q, dtype=float).reshape((-1, model.input_dim))
    gp = model._gp
    if api.startswith('predict_') or api == 'predict':
        rm, rv = gp.predict(q)
        ref = {'predict': (('mean', rm), ('var', rv)), 'predict_mean': (('mean', rm),), 'predict_var': (('var', rv),)}[api]
    else:
        gm, gv = gp.predictive_gradients(q)
        gm = gm[:, :, 0]
        ref = (('grad_mean', gm), ('grad_var', gv)) if api == 'predictive_gradients' else (('grad_mean', gm),)
    key = q.tobytes()
    where = 'revisited' if key in state['seen_before_op'] else 'fresh'
    tag = 'fast' if (model.is_sampling and getattr(model, '_kernel_is_default', False)) else 'slow'
    ctx = '%s-path-%s-point-after-%s' % (tag, where, state['last_op'])
    try:
        got = getattr(model, api)(q)
    except Exception as e:
        if isinstance(e, native.NativeTimeout):
            raise
        raise Failure('c10:history-%s-raises-%s-%s' % (api, type(e).__name__, ctx), '%s(%s) raised %s: %s (%s)' % (api, q.tolist(), type(e).__name__, str(e)[:120], ctx))
    if not isinstance(got, tuple):
        got = (got,)
    if len(got) != len(ref):
        raise Failure('c10:history-%s-arity' % api, '%s returned %d values, expected %d' % (api, len(got), len(ref)))
    for (name, r), g in zip(ref, got):
        if not _close(g, r):
            raise Failure('c10:history-%s-%s-differs-from-GPy-%s' % (api, name, ctx),
                          '%s(%s): %s = %s, GPy on the same object gives %s (%s; %d state-changing operations so far)' %
                          (api, q.tolist(), name, np.asarray(g).ravel()[:4].tolist(), np.asarray(r).ravel()[:4].tolist(), ctx, state['n_ops']))
    state['seen'].add(key)
    return True


def _rel_close(a, b, rtol, atol):
    a, b = np.asarray(a, dtype=float), np.asarray(b, dtype=float)
    if a.shape != b.shape:
        return False
    with np.errstate(all='ignore'):
        fin = np.isfinite(a) & np.isfinite(b)
        return bool(np.all(np.where(fin, np.abs(a - b) <= rtol * np.abs(b) + atol, a == b)))


def _check_tails(post_mod, model, points, targets, grad_zmin, counts):
    """log density (and the gradient of the log-likelihood for z >= grad_zmin) far in the tails against scipy.special.log_ndtr, RELATIVE tolerance"""
    import scipy.stats as ss
    dim = model.input_dim
    prior = Prior(dim)
    gp = model._gp
    fast = bool(model.is_sampling and getattr(model, '_kernel_is_default', False))
    rtol = 1e-4 if fast else 1e-9          # the fast path's own mean / sd differ from GPy's in the last digits; z^2/2 amplifies a relative error of z twice
    P = np.asarray(points, dtype=float).reshape((-1, dim))
    lo = np.array([b[0] for b in model.bounds], dtype=float)
    hi = np.array([b[1] for b in model.bounds], dtype=float)
    if not np.all((P >= lo) & (P <= hi)):
        raise ValueError('tails: the points must lie inside the bounds')
    outside = (hi + 1.0)[None, :]
    m0, v0 = gp.predict(P[:1])
    for tgt in targets:
        h = float(tgt[1]) if isinstance(tgt, (list, tuple)) else float(m0[0, 0] + float(tgt) * np.sqrt(v0[0, 0]))
        post = post_mod.BolfiPosterior(model, threshold=h, prior=prior, n_inits=2, max_opt_iters=20)
        queries = [(P[r:r + 1], [r]) for r in range(len(P))]
        queries += [((P[r] if dim > 1 else P[r, 0]), [r]) for r in range(len(P))]         # a single point given 1-D (dim > 1) / as a scalar (dim = 1)
        if not fast:          # the fast path is specified for ONE query row (contracts/c10.py ASSUMPTIONS)
            queries.append((np.vstack([P[:1], outside, P[1:]]), [0, None] + list(range(1, len(P)))))
        for q, rows in queries:
            qa = np.asarray(q, dtype=float)
            ins = [r for r in rows if r is not None]
            m, v = gp.predict(P[ins])
            sd = np.sqrt(v[:, 0])
            z = (h - m[:, 0]) / sd
            want_ll = np.full(len(rows), -np.inf)
            want_ll[[i for i, r in enumerate(rows) if r is not None]] = _log_phi(z)
            want_lp = want_ll.copy()
            want_lp[[i for i, r in enumerate(rows) if r is not None]] += np.atleast_1d(prior.logpdf(P[ins]))
            counts['cases'] += 1
            counts['deep'] += int(np.sum(z < -38.5))
            for fn, want in (('_unnormalized_loglikelihood', want_ll), ('logpdf', want_lp)):
                try:
                    with np.errstate(all='ignore'):
                        got = np.atleast_1d(np.asarray(getattr(post, fn)(qa), dtype=float))
                except Exception as e:
                    if isinstance(e, native.NativeTimeout):
                        raise
                    raise Failure('c10:tail-%s-raises-%s' % (fn, type(e).__name__), '%s(%s) with threshold %r raised %s: %s' % (fn, qa.tolist(), h, type(e).__name__, str(e)[:120]))
                if got.shape != want.shape:
                    raise Failure('c10:tail-%s-shape' % fn, '%s of a query of shape %s has %s entries, expected %s' % (fn, qa.shape, got.shape, want.shape))
                for i, r in enumerate(rows):
                    if r is None:
                        if not (np.isinf(got[i]) and got[i] < 0):
                            raise Failure('c10:tail-%s-not-minus-inf-outside' % fn, 'row %d of %s is outside the bounds but %s = %r' % (i, qa.tolist(), fn, float(got[i])))
                        continue
                    zi_ = float(z[ins.index(r)])
                    side = 'lower' if zi_ < 0 else 'upper'
                    if not np.isfinite(got[i]):
                        raise Failure('c10:tail-%s-not-finite-inside-%s-tail' % (fn, side),
                                      '%s(%s) = %r at a point inside the bounds (threshold %r, z = (h - mean)/sd = %.6g): the definition log Phi(z)%s gives %r' %
                                      (fn, P[r].tolist(), float(got[i]), h, zi_, ' + log prior' if fn == 'logpdf' else '', float(want[i])))
                    if not _rel_close(got[i], want[i], rtol, 1e-12):
                        raise Failure('c10:tail-%s-value-%s-tail' % (fn, side),
                                      '%s(%s) = %r (threshold %r, z = %.6g): log Phi(z)%s = %r (relative tolerance %g)' %
                                      (fn, P[r].tolist(), float(got[i]), h, zi_, ' + log prior' if fn == 'logpdf' else '', float(want[i]), rtol))
        # gradient of the log-likelihood: phi(z)/Phi(z) * dz/dx, with dz/dx = -dmean/sd - (h - mean) dvar / (2 sd^3)
        m, v = gp.predict(P)
        gm, gv = gp.predictive_gradients(P)
        gm = gm[:, :, 0]
        sd = np.sqrt(v)
        z = (h - m) / sd
        sel = np.where(z[:, 0] >= grad_zmin)[0]
        if fast:
            sel = sel[:1]
        if len(sel):
            with np.errstate(all='ignore'):
                mills = np.exp(ss.norm.logpdf(z) - _log_phi(z))
                want_g = (mills * (-gm / sd - (h - m) * gv / (2.0 * sd ** 3)))[sel]
                try:
                    got_g = np.asarray(post._gradient_unnormalized_loglikelihood(P[sel]), dtype=float)
                except Exception as e:
                    if isinstance(e, native.NativeTimeout):
                        raise
                    raise Failure('c10:tail-gradient-raises-%s' % type(e).__name__, '_gradient_unnormalized_loglikelihood(%s) raised %s: %s' % (P[sel].tolist(), type(e).__name__, str(e)[:120]))
            counts['cases'] += 1
            if got_g.shape != want_g.shape:
                raise Failure('c10:tail-gradient-shape', 'gradient of the log-likelihood at %d points (dim %d) has shape %s' % (len(sel), dim, got_g.shape))
            if not _rel_close(got_g, want_g, 1e-3 if fast else 1e-6, 1e-9):
                bad = int(np.argmax(np.any(~(np.abs(got_g - want_g) <= (1e-3 if fast else 1e-6) * np.abs(want_g) + 1e-9), axis=1)))
                raise Failure('c10:tail-gradient-differs-from-derivative',
                              'gradient of the log-likelihood at %s (threshold %r, z = %.6g) = %s, phi(z)/Phi(z) * dz/dx = %s' %
                              (P[sel][bad].tolist(), h, float(z[sel[bad], 0]), got_g[bad].tolist(), want_g[bad].tolist()))


def _shim_float(x=0.0):
    a = np.asarray(x)
    if a.ndim >= 1 and a.size == 1:
        return builtins.float(a.reshape(-1)[0])
    return builtins.float(x)


def run_script(script, shim=False, seconds=90, stats=None):
    """-> None if the property holds on the script, else dict(signature, what, at).  A script that runs out of time is INCONCLUSIVE
    (dict with inconclusive=True: machine load; never reported as a failure).  A NativeTimeout that fires inside GPyRegression.optimize's
    `try` surfaces as the AttributeError of its `except np.linalg.linalg.LinAlgError` clause (numpy 2.x has no np.linalg.linalg): also a timeout."""
    gpr, post_mod = _mods()
    if shim:
        gpr.float = _shim_float
    model = None
    want_X = want_Y = None
    state = dict(fast_used=False, changed=False)      # stale-cache route = a fast-path call, then an evidence / hyper-parameter change
    state.update(seen=set(), seen_before_op=set(), last_op='start', n_ops=0, moved=0, absent=set(), tails=dict(cases=0, deep=0), other=None)
    if stats is not None:
        stats['state'] = state

    def changed(name, moved=True):
        state.update(last_op=name, n_ops=state['n_ops'] + 1, seen_before_op=set(state['seen']), changed=True)
        state['moved'] += 1 if moved else 0
    step = -1
    try:
        with native.time_limit(seconds), _one_thread():
            for step, op in enumerate(script):
                k = op[0]
                if k == 'new':
                    dim, bounds, iters = op[1:4]
                    kind = op[4] if len(op) > 4 else None
                    names = ['p%d' % i for i in range(dim)]
                    kw = {}
                    if kind == 'matern':
                        import GPy
                        kw['kernel'] = GPy.kern.Matern32(input_dim=dim)
                    elif kind == 'noise':
                        kw['noise_var'] = 0.1
                    model = gpr.GPyRegression(parameter_names=names, bounds={n_: tuple(b) for n_, b in zip(names, bounds)}, max_opt_iters=iters, **kw)
                    want_X, want_Y = np.zeros((0, dim)), np.zeros((0, 1))
                elif k == 'update':
                    X, Y = np.array(op[1], dtype=float), np.array(op[2], dtype=float)
                    model.update(X, Y, bool(op[3]))
                    want_X = np.concatenate([want_X, X.reshape((-1, model.input_dim))])
                    want_Y = np.concatenate([want_Y, Y.reshape((-1, 1))])
                    changed('update(optimize=%s)' % bool(op[3]))
                    if not (np.array_equal(np.asarray(model.X), want_X) and np.array_equal(np.asarray(model.Y), want_Y)):
                        raise Failure('c10:evidence-order', 'after update the evidence is not old ++ new in order: X = %s, expected %s' %
                                      (np.asarray(model.X).ravel()[:6].tolist(), want_X.ravel()[:6].tolist()))
                    if model.n_evidence != len(want_X):
                        raise Failure('c10:evidence-count', 'n_evidence = %r, expected %d' % (model.n_evidence, len(want_X)))
                elif k == 'optimize':
                    before = np.array(model._gp.param_array, dtype=float)
                    model.optimize()
                    after = np.array(model._gp.param_array, dtype=float)
                    changed('optimize()', moved=bool(np.max(np.abs(after - before) / (1e-12 + np.abs(before))) > 1e-3))
                elif k == 'copy':
                    state['other'] = (model, want_X, want_Y)
                    model = model.copy()
                    changed('copy()', moved=False)
                elif k == 'swap':
                    (model, want_X, want_Y), state['other'] = state['other'], (model, want_X, want_Y)
                    changed('switch-to-the-other-copy', moved=False)
                elif k == 'query':
                    if not _check_query(model, op[1], op[2], state):
                        state['absent'].add(op[1])
                elif k == 'tails':
                    _check_tails(post_mod, model, op[1], op[2], float(op[3]) if len(op) > 3 else GRAD_TAIL_ZMIN, state['tails'])
                elif k in ('optimize-fails', 'update-optimize-fails'):
                    def failing(*a, **kw):
                        raise np.linalg.LinAlgError('not positive definite, even with jitter.')
                    if k == 'optimize-fails':
                        object.__setattr__(model._gp, 'optimize', failing)
                        try:
                            model.optimize()
                        finally:
                            object.__delattr__(model._gp, 'optimize')
                    else:
                        X, Y = np.array(op[1], dtype=float), np.array(op[2], dtype=float)
                        make = model._make_gpy_instance

                        def make_failing(*a, **kw):
                            g = make(*a, **kw)
                            object.__setattr__(g, 'optimize', failing)
                            return g
                        model._make_gpy_instance = make_failing
                        want_X = np.concatenate([want_X, X.reshape((-1, model.input_dim))])
                        want_Y = np.concatenate([want_Y, Y.reshape((-1, 1))])
                        try:
                            model.update(X, Y, True)
                        finally:
                            del model._make_gpy_instance
                            if 'optimize' in model._gp.__dict__:
                                object.__delattr__(model._gp, 'optimize')
                    changed('failed-optimize')
                    if not (np.array_equal(np.asarray(model.X), want_X) and np.array_equal(np.asarray(model.Y), want_Y)):
                        raise Failure('c10:evidence-after-failed-optimize', 'after a failed hyper-parameter optimisation the evidence is not old ++ new')
                elif k == 'sampling':
                    if bool(op[1]) and not model.is_sampling:
                        state['seen_before_op'] = set(state['seen'])
                        if not state['last_op'].endswith('+enter-sampling-phase'):
                            state['last_op'] += '+enter-sampling-phase'
                    model.is_sampling = bool(op[1])
                elif k == 'predict':
                    _check_predict(model, op[1], state['fast_used'] and state['changed'])
                    state['seen'].add(np.asarray(op[1], dtype=float).reshape((-1, model.input_dim)).tobytes())
                    if model.is_sampling:
                        state.update(fast_used=True, changed=False)
                elif k == 'posterior':
                    _check_posterior(post_mod, model, op[1], op[2])
                    if model.is_sampling:
                        state.update(fast_used=True, changed=False)
                else:
                    raise ValueError('unknown op %r' % (k,))
    except Failure as f:
        return dict(signature=f.sig, what=('[F12 shimmed in-process] ' if shim else '') + f.what, at=step)
    except native.NativeTimeout as e:
        return dict(signature='c10:timeout', what=str(e), at=step, inconclusive=True)
    except Exception as e:
        ctx = e
        while ctx is not None:
            if isinstance(ctx, native.NativeTimeout):
                return dict(signature='c10:timeout', what=str(ctx), at=step, inconclusive=True)
            ctx = ctx.__context__
        return dict(signature='c10:%s-raises-%s' % (script[step][0] if 0 <= step < len(script) else 'script', type(e).__name__),
                    what='%s raised %s: %s' % (script[step][0] if 0 <= step < len(script) else 'script', type(e).__name__, str(e)[:160]), at=step)
    finally:
        if shim and 'float' in gpr.__dict__:
            del gpr.float
    return None


def replay_input(inp):
    """True iff the property HOLDS on this input (used by --replay)"""
    f = run_script(inp['script'], shim=bool(inp.get('shim')))
    return f is None or bool(f.get('inconclusive'))


# ---------------------------------------------------------------------------------------------- script generation
def _queries(rs, dim, bounds, single_row):
    lo = np.array([b[0] for b in bounds], dtype=float)
    hi = np.array([b[1] for b in bounds], dtype=float)
    inside = lambda: (lo + (hi - lo) * (0.05 + 0.9 * rs.rand(dim)))
    out = []
    p = inside()
    out.append(p[None, :].tolist())                       # 2-D, one row
    out.append(p.tolist() if dim > 1 else [float(p[0])])   # 1-D: a point (dim > 1) / a batch of one (dim = 1)
    if dim == 1:
        out.append(float(p[0]))                           # scalar
    b = inside()
    c = rs.randint(dim)
    b[c] = lo[c] if rs.rand() < 0.5 else hi[c]            # exactly on the boundary: inside (closed box)
    out.append(b[None, :].tolist())
    o = inside()
    c = rs.randint(dim)
    o[c] = (lo[c] - 1e-9) if rs.rand() < 0.5 else (hi[c] + 1e-9)
    out.append(o[None, :].tolist())                       # just outside
    if not single_row:
        rows = np.array([inside(), o, inside(), b])
        out.append(rows.tolist())                         # 2-D batch mixing inside / outside / boundary rows
        if dim == 1:
            out.append(rows[:, 0].tolist())               # 1-D batch
        out.append(np.array([o, o + 1.0]).tolist())       # all rows outside
    return out


def make_script(rs, dim, kernel=None):
    bounds = [[float(-1 - rs.rand()), float(1 + 2 * rs.rand())] for _ in range(dim)]
    lo = np.array([b[0] for b in bounds])
    hi = np.array([b[1] for b in bounds])
    pts = lambda n: (lo + (hi - lo) * rs.rand(n, dim))
    fy = lambda X: (np.sum((X - 0.2) ** 2, axis=1) + 0.1 * rs.randn(len(X)) + 1.0)
    script = [['new', dim, bounds, int(rs.randint(2, 6)), kernel]]
    X = pts(int(rs.randint(3, 9)))
    script.append(['update', X.tolist(), fy(X).tolist(), False])
    h = float(np.percentile(fy(X), 30))
    q = pts(1)
    script.append(['predict', q.tolist()])
    script.append(['posterior', h, _queries(rs, dim, bounds, False)])
    script.append(['posterior', 0, _queries(rs, dim, bounds, False)[:2]])          # threshold exactly zero (log 1 on a log discrepancy), int and float
    script.append(['posterior', 0.0, _queries(rs, dim, bounds, False)[:2]])
    script += [['sampling', True], ['predict', q.tolist()], ['predict', pts(1).tolist()], ['posterior', h, _queries(rs, dim, bounds, True)]]
    for _ in range(int(rs.randint(1, 4))):
        script.append(['sampling', False])
        if rs.rand() < 0.5:
            script.append(['predict', pts(1).tolist()])           # a slow-path predict in between clears the flag (the code's own refresh route)
        kind = rs.randint(3)
        Xn = pts(int(rs.randint(1, 4)))
        if kind == 0:
            script.append(['update', Xn.tolist(), fy(Xn).tolist(), False])
        elif kind == 1:
            script.append(['update', Xn.tolist(), fy(Xn).reshape((-1, 1)).tolist(), True])
        else:
            script.append(['optimize'])
        script += [['sampling', True], ['predict', pts(1).tolist()], ['posterior', h, _queries(rs, dim, bounds, True)]]
    script.append(['sampling', False])
    script.append(['posterior', h, _queries(rs, dim, bounds, False)])
    # GPy's numerical failure mode during hyper-parameter optimisation must be absorbed
    Xn = pts(2)
    script += [['optimize-fails'], ['predict', pts(1).tolist()], ['update-optimize-fails', Xn.tolist(), fy(Xn).tolist()], ['sampling', True], ['predict', pts(1).tolist()],
               ['sampling', False]]
    return script


def canonical(kind, dim=2, seed=0):
    """the replay scripts of DESIGN 6: F12 (enter the fast path) and F13 (evidence / hyper-parameters change while the cache is marked valid)"""
    rs = np.random.RandomState(seed)
    bounds = [[0.0, 1.0]] * dim
    X = rs.rand(5, dim)
    Y = (np.sum((X - 0.3) ** 2, axis=1) + 1.0)
    q = rs.rand(1, dim).tolist()
    if kind == 'threshold0':
        return [['new', dim, bounds, 5], ['update', X.tolist(), Y.tolist(), False], ['posterior', 0, [q]], ['posterior', 0.0, [q]], ['posterior', 0.5, [q]]]
    if kind == 'optimize-fails':
        return [['new', dim, bounds, 5], ['update', X.tolist(), Y.tolist(), False], ['optimize-fails'], ['predict', q]]
    if kind == 'update-optimize-fails':
        Xn = rs.rand(2, dim)
        return [['new', dim, bounds, 5], ['update', X.tolist(), Y.tolist(), False],
                ['update-optimize-fails', Xn.tolist(), (np.sum((Xn - 0.3) ** 2, axis=1) + 1.0).tolist()], ['predict', q]]
    s = [['new', dim, bounds, 5], ['update', X.tolist(), Y.tolist(), False], ['sampling', True], ['predict', q]]
    if kind == 'enter':
        return s
    s.append(['sampling', False])
    if kind == 'update':
        Xn = rs.rand(1, dim)
        s.append(['update', Xn.tolist(), (np.sum((Xn - 0.3) ** 2, axis=1) + 1.0).tolist(), False])
    else:
        s.append(['optimize'])
    s += [['sampling', True], ['predict', q]]
    return s


def replay_script(script):
    """run without the shim; if what fails is F12's TypeError before the end of the script, look behind it with the shim"""
    f = run_script(script)
    if f is not None and f.get('inconclusive'):
        f = None
    if f is not None and 'TypeError' in f['signature'] and f['at'] < len(script) - 1:
        f2 = run_script(script, shim=True)
        if f2 is not None and not f2.get('inconclusive'):
            return f2, True
    return f, False


def run(tier='quick', seed=0, first_failure_only=False):
    per_dim = 4 if tier == 'quick' else 20
    cases = nontrivial = skipped = 0
    failures, seen = [], set()
    bound = 'dims 1-3, %d random scripts per dim (seed %d), 3-8 + up to 3x(1-3) evidence points, max_opt_iters <= 5' % (per_dim, seed)
    rule = 'cases = predict / posterior / update checks executed; non-trivial = fast-path checks that follow an update/optimize (cache-staleness route)'

    def note(f, script, shim):
        if f['signature'] in seen:
            return
        seen.add(f['signature'])
        failures.append(dict(signature=f['signature'], what=f['what'], input=dict(script=script, shim=shim, failed_at_op=f['at'])))
    f12 = False
    scripts = []
    for dim in (1, 2, 3):
        for t in range(per_dim):
            rs = np.random.RandomState(1000 * seed + 100 * dim + t)
            scripts.append(make_script(rs, dim, kernel=(None if t % 4 != 3 else ('noise' if dim == 2 else 'matern'))))
    for script in scripts:
        f = run_script(script)
        n_checks = sum(1 for op in script if op[0] in ('predict', 'posterior', 'update', 'optimize-fails', 'update-optimize-fails'))
        if f is None:
            cases += n_checks
            k = 0
            for i, op in enumerate(script):
                if op[0] in ('update', 'optimize') and i > 2:
                    k += 1
            nontrivial += 2 * k
            continue
        if f.get('inconclusive'):
            skipped += 1
            continue
        cases += sum(1 for op in script[:f['at'] + 1] if op[0] in ('predict', 'posterior', 'update'))
        note(f, script, False)
        if 'TypeError' in f['signature']:
            f12 = True
        if first_failure_only:
            break
    if f12 and not first_failure_only:
        # look behind F12 (see module docstring): same scripts with the in-process scalar-extraction shim
        for script in scripts[:: max(1, len(scripts) // 6)]:
            f = run_script(script, shim=True)
            cases += 1
            if f is not None and not f.get('inconclusive'):
                note(f, script, True)
    if skipped:
        bound += '; %d script(s) ran out of time and were skipped (inconclusive)' % skipped
    return dict(name='gp-fast-vs-slow+posterior', bound=bound, rule=rule, cases=cases, nontrivial=nontrivial, failures=failures)


# ---------------------------------------------------------------------------------------------- history stand-in (one surrogate, every operation x every API)
HISTORY_OPS = ('update0', 'optimize', 'update1', 'reenter', 'copy')
HISTORY_APIS = APIS + ('posterior',)


def make_history(rs, dim, iters=12, apis=HISTORY_APIS, ops=HISTORY_OPS):
    bounds = [[float(-1 - rs.rand()), float(1 + 2 * rs.rand())] for _ in range(dim)]
    lo = np.array([b[0] for b in bounds])
    hi = np.array([b[1] for b in bounds])
    pts = lambda n: (lo + (hi - lo) * (0.02 + 0.96 * rs.rand(n, dim)))
    fy = lambda X: (np.sqrt(np.sum((X - 0.3) ** 2, axis=1)) + 0.05 * np.sin(7.0 * X[:, 0]) + 0.1 * rs.randn(len(X)) + 1.0)
    X = pts(8)
    Y = fy(X)
    h = float(np.percentile(Y, 30))
    script = [['new', dim, bounds, iters, None], ['update', X.tolist(), Y.tolist(), False], ['sampling', True]]
    revisit = [pts(1), pts(1), X[int(np.argmin(Y))][None, :]]          # the last one: the best evidence point (where a chain is started)

    def q(api, p):
        return ['posterior', h, [np.asarray(p).tolist()]] if api == 'posterior' else ['query', api, np.asarray(p).tolist()]
    for p in revisit:
        script += [q(a, p) for a in apis]
    k = 0
    for api in apis:
        for op in ops:
            x0 = revisit[k % len(revisit)]
            k += 1
            script += [q('posterior', x0)] + [q(a, x0) for a in apis if a != 'posterior' and a != api] + ([q(api, x0)] if api != 'posterior' else [])
            Xn = pts(int(rs.randint(1, 3)))
            if op == 'update0':
                script.append(['update', Xn.tolist(), fy(Xn).tolist(), False])
            elif op == 'update1':
                script.append(['update', Xn.tolist(), fy(Xn).reshape((-1, 1)).tolist(), True])
            elif op == 'optimize':
                script.append(['optimize'])
            elif op == 'reenter':
                script += [['sampling', False], ['sampling', True]]
            elif op == 'copy':
                script += [['copy'], ['optimize']]                          # the copy is re-optimised; afterwards the ORIGINAL is queried again
            script.append(q(api, x0))                                        # the first query after the operation: the point queried last before it
            fresh = pts(1)
            for p in [r for r in revisit if r is not x0] + [fresh]:
                script += [q(a, p) for a in apis]
            if op == 'copy':
                script += [['swap'], q(api, x0)] + [q(a, fresh) for a in apis]
    return script


def run_history(tier='quick', seed=0):
    dims = (1, 2) if tier == 'quick' else (1, 2, 3)
    cases = nontrivial = skipped = 0
    failures, seen, absent = [], set(), set()
    for dim in dims:
        for t in range(1 if tier == 'quick' else 3):
            script = make_history(np.random.RandomState(7000 * seed + 10 * dim + t), dim)
            st = {}
            f = run_script(script, stats=st, seconds=120)
            state = st.get('state', {})
            absent |= state.get('absent', set())
            upto = len(script) if f is None else f['at'] + 1
            if f is not None and f.get('inconclusive'):
                skipped += 1
                continue
            cases += sum(1 for op in script[:upto] if op[0] in ('query', 'posterior', 'update'))
            nontrivial += sum(1 for i, op in enumerate(script[:upto]) if op[0] in ('query', 'posterior') and i > 0 and script[i - 1][0] in ('update', 'optimize', 'sampling', 'swap'))
            if f is not None and f['signature'] not in seen:
                seen.add(f['signature'])
                failures.append(dict(signature=f['signature'], what=f['what'], input=dict(script=script, shim=False, failed_at_op=f['at'])))
    bound = ('dims %s, one surrogate each (seed %d), 8 + 30 x (0-2) evidence points, max_opt_iters 12, sampling phase; operations %s x first query after the operation at the '
             'point queried last before it through %s, then 2 earlier points + 1 fresh point through all' % ('-'.join(map(str, dims)), seed, ' | '.join(HISTORY_OPS), ' | '.join(HISTORY_APIS)))
    if absent:
        bound += '; not offered by the class (skipped): ' + ', '.join(sorted(absent))
    if skipped:
        bound += '; %d script(s) ran out of time and were skipped (inconclusive)' % skipped
    return dict(name='gp-history-on-one-surrogate', bound=bound,
                rule='cases = API / posterior / evidence-order checks executed; non-trivial = first query after an operation, at the point queried last before it',
                cases=cases, nontrivial=nontrivial, failures=failures)


# ---------------------------------------------------------------------------------------------- tail stand-in
TAIL_Z = (-1000.0, -100.0, -40.0, -38.5, -37.0, -30.0, -10.0, -1.0, 0.0, 1.0, 10.0, 40.0)


def make_tails(rs, dim, natural=False):
    bounds = [[float(-1 - rs.rand()), float(1 + 2 * rs.rand())] for _ in range(dim)]
    lo = np.array([b[0] for b in bounds])
    hi = np.array([b[1] for b in bounds])
    pts = lambda n: (lo + (hi - lo) * (0.02 + 0.96 * rs.rand(n, dim)))
    X = pts(10)
    if not natural:
        Y = np.sum((X - 0.2) ** 2, axis=1) + 0.1 * rs.randn(len(X)) + 1.0
        P = pts(3)
        return [['new', dim, bounds, 5, None], ['update', X.tolist(), Y.tolist(), False], ['tails', P.tolist(), list(TAIL_Z), GRAD_TAIL_ZMIN],
                ['sampling', True], ['tails', P[::-1].tolist(), list(TAIL_Z), GRAD_TAIL_ZMIN], ['sampling', False]]
    # near-deterministic discrepancy, optimised surrogate (noise variance -> ~1e-7), strict thresholds, corners of the box (far from the optimum)
    f = lambda X: np.sqrt(np.sum((X - 0.3) ** 2, axis=1)) + 0.1
    Y = f(X)
    corners = np.array([[lo[c] if (i >> c) & 1 else hi[c] for c in range(dim)] for i in range(2 ** dim)])
    P = np.vstack([corners, pts(1)])
    hs = [['h', float(np.min(Y))], ['h', float(np.min(Y)) - 0.05], ['h', float(np.log(1e-3))]]
    return [['new', dim, bounds, 60, None], ['update', X.tolist(), Y.tolist(), True], ['optimize'], ['tails', P.tolist(), hs, GRAD_TAIL_ZMIN],
            ['sampling', True], ['tails', P.tolist(), hs, GRAD_TAIL_ZMIN], ['sampling', False]]


def run_tails(tier='quick', seed=0):
    cases = nontrivial = skipped = 0
    failures, seen = [], set()
    dims = (1, 2) if tier == 'quick' else (1, 2, 3)
    for dim in dims:
        for natural in (False, True):
            script = make_tails(np.random.RandomState(9000 * seed + 10 * dim + int(natural)), dim, natural)
            st = {}
            f = run_script(script, stats=st, seconds=120)
            if f is not None and f.get('inconclusive'):
                skipped += 1
                continue
            tl = st.get('state', {}).get('tails', {})
            cases += tl.get('cases', 0)
            nontrivial += tl.get('deep', 0)
            if f is not None and f['signature'] not in seen:
                seen.add(f['signature'])
                failures.append(dict(signature=f['signature'], what=f['what'], input=dict(script=script, shim=False, failed_at_op=f['at'])))
    bound = ('dims %s (seed %d): thresholds placed at z = (h - mean)/sd in %s of 3 in-bounds points (10 evidence points, heuristic hyper-parameters) + an optimised '
             'near-deterministic surrogate with thresholds min(y), min(y) - 0.05, log(1e-3) at the corners of the box; slow and fast path; 2-D row / point / scalar / '
             'batch-with-an-outside-row queries; oracle scipy.special.log_ndtr + GPy, relative tolerance 1e-9 (slow path) / 1e-4 (fast path); gradient of the '
             'log-likelihood compared for z >= %g only' % ('-'.join(map(str, dims)), seed, list(TAIL_Z), GRAD_TAIL_ZMIN))
    if skipped:
        bound += '; %d script(s) ran out of time and were skipped (inconclusive)' % skipped
    return dict(name='posterior-log-density-in-the-tails', bound=bound,
                rule='cases = (threshold, query) pairs checked; non-trivial = in-bounds rows with z < -38.5 (Phi(z) underflows to 0 in double precision, log Phi(z) is finite)',
                cases=cases, nontrivial=nontrivial, failures=failures)
