"""Bounded stand-in / replay vehicle for C11 on the REAL code (native floats).

Parts (each a list of cases; `check(inp)` runs one case and returns None or a failure text, so every failing input replays):
  minimize        bo/utils.minimize with `method` = a callable that returns ARBITRARY end points (far outside, on, inside the box):
                  returned location inside the bounds and equal to the clipped end point of the best run; value = min of the values;
                  start points inside the bounds (uniform and prior-drawn); plus real L-BFGS-B runs
  add-noise       AcquisitionBase._add_noise / acquire with scalar / per-parameter / zero / no noise on points incl. the box corners
  uniform         UniformAcquisition.acquire
  rules           ExpIntVar (grid / importance), MaxVar, LCBSC acquire(n, t) called directly on a fitted surrogate: exactly n points inside the bounds
  randmaxvar      RandMaxVar.acquire (metropolis, nuts and the default sampler): no crash, exactly n points or ValueError; inside the bounds when the prior support is inside the
                  bounds; the case prior support NOT inside the bounds is the known finding C11-F8 (signature c11:prior-support-not-in-bounds)
  bo              BayesianOptimization runs with tiny budgets (n_evidence <= 12) under a schedule-driven client (is_ready answers from a
                  bit string, tasks run when their result is fetched): acquired points inside the bounds and exactly n per call, no pending
                  batch at acquire (sync), X/Y = precomputed ++ consumed (parameters in surrogate column order, target) in consumption order,
                  every consumed parameter row was seen by the simulator, n_evidence consistent, identical evidence for all schedules
  gradient        LCBSC / MaxVar evaluate_gradient against central differences of evaluate on a fitted surrogate (numeric only)
"""
import os
os.environ.setdefault('OMP_NUM_THREADS', '1')      # GPy's OpenMP kernels: 16 spinning threads make every gradient call ~300x slower

import itertools

import numpy as np

from pyvc import native

BOUNDS = {'a': (-1.0, 1.0), 'b': (-1.5, 1.5)}
GP_NAMES = ['b', 'a']          # surrogate column order, deliberately not the model order
MODEL_NAMES = ['a', 'b']


def _lohi(names=GP_NAMES):
    return np.array([BOUNDS[n][0] for n in names]), np.array([BOUNDS[n][1] for n in names])


def _inside(x, lo, hi):
    x = np.asarray(x, float)
    return bool(np.all(x >= lo) and np.all(x <= hi))


# ------------------------------------------------------------------------------------------------ schedule-driven client
def sched_client(elfi, bits, cores):
    import elfi.client as ec

    class SchedClient(ec.ClientBase):
        def __init__(self):
            self.tasks, self._ids, self.k = {}, itertools.count(), 0

        def apply(self, f, *a, **kw):
            i = next(self._ids)
            self.tasks[i] = (f, a, kw)
            return i

        def apply_sync(self, f, *a, **kw):
            return f(*a, **kw)

        def get_result(self, i):
            f, a, kw = self.tasks.pop(i)
            return f(*a, **kw)

        def is_ready(self, i):
            b = bits[self.k % len(bits)]
            self.k += 1
            return bool(b)

        def remove_task(self, i):
            self.tasks.pop(i, None)

        def reset(self):
            self.tasks.clear()

        @property
        def num_cores(self):
            return cores
    return SchedClient()


def build_model(elfi, prior='wide'):
    """two parameters; prior support: 'wide' = U(-2,2)^2 (covers the bounds), 'normal' = N(0,1) x U(-2,2) (F8 replay), 'inside' = inside the bounds"""
    seen = []
    m = elfi.new_model()
    if prior == 'normal':
        a = elfi.Prior('norm', 0, 1, model=m, name='a')
        b = elfi.Prior('uniform', -2, 4, model=m, name='b')
    elif prior == 'inside':
        a = elfi.Prior('uniform', -0.9, 1.8, model=m, name='a')
        b = elfi.Prior('uniform', -1.4, 2.8, model=m, name='b')
    else:
        a = elfi.Prior('uniform', -2, 4, model=m, name='a')
        b = elfi.Prior('uniform', -2, 4, model=m, name='b')

    def sim(a, b, batch_size=1, random_state=None):
        a, b = np.asarray(a, float), np.asarray(b, float)
        seen.append((a.copy(), b.copy()))
        return (a - 0.3) ** 2 + (b + 0.2) ** 2 + 0.01 * random_state.randn(batch_size)
    s = elfi.Simulator(sim, a, b, observed=0., name='s')
    elfi.Distance('euclidean', s, name='d')
    return m, seen


# ------------------------------------------------------------------------------------------------ minimize
def check_minimize(inp):
    mod = native.import_module('elfi.methods.bo.utils')
    from scipy.optimize import OptimizeResult
    bounds = [tuple(b) for b in inp['bounds']]
    lo, hi = np.array([b[0] for b in bounds]), np.array([b[1] for b in bounds])
    starts = []
    if inp.get('real_optimizer'):
        c = np.array(inp['centre'], float)
        with native.time_limit(20):
            x, v = mod.minimize(lambda z: float(np.sum((np.asarray(z) - c) ** 2)), bounds, n_start_points=inp['n'], maxiter=30,
                                random_state=np.random.RandomState(inp['seed']))
        if not _inside(x, lo, hi):
            return 'minimize (L-BFGS-B) returned %r outside the bounds %r' % (np.asarray(x).tolist(), bounds)
        return None
    pts, vals = [np.array(p, float) for p in inp['end_points']], list(inp['values'])
    k = [0]

    def method(fun, x0, args=(), **kw):
        starts.append(np.array(x0, float))
        i = k[0]
        k[0] += 1
        return OptimizeResult(x=pts[i].copy(), fun=vals[i], success=True, nit=0)
    prior = None
    if inp.get('prior_draws') is not None:
        draws = np.array(inp['prior_draws'], float)

        class P:
            def rvs(self, n, random_state=None):
                return draws.copy() if len(bounds) > 1 else draws[:, 0].copy()
        prior = P()
    with native.time_limit(20):
        x, v = mod.minimize(lambda z: 0.0, bounds, method=method, prior=prior, n_start_points=len(pts), random_state=np.random.RandomState(inp.get('seed', 0)))
    x = np.asarray(x, float)
    best = int(np.argmin(vals))
    if x.shape != (len(bounds),):
        return 'minimize returned a location of shape %r for %d parameters' % (x.shape, len(bounds))
    if not _inside(x, lo, hi):
        return 'minimize returned %r outside the bounds %r (optimiser end point %r)' % (x.tolist(), bounds, pts[best].tolist())
    if not np.array_equal(x, np.clip(pts[best], lo, hi)):
        return 'minimize returned %r, expected the clipped end point %r of the best run' % (x.tolist(), np.clip(pts[best], lo, hi).tolist())
    if v != min(vals):
        return 'minimize returned value %r, the minimum of the evaluated values is %r' % (v, min(vals))
    if len(starts) != len(pts):
        return 'optimiser started %d times for n_start_points=%d' % (len(starts), len(pts))
    for s_ in starts:
        if not _inside(s_, lo, hi):
            return 'start point %r outside the bounds %r' % (s_.tolist(), bounds)
    return None


def minimize_cases(tier, seed):
    rs = np.random.RandomState(seed)
    out = []
    for d in (1, 2, 3):
        bounds = [(-1.0 - j, 0.5 + j) for j in range(d)]
        for n in (1, 2, 3):
            for rep in range(2 if tier == 'quick' else 6):
                pts = (rs.uniform(-5, 5, (n, d)) * rs.choice([0.1, 1, 10], (n, 1))).tolist()
                if rep == 0:
                    pts[0] = [b[1] for b in bounds]          # exactly on the upper corner
                vals = rs.choice([0.0, 1.0, 1.0, -2.0, 3.5], n).tolist()
                out.append(dict(kind='minimize', bounds=bounds, end_points=pts, values=vals, seed=int(rs.randint(1000))))
                out.append(dict(kind='minimize', bounds=bounds, end_points=pts, values=vals, prior_draws=rs.uniform(-6, 6, (n, d)).tolist()))
        out.append(dict(kind='minimize', bounds=bounds, real_optimizer=True, centre=[3.0] * d, n=2, seed=seed))
    return out


# ------------------------------------------------------------------------------------------------ acquisition rules on a stub surrogate
STUB_BOUNDS = {'a': (0.5, 2.0), 'b': (-3.0, -1.0)}       # asymmetric, away from zero: interval-arithmetic slips show


class _StubModel:
    def __init__(self, names=GP_NAMES):
        self.parameter_names = list(names)
        self.input_dim = len(names)
        self.bounds = [STUB_BOUNDS[n] for n in names]


def _stub_lohi(names=GP_NAMES):
    return np.array([STUB_BOUNDS[n][0] for n in names]), np.array([STUB_BOUNDS[n][1] for n in names])


def check_add_noise(inp):
    acqm = native.import_module('elfi.methods.bo.acquisition')
    model = _StubModel()
    lo, hi = _stub_lohi()
    acq = acqm.LCBSC(model, noise_var=inp['noise_var'], seed=inp['seed'])
    x0 = np.array(inp['points'], float)
    with native.time_limit(20):
        x = acq._add_noise(x0.copy())
    if x.shape != x0.shape:
        return '_add_noise changed the shape %r -> %r' % (x0.shape, x.shape)
    if not _inside(x, lo, hi):
        bad = x[~np.all((x >= lo) & (x <= hi), axis=1)][0]
        return '_add_noise (noise_var=%r) moved a point to %r outside the bounds' % (inp['noise_var'], bad.tolist())
    nv = inp['noise_var']
    var = [0.0, 0.0] if nv is None else ([float(nv)] * 2 if not isinstance(nv, dict) else [float(nv[n]) for n in GP_NAMES])
    for j in range(2):
        if var[j] == 0 and not np.array_equal(x[:, j], x0[:, j]):
            return '_add_noise changed column %d although its noise variance is 0' % j
        if var[j] > 0 and len(x0) >= 4 and np.array_equal(x[:, j], x0[:, j]):
            return '_add_noise left column %d unchanged although its noise variance is %r' % (j, var[j])
    return None


def add_noise_cases(tier, seed):
    lo, hi = _stub_lohi()
    rs = np.random.RandomState(seed)
    out = []
    for nv in (None, 0, 0.0, 1e-6, 0.1, 25.0, {'a': 0.2, 'b': 0.0}, {'a': 0, 'b': 3.0}, {'a': 0.5, 'b': 0.01}):
        for rep in range(1 if tier == 'quick' else 4):
            pts = np.vstack([rs.uniform(lo, hi, (5, 2)), [lo, hi, [lo[0], hi[1]]]])
            out.append(dict(kind='add-noise', noise_var=nv, points=pts.tolist(), seed=int(rs.randint(1000))))
    return out


def check_uniform(inp):
    acqm = native.import_module('elfi.methods.bo.acquisition')
    lo, hi = _stub_lohi()
    acq = acqm.UniformAcquisition(_StubModel(), seed=inp['seed'])
    x = np.asarray(acq.acquire(inp['n'], t=0))
    if x.shape != (inp['n'], 2):
        return 'UniformAcquisition.acquire(%d) returned shape %r' % (inp['n'], x.shape)
    if not _inside(x, lo, hi):
        return 'UniformAcquisition.acquire returned a point outside the bounds'
    return None


_gp_cache = {}


def _fitted_gp(elfi, seed, n=8):
    """a surrogate fitted to n random points (read-only for the checks that use it, so one per seed and process)"""
    if (seed, n) not in _gp_cache:
        _gp_cache[(seed, n)] = _fit_gp(elfi, seed, n)
    return _gp_cache[(seed, n)]


def _fit_gp(elfi, seed, n):
    from elfi.methods.bo.gpy_regression import GPyRegression
    gp = GPyRegression(GP_NAMES, bounds=BOUNDS, max_opt_iters=20)
    rs = np.random.RandomState(seed)
    lo, hi = _lohi()
    X = rs.uniform(lo, hi, (n, 2))
    Y = (X[:, 1] - 0.3) ** 2 + (X[:, 0] + 0.2) ** 2 + 0.01 * rs.randn(n)
    gp.update(X, Y, optimize=True)
    return gp


def check_randmaxvar(inp):
    """exactly n points (or ValueError); inside the bounds"""
    elfi = native.import_elfi()
    from elfi.methods.bo.acquisition import RandMaxVar
    from elfi.model.extensions import ModelPrior
    import elfi.client as ec
    ec.set_client(sched_client(elfi, [1], 1))
    try:
        m, _ = build_model(elfi, inp['prior'])
        gp = _fitted_gp(elfi, inp['seed'])
        lo, hi = _lohi()
        skw = {} if inp.get('sampler', 'metropolis') is None else dict(sampler=inp.get('sampler', 'metropolis'))       # None: the class default ('nuts')
        acq = RandMaxVar(gp, ModelPrior(m, parameter_names=GP_NAMES), n_samples=inp['n_samples'], seed=inp['seed'], **skw)
        try:
            with native.time_limit(60):
                x = np.asarray(acq.acquire(inp['n'], t=0))
        except ValueError as e:
            if inp['n'] > inp['n_samples'] - inp['n_samples'] // 2:
                return None          # more points than the chain keeps after warm-up: refusing is allowed
            return 'RandMaxVar.acquire(%d) with n_samples=%d raised ValueError: %s' % (inp['n'], inp['n_samples'], e)
        if x.ndim != 2 or x.shape[1] != 2 or x.shape[0] != inp['n']:
            return 'RandMaxVar.acquire(%d) with n_samples=%d (warm-up %d) returned %d points' % (inp['n'], inp['n_samples'], inp['n_samples'] // 2, x.shape[0])
        if not _inside(x, lo, hi):
            bad = x[~np.all((x >= lo) & (x <= hi), axis=1)]
            return 'RandMaxVar.acquire returned %d of %d points outside the bounds, e.g. %r (%s in %r)' % (len(bad), len(x), bad[0].tolist(), GP_NAMES, [BOUNDS[n] for n in GP_NAMES])
        return None
    finally:
        ec.set_client(None)


def check_rule_acquire(inp):
    """direct acquire(n, t) of a model-based rule on a fitted surrogate: exactly n points inside the bounds"""
    elfi = native.import_elfi()
    from elfi.methods.bo import acquisition as A
    from elfi.model.extensions import ModelPrior
    import elfi.client as ec
    ec.set_client(sched_client(elfi, [1], 1))
    try:
        m, _ = build_model(elfi)
        gp = _fitted_gp(elfi, inp['seed'])
        prior = ModelPrior(m, parameter_names=GP_NAMES)
        lo, hi = _lohi()
        kw = dict(n_inits=2, max_opt_iters=15, seed=inp['seed'])
        rule = inp['rule']
        if rule == 'maxvar':
            acq = A.MaxVar(gp, prior, **kw)
        elif rule == 'lcbsc':
            acq = A.LCBSC(gp, prior=prior, noise_var=inp.get('noise_var', 0.3), **kw)
        else:
            acq = A.ExpIntVar(gp, prior, integration=rule.split('-')[1], d_grid=0.5, sampler='metropolis', n_samples=40, n_samples_imp=10, **kw)
        for t in range(inp.get('t', 0) + 1):          # acquisition indices in the order BO uses them: 0, 1, ...
            with native.time_limit(60):
                x = np.asarray(acq.acquire(inp['n'], t=t), float)
            if x.shape != (inp['n'], 2):
                return '%s.acquire(%d, t=%d) returned shape %r' % (rule, inp['n'], t, x.shape)
            if not _inside(x, lo, hi):
                return '%s.acquire returned a point outside the bounds: %r' % (rule, x[~np.all((x >= lo) & (x <= hi), axis=1)][0].tolist())
        return None
    finally:
        ec.set_client(None)


def rule_cases(tier, seed):
    out = []
    for rule in ('expintvar-grid', 'expintvar-importance', 'maxvar', 'lcbsc'):
        for n in ((1, 4) if tier == 'quick' else (1, 2, 4, 7)):
            out.append(dict(kind='rule-acquire', rule=rule, n=n, t=n % 2, seed=seed + n))
    return out


# ------------------------------------------------------------------------------------------------ BO runs
CONFIGS = {
    'lcbsc-scalar-noise': dict(acq='lcbsc', noise=0.1, batch_size=2, bpa=1, init=4, n_evidence=10, interval=4),
    'lcbsc-per-parameter-noise-precomputed': dict(acq='lcbsc', noise={'a': 0.2, 'b': 0.0}, batch_size=1, bpa=2, init='precomputed', n_evidence=11, interval=3),
    'lcbsc-zero-noise-no-initial-evidence': dict(acq='lcbsc', noise=0, batch_size=2, bpa=2, init=0, n_evidence=8, interval=4),
    'lcbsc-default-rule-rounded-initial': dict(acq=None, noise=0.05, batch_size=2, bpa=None, init=3, n_evidence=10, interval=5, fixed_mp=2),   # bpa defaults to max_parallel_batches: part of the configuration
    'maxvar': dict(acq='maxvar', noise=None, batch_size=1, bpa=2, init=5, n_evidence=9, interval=2),
    'uniform': dict(acq='uniform', noise=None, batch_size=3, bpa=1, init=3, n_evidence=12, interval=6),
    'lcbsc-async': dict(acq='lcbsc', noise=0.1, batch_size=1, bpa=1, init=4, n_evidence=9, interval=4, async_acq=True),
}
PRECOMPUTED = {'a': [0.5, -0.7, 0.1, 0.9, -0.2], 'b': [1.0, -1.2, 0.3, 0.0, 0.7], 'd': [1.48, 2.0, 0.29, 0.4, 1.06]}


def run_bo(inp):
    """-> (failure text or None, evidence key)"""
    elfi = native.import_elfi()
    import elfi.client as ec
    from elfi.methods.bo.acquisition import LCBSC, MaxVar, UniformAcquisition
    from elfi.methods.bo.gpy_regression import GPyRegression
    from elfi.model.extensions import ModelPrior
    cfg = CONFIGS[inp['config']]
    mp = inp['max_parallel_batches']
    ec.set_client(sched_client(elfi, inp['bits'], mp))
    try:
        m, seen = build_model(elfi)
        gp = GPyRegression(GP_NAMES, bounds=BOUNDS, max_opt_iters=20)
        lo, hi = _lohi()
        seed = inp.get('seed', 1)
        acq = None
        if cfg['acq'] == 'lcbsc':
            acq = LCBSC(gp, prior=ModelPrior(m, parameter_names=GP_NAMES), noise_var=cfg['noise'], n_inits=3, max_opt_iters=30, seed=seed)
        elif cfg['acq'] == 'maxvar':
            acq = MaxVar(gp, ModelPrior(m, parameter_names=GP_NAMES), n_inits=3, max_opt_iters=30, seed=seed)
        elif cfg['acq'] == 'uniform':
            acq = UniformAcquisition(gp, seed=seed)
        pre = {k: np.array(v) for k, v in PRECOMPUTED.items()} if cfg['init'] == 'precomputed' else None
        kw = {}
        if acq is None:
            kw['acq_noise_var'] = cfg['noise']
        async_acq = bool(cfg.get('async_acq'))
        bo = elfi.BayesianOptimization(m['d'], target_model=gp, acquisition_method=acq, batch_size=cfg['batch_size'],
                                       initial_evidence=(pre if pre is not None else cfg['init']), update_interval=cfg['interval'],
                                       batches_per_acquisition=cfg['bpa'], max_parallel_batches=mp, async_acq=async_acq, seed=seed, **kw)
        b = cfg['batch_size']
        npre = 0 if pre is None else len(pre['d'])
        if bo.n_evidence != npre or (npre and not (np.array_equal(gp.X, np.column_stack([pre[n] for n in GP_NAMES])) and np.array_equal(gp.Y.ravel(), pre['d']))):
            return 'after construction n_evidence=%r and the surrogate holds %d points; precomputed evidence has %d' % (bo.n_evidence, gp.n_evidence, npre), None
        rule = bo.acquisition_method
        acquired, consumed = [], []
        real_acquire, real_update = rule.acquire, bo.update

        def acquire(n, t=None):
            pending = bo.batches.num_pending
            x = real_acquire(n, t=t)
            acquired.append(dict(n=n, t=t, x=np.array(x, float), pending=pending, evidence=gp.n_evidence))
            return x

        def update(batch, batch_index):
            consumed.append((batch_index, {k: np.array(v, float) for k, v in batch.items()}))
            return real_update(batch, batch_index)
        rule.acquire, bo.update = acquire, update
        bo.set_objective(n_evidence=cfg['n_evidence'])
        with native.time_limit(120):
            while not bo.finished:
                bo.iterate()
        # ---- oracle
        for k, a in enumerate(acquired):
            if a['t'] != k:
                return 'acquisition call number %d was made with acquisition index t=%r' % (k, a['t']), None
            if a['x'].shape != (a['n'], 2):
                return 'acquire(%d) returned shape %r' % (a['n'], a['x'].shape), None
            if a['n'] != b * bo.batches_per_acquisition:
                return 'acquire asked for %d points, batch_size * batches_per_acquisition = %d' % (a['n'], b * bo.batches_per_acquisition), None
            if not _inside(a['x'], lo, hi):
                bad = a['x'][~np.all((a['x'] >= lo) & (a['x'] <= hi), axis=1)][0]
                return 'acquired point %r outside the bounds (%s in %r)' % (bad.tolist(), GP_NAMES, [BOUNDS[n] for n in GP_NAMES]), None
            if not async_acq and a['pending'] != 0:
                return 'acquire(t=%r) was called with %d batches pending although async_acq=False' % (a['t'], a['pending']), None
        if [i for i, _ in consumed] != list(range(len(consumed))):
            return 'batches consumed out of order: %r' % [i for i, _ in consumed], None
        Xc = np.vstack([np.column_stack([bt[n] for n in GP_NAMES]) for _, bt in consumed]) if consumed else np.zeros((0, 2))
        Yc = np.concatenate([bt['d'].ravel() for _, bt in consumed]) if consumed else np.zeros(0)
        if pre is not None:
            Xc = np.vstack([np.column_stack([pre[n] for n in GP_NAMES]), Xc])
            Yc = np.concatenate([pre['d'], Yc])
        if gp.X.shape != Xc.shape or not np.array_equal(gp.X, Xc) or not np.array_equal(gp.Y.ravel(), Yc):
            return 'surrogate evidence (%d points) is not precomputed ++ consumed batches (%d points) in order' % (len(gp.X), len(Xc)), None
        if not (bo.n_evidence == len(Xc) == gp.n_evidence == npre + b * len(consumed)):
            return 'n_evidence=%r, surrogate holds %d, precomputed %d + batch_size %d * %d consumed batches' % (bo.n_evidence, gp.n_evidence, npre, b, len(consumed)), None
        if bo.n_evidence < cfg['n_evidence']:
            return 'finished with n_evidence=%d < objective %d' % (bo.n_evidence, cfg['n_evidence']), None
        simulated = {(tuple(a_), tuple(b_)) for a_, b_ in seen}
        for i, bt in consumed:
            if (tuple(bt['a']), tuple(bt['b'])) not in simulated:
                return 'batch %d trains the surrogate on parameters the simulator never received' % i, None
        n_init_batches = (bo.n_initial_evidence - npre) // b
        post = consumed[n_init_batches:]
        if post:
            P = np.vstack([np.column_stack([bt[n] for n in GP_NAMES]) for _, bt in post])
            A = np.vstack([a['x'] for a in acquired]) if acquired else np.zeros((0, 2))
            if len(A) < len(P) or not np.array_equal(A[:len(P)], P):
                return 'the simulated post-initial points are not the acquired points in order', None
            if not _inside(P, lo, hi):
                return 'a simulated post-initial point lies outside the bounds', None
        elif cfg['n_evidence'] > bo.n_initial_evidence:
            return 'no acquisition-driven batch was consumed', None
        key = (gp.X.tobytes(), gp.Y.tobytes())
        return None, (key, dict(acq=rule, gp=gp, n_acquired=len(acquired)))
    finally:
        ec.set_client(None)


def schedules(tier, seed):
    out = [([1], 1), ([0], 2), ([0, 1, 1, 0, 1], 3)]
    if tier != 'quick':
        rs = np.random.RandomState(seed + 11)
        for _ in range(5):
            out.append((rs.randint(0, 2, size=rs.randint(2, 8)).tolist(), int(rs.randint(1, 5))))
    return out


# ------------------------------------------------------------------------------------------------ gradients (numeric)
def check_gradient(inp, objs=None):
    elfi = native.import_elfi()
    import elfi.client as ec
    from elfi.methods.bo.acquisition import LCBSC, MaxVar
    from elfi.methods.bo.utils import CostFunction
    from elfi.model.extensions import ModelPrior
    ec.set_client(sched_client(elfi, [1], 1))
    try:
        gp = _fitted_gp(elfi, inp['seed'])
        m, _ = build_model(elfi)
        if inp['rule'] == 'lcbsc':
            cost = CostFunction(lambda x: np.sum(x ** 2, axis=1), lambda x: 2 * x, scale=0.5) if inp.get('cost') else None
            acq = LCBSC(gp, prior=None, additive_cost=cost, exploration_rate=inp.get('exploration_rate', 10), seed=0)
        else:
            acq = MaxVar(gp, ModelPrior(m, parameter_names=GP_NAMES), seed=0)
            acq.eps = float(np.percentile(gp.Y, 30))
        t = inp.get('t', 3)
        x = np.array(inp['x'], float)
        g = np.asarray(acq.evaluate_gradient(x, t), float).ravel()
        fd = np.zeros(2)
        h = 1e-5
        for j in range(2):
            e = np.zeros(2)
            e[j] = h
            fd[j] = (float(np.asarray(acq.evaluate(x + e, t)).ravel()[0]) - float(np.asarray(acq.evaluate(x - e, t)).ravel()[0])) / (2 * h)
        scale = max(np.max(np.abs(fd)), np.max(np.abs(g)), 1e-12)
        if not np.all(np.abs(g - fd) <= 1e-4 * scale + 1e-9):
            return '%s.evaluate_gradient(%r) = %r but central differences of evaluate give %r' % (inp['rule'], x.tolist(), g.tolist(), fd.tolist())
        return None
    finally:
        ec.set_client(None)


def gradient_cases(tier, seed):
    rs = np.random.RandomState(seed + 5)
    lo, hi = _lohi()
    out = []
    for rule in ('lcbsc', 'maxvar'):
        for k in range(4 if tier == 'quick' else 12):
            out.append(dict(kind='gradient', rule=rule, x=rs.uniform(lo * 0.9, hi * 0.9).tolist(), seed=seed + k % 2, cost=bool(k % 2), t=k))
    return out


# ------------------------------------------------------------------------------------------------ driver-facing
def check(inp):
    k = inp['kind']
    if k == 'minimize':
        return check_minimize(inp)
    if k == 'add-noise':
        return check_add_noise(inp)
    if k == 'uniform':
        return check_uniform(inp)
    if k == 'randmaxvar':
        return check_randmaxvar(inp)
    if k == 'rule-acquire':
        return check_rule_acquire(inp)
    if k == 'gradient':
        return check_gradient(inp)
    if k == 'bo':
        return run_bo(inp)[0]
    if k == 'bo-schedules':
        keys = set()
        for bits, mp in inp['schedules']:
            f, ev = run_bo(dict(kind='bo', config=inp['config'], bits=bits, max_parallel_batches=mp, seed=inp.get('seed', 1)))
            if f:
                return f
            keys.add(ev[0])
        return None if len(keys) == 1 else 'the fitted evidence differs between worker schedules (%d distinct evidence sets over %d schedules)' % (len(keys), len(inp['schedules']))
    raise ValueError('unknown case kind %r' % k)


SIGNATURES = {'minimize': 'c11:minimize', 'add-noise': 'c11:add-noise', 'uniform': 'c11:uniform-acquisition', 'gradient': 'c11:gradient',
              'bo': 'c11:bo-run', 'rule-acquire': 'c11:rule-acquire', 'bo-schedules': 'c11:schedule-dependent-evidence'}


def signature(inp, what):
    if inp['kind'] == 'randmaxvar':
        if 'outside the bounds' in what:
            return 'c11:prior-support-not-in-bounds' if inp['prior'] != 'inside' else 'c11:randmaxvar-out-of-bounds'
        if ' returned ' in what and ' points' in what:
            return 'c11:randmaxvar-point-count'
        return 'c11:randmaxvar-%s-crash' % (inp.get('sampler', 'metropolis') or 'nuts')
    if inp['kind'] in ('bo', 'bo-schedules'):
        for key, sig in (('pending', 'c11:pending-at-acquire'), ('acquisition index', 'c11:acquisition-index'), ('n_evidence', 'c11:n_evidence'), ('outside the bounds', 'c11:bo-out-of-bounds'),
                         ('differs between worker schedules', 'c11:schedule-dependent-evidence'), ('surrogate evidence', 'c11:evidence-not-consumed-batches')):
            if key in what:
                return sig
        return 'c11:bo-run'
    if inp['kind'] == 'gradient':
        return 'c11:gradient-' + inp['rule']
    return SIGNATURES[inp['kind']]


def replay_input(inp):
    """True iff the property HOLDS on this input"""
    if 'kind' not in inp and isinstance(inp.get('input'), dict):
        inp = inp['input']
    try:
        return check(inp) is None
    except native.NativeTimeout:
        return False
    except Exception as e:          # a crash of the real code on the input: the property does not hold there
        print('%s: %s' % (type(e).__name__, str(e)[:300]))
        return False


def _group(name, bound, rule, cases, nontrivial=None, stop_first=True):
    fails, n, nt = [], 0, 0
    for inp in cases:
        n += 1
        try:
            what = check(inp)
        except native.NativeTimeout as e:
            what = str(e)
        except Exception as e:      # a crash of the real code on a case of the stand-in is a finding, not a checker error
            what = '%s: %s' % (type(e).__name__, str(e)[:300])
        if nontrivial is None or nontrivial(inp):
            nt += 1
        if what:
            sig = signature(inp, what)
            if not any(f['signature'] == sig for f in fails):
                fails.append(dict(signature=sig, what=what, input=inp))
    return dict(name=name, bound=bound, rule=rule, cases=n, nontrivial=nt, failures=fails)


def randmaxvar_cases(tier, seed):
    out = [dict(kind='randmaxvar', prior='normal', n=8, n_samples=30, seed=seed + 1),        # F8 replay configuration
           dict(kind='randmaxvar', prior='inside', n=8, n_samples=30, seed=seed + 1),
           dict(kind='randmaxvar', prior='inside', n=1, n_samples=20, seed=seed),
           dict(kind='randmaxvar', prior='inside', n=10, n_samples=20, seed=seed),
           dict(kind='randmaxvar', prior='inside', n=11, n_samples=20, seed=seed),
           dict(kind='randmaxvar', prior='inside', n=20, n_samples=20, seed=seed),
           dict(kind='randmaxvar', prior='inside', n=21, n_samples=20, seed=seed),
           dict(kind='randmaxvar', prior='inside', n=3, n_samples=20, seed=seed + 1, sampler=None),        # the default sampler (nuts)
           dict(kind='randmaxvar', prior='inside', n=1, n_samples=20, seed=seed, sampler='nuts'),
           dict(kind='randmaxvar', prior='wide', n=4, n_samples=20, seed=seed + 2, sampler='nuts')]
    if tier != 'quick':
        out += [dict(kind='randmaxvar', prior=p, n=n, n_samples=40, seed=seed + 2) for p in ('normal', 'inside', 'wide') for n in (1, 5, 20, 30)]
    return out


def run(tier='quick', seed=0, which=None):
    groups = []
    want = lambda k: which is None or k in which
    if want('minimize'):
        groups.append(_group('minimize-arbitrary-optimiser', 'dims 1-3, 1-3 start points, end points up to 50x outside the box, ties in the values; 3 real L-BFGS-B runs',
                             'non-trivial = the best run ends outside the bounds', minimize_cases(tier, seed),
                             lambda i: not i.get('real_optimizer') and not _inside(i['end_points'][int(np.argmin(i['values']))], *map(np.array, zip(*i['bounds'])))))
    if want('add-noise'):
        groups.append(_group('add-noise', '9 noise settings (none / 0 / scalar 1e-6..25 / per-parameter with zeros) on 8 points incl. the box corners',
                             'non-trivial = some variance > 0', add_noise_cases(tier, seed), lambda i: i['noise_var'] not in (None, 0, 0.0)))
        groups.append(_group('uniform-acquisition', 'n in 1..6', 'every case', [dict(kind='uniform', n=n, seed=seed + n) for n in range(1, 7)]))
    if want('rules'):
        groups.append(_group('model-based-rules-acquire', 'ExpIntVar (grid / importance), MaxVar, LCBSC(noise 0.3): acquire(n, t) for n in 1..7 on a surrogate fitted to 8 points',
                             'every case', rule_cases(tier, seed)))
    if want('randmaxvar'):
        groups.append(_group('randmaxvar-acquire', 'metropolis, nuts and default sampler, chain length 20-40, n from 1 to n_samples+1, three prior supports',
                             'non-trivial = n > 1', randmaxvar_cases(tier, seed), lambda i: i['n'] > 1))
    if want('bo'):
        sch = schedules(tier, seed)
        cases = []
        for name, cfg in CONFIGS.items():
            if cfg.get('async_acq'):
                cases += [dict(kind='bo', config=name, bits=bits, max_parallel_batches=mp, seed=1) for bits, mp in sch[1:3]]
            else:
                cases.append(dict(kind='bo-schedules', config=name, schedules=[[list(bits), cfg.get('fixed_mp', mp)] for bits, mp in sch], seed=1))
        groups.append(_group('bo-evidence-and-schedules', 'n_evidence <= 12, batch_size 1-3, batches_per_acquisition 1-2, %d worker schedules x max_parallel_batches 1-4 per configuration, '
                             '6 synchronous configurations (LCBSC scalar / per-parameter / zero noise, default rule, MaxVar, Uniform; count / precomputed / zero / rounded initial evidence) + 1 async' % len(sch),
                             'non-trivial = every case (each makes >= 1 model-based acquisition)', cases))
    if want('gradient'):
        groups.append(_group('acquisition-gradients-numeric', 'LCBSC (with / without additive cost, t = 0..11) and MaxVar at random points of a surrogate fitted to 8 points; central differences h=1e-5, rel. tol 1e-4',
                             'every case', gradient_cases(tier, seed)))
    return groups
