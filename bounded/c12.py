"""Bounded stand-in / replay vehicle for C12 on the REAL elfi nodes (imported from the tree under analysis).

distance family: elfi.Distance nodes over scalar + vector summaries (layouts s, v, sv, vs, ssv; vector width 2), batch sizes 1, 2, 3, 7,
  scipy metrics with and without extra arguments (minkowski p, seuclidean V, mahalanobis VI, weighted euclidean / minkowski w, and cityblock, sqeuclidean,
  canberra, braycurtis, cosine, correlation, hamming, chebyshev with a non-uniform w against scipy cdist(.., w=w)), two user
  callables; observed through node.generate(batch_size, with_values=<summary outputs>); oracle: the vector functions of scipy.spatial.distance
  applied to row i of the column-stacked summaries and the stacked observed summaries.  Also the constructor's raise rule.
adaptive family: elfi.AdaptiveDistance; for every composition (ordered partition) of n <= NMAX rows into add_data calls the scale must be the
  population standard deviation of all rows; several update rounds: w[-1] = 1/scale, stores reset, earlier distance columns of
  node.generate(...) unchanged, newest column = ||(x - y)/scale||_2.
sampler family: elfi.Rejection over AdaptiveDistance(S1, S2, S3) with every ordered subset of the summary names as user output_names; an OutputPool
  recovers every simulated row: 1/w[-1] must be the population std per summary column IN PARENT ORDER and the reported distances must be
  ||(summaries - observed)/scale||_2 of the returned rows.
Floats: relative tolerance 1e-9."""
import itertools

import numpy as np

from pyvc import native

TOL = 1e-9
LAYOUTS = ['s', 'v', 'sv', 'vs', 'ssv']
VW = 2          # width of a vector summary


def _width(layout):
    return sum(1 if c == 's' else VW for c in layout)


def _split(layout, X):
    """column-stacked rows -> tuple of summary outputs ((B,) for 's', (B, VW) for 'v')"""
    out, o = [], 0
    for c in layout:
        if c == 's':
            out.append(X[:, o].copy())
            o += 1
        else:
            out.append(X[:, o:o + VW].copy())
            o += VW
    return out


def _build(elfi, layout, Y):
    """model with one summary node per layout entry; the observed summaries are the matching slices of the observed row Y (1, m)"""
    m = elfi.ElfiModel()
    width = _width(layout)
    sim = elfi.Simulator(lambda *a, batch_size=1, random_state=None: np.zeros((batch_size, width)), model=m, name='sim', observed=np.asarray(Y, float))
    sums, o = [], 0
    for t, c in enumerate(layout):
        if c == 's':
            sums.append(elfi.Summary(lambda x, o=o: x[:, o], sim, model=m, name='S%d' % t))
            o += 1
        else:
            sums.append(elfi.Summary(lambda x, o=o: x[:, o:o + VW], sim, model=m, name='S%d' % t))
            o += VW
    return m, sums


WEIGHTED_METRICS = ['cityblock', 'sqeuclidean', 'canberra', 'braycurtis', 'cosine', 'correlation', 'hamming', 'chebyshev']   # string metrics outside the
# euclidean / minkowski family that take a weight vector w; oracle: scipy.spatial.distance.cdist(row_i, observed, metric, w=w)


def _cdist_oracle(metric, kw):
    import scipy.spatial.distance as ssd
    return lambda a, b: float(ssd.cdist(np.atleast_2d(a), np.atleast_2d(b), metric=metric, **kw)[0, 0])


def _metric_cases(width, rs):
    import scipy.spatial.distance as ssd
    w = np.round(rs.rand(width) + .25, 3)
    V = np.round(rs.rand(width) + .5, 3)
    A = rs.randn(width, width)
    VI = np.round(A.dot(A.T) + np.eye(width), 3)
    VI = (VI + VI.T) / 2
    return [('euclidean', {}, lambda a, b: ssd.euclidean(a, b)),
            ('euclidean', {'w': w}, lambda a, b: ssd.euclidean(a, b, w)),
            ('sqeuclidean', {}, lambda a, b: ssd.sqeuclidean(a, b)),
            ('cityblock', {}, lambda a, b: ssd.cityblock(a, b)),
            ('chebyshev', {}, lambda a, b: ssd.chebyshev(a, b)),
            ('canberra', {}, lambda a, b: ssd.canberra(a, b)),
            ('minkowski', {}, lambda a, b: ssd.minkowski(a, b)),
            ('minkowski', {'p': 1}, lambda a, b: ssd.minkowski(a, b, 1)),
            ('minkowski', {'p': 3}, lambda a, b: ssd.minkowski(a, b, 3)),
            ('minkowski', {'p': 1.5, 'w': w}, lambda a, b: ssd.minkowski(a, b, 1.5, w)),
            ('seuclidean', {'V': V}, lambda a, b: ssd.seuclidean(a, b, V)),
            ('mahalanobis', {'VI': VI}, lambda a, b: ssd.mahalanobis(a, b, VI)),
            ] + [(mname, {'w': w}, _cdist_oracle(mname, {'w': w})) for mname in WEIGHTED_METRICS if width >= 2] + [
            ('callable-1d', {}, lambda a, b: float(np.abs(a - b).sum() + 2 * abs(a[0] - b[0]))),
            ('callable-2d', {}, lambda a, b: float(np.abs(a - b).max() + abs(a[-1] - b[-1])))]


def _user_callable(name):
    if name == 'callable-1d':
        return lambda X, Y: np.abs(X - Y).sum(axis=1) + 2 * np.abs(X[:, 0] - Y[0, 0])
    return lambda X, Y: (np.abs(X - Y).max(axis=1) + np.abs(X[:, -1] - Y[0, -1])).reshape(-1, 1)


def _jsonable(kw):
    return {k: (np.asarray(v).tolist()) for k, v in kw.items()}


def _close(a, b):
    a, b = np.asarray(a, float), np.asarray(b, float)
    return a.shape == b.shape and bool(np.all((np.abs(a - b) <= TOL * (1 + np.abs(b))) | (np.isnan(a) & np.isnan(b))))


def distance_case(elfi, layout, X, Y, metric, kw, oracle=None):
    """-> None or text of the failure"""
    import scipy.spatial.distance as ssd
    X, Y = np.asarray(X, float), np.asarray(Y, float)
    kw = {k: (np.asarray(v, float) if k != 'p' else v) for k, v in kw.items()}
    if oracle is None:
        oracle = {'euclidean': lambda a, b: ssd.euclidean(a, b, kw.get('w')), 'sqeuclidean': ssd.sqeuclidean, 'cityblock': ssd.cityblock,
                  'chebyshev': ssd.chebyshev, 'canberra': ssd.canberra,
                  'minkowski': lambda a, b: ssd.minkowski(a, b, kw.get('p', 2), kw.get('w')),
                  'seuclidean': lambda a, b: ssd.seuclidean(a, b, kw['V']), 'mahalanobis': lambda a, b: ssd.mahalanobis(a, b, kw['VI']),
                  'callable-1d': lambda a, b: float(np.abs(a - b).sum() + 2 * abs(a[0] - b[0])),
                  'callable-2d': lambda a, b: float(np.abs(a - b).max() + abs(a[-1] - b[-1]))}
        oracle = oracle[metric] if (metric in oracle and not (metric in WEIGHTED_METRICS and kw)) else _cdist_oracle(metric, kw)
    B = X.shape[0]
    with native.time_limit(20):
        m, sums = _build(elfi, layout, Y)
        dist = _user_callable(metric) if metric.startswith('callable') else metric
        d = elfi.Distance(dist, *sums, model=m, name='d', **kw)
        vals = {'S%d' % t: v for t, v in enumerate(_split(layout, X))}
        try:
            got = d.generate(B, with_values=vals)
        except Exception as e:
            return 'generate raised %s: %s' % (type(e).__name__, str(e)[:120])
    want = np.array([oracle(X[i], Y[0]) for i in range(B)])
    got = np.asarray(got)
    if got.shape != (B,):
        return 'output shape %r, expected one value per row (%d,)' % (got.shape, B)
    if not _close(got, want):
        return 'distance %s differs from scipy %s(row_i, observed)%s: got %s, expected %s' % (metric, metric, ' with ' + ','.join(sorted(kw)) if kw else '', got.tolist(), want.tolist())
    return None


def constructor_rule(elfi):
    """raise rule of Distance.__init__: ValueError iff a required extra argument is missing / no summary"""
    fails = []
    m, sums = _build(elfi, 'sv', np.zeros((1, 3)))
    req = {'wminkowski': 'w', 'seuclidean': 'V', 'mahalanobis': 'VI'}
    n = 0
    for metric in ['euclidean', 'minkowski', 'wminkowski', 'seuclidean', 'mahalanobis']:
        for given in [(), ('p',), ('w',), ('V',), ('VI',), ('w', 'V', 'VI')]:
            n += 1
            kw = {k: (2 if k == 'p' else np.eye(3) if k == 'VI' else np.ones(3)) for k in given}
            must_raise = metric in req and req[metric] not in given
            try:
                with native.time_limit(10):
                    elfi.Distance(metric, *sums, model=m, **kw)
                raised = False
            except ValueError:
                raised = True
            except Exception as e:
                fails.append(dict(what='constructor raised %s for metric %s with %s' % (type(e).__name__, metric, list(given)),
                                  input=dict(family='constructor', metric=metric, given=list(given))))
                continue
            if raised != must_raise:
                fails.append(dict(what='constructor %s for metric %s with %s' % ('raised ValueError' if raised else 'did not raise', metric, list(given)),
                                  input=dict(family='constructor', metric=metric, given=list(given))))
    try:
        elfi.Distance('euclidean', model=m)
        fails.append(dict(what='constructor accepted a distance without summaries', input=dict(family='constructor', metric='euclidean', given=None)))
    except ValueError:
        pass
    return n + 1, fails


def run_distance(tier, seed, stop_first=True):
    elfi = native.import_elfi()
    rs = np.random.RandomState(1000 + seed)
    cases = nontrivial = 0
    failures = []
    layouts = LAYOUTS
    name, bound = 'distance-nodes-vs-scipy', 'layouts %s (vector width %d), batch sizes 1, 2, 3, 7, 12 scipy metric/argument combinations + %d further string metrics with a non-uniform w (width >= 2) + 2 callables, constructor raise rule' % (LAYOUTS, VW, len(WEIGHTED_METRICS))
    rule = 'non-trivial = a case with >= 2 columns (column order matters) or an extra metric argument'
    done = lambda: dict(name=name, bound=bound, rule=rule, cases=cases, nontrivial=nontrivial, failures=failures)
    n, fl = constructor_rule(elfi)
    cases += n
    for f in fl:
        f['signature'] = 'c12:constructor'
        failures.append(f)
        if stop_first:
            return done()
    for layout in layouts:
        width = _width(layout)
        mcases = _metric_cases(width, rs)
        for B in (1, 2, 3, 7):
            reps = 1 if tier == 'quick' else 3
            for _ in range(reps):
                X = np.round(rs.randn(B, width) * 2, 3)
                Y = np.round(rs.randn(1, width) * 2 + np.arange(width), 3)
                for metric, kw, orc in mcases:
                    cases += 1
                    nontrivial += 1 if (width >= 2 or kw) else 0
                    what = distance_case(elfi, layout, X, Y, metric, kw, orc)
                    if what:
                        failures.append(dict(signature='c12:distance-' + ('shape' if 'shape' in what else 'raise' if 'raised' in what else 'value'), what=what,
                                             input=dict(family='distance', layout=layout, X=X.tolist(), Y=Y.tolist(), metric=metric, kw=_jsonable(kw))))
                        if stop_first:
                            return done()
    return done()


# ---------------------------------------------------------------- adaptive distance
def compositions(n):
    """all ordered partitions of n into positive parts"""
    for bits in itertools.product((0, 1), repeat=n - 1):
        parts, cur = [], 1
        for b in bits:
            if b:
                parts.append(cur)
                cur = 1
            else:
                cur += 1
        parts.append(cur)
        yield parts


def _feed(ad, layout, X, parts):
    o = 0
    for k in parts:
        ad.add_data(*_split(layout, X[o:o + k]))
        o += k


def scale_case(elfi, layout, X, parts, ad=None):
    X = np.asarray(X, float)
    with native.time_limit(20):
        if ad is None:
            m, sums = _build(elfi, layout, np.zeros((1, X.shape[1])))
            ad = elfi.AdaptiveDistance(*sums, model=m, name='ad')
        ad.init_adaptation_round()
        _feed(ad, layout, X, parts)
        st = ad.state
    want = X.std(axis=0)
    if st['store'][0] != len(X):
        return 'store[0] = %r after %d rows' % (st['store'][0], len(X))
    if not _close(st['store'][1], X.mean(axis=0)):
        return 'running mean %s differs from the mean of all rows %s (batches %s)' % (np.asarray(st['store'][1]).tolist(), X.mean(axis=0).tolist(), parts)
    if not _close(st['scale'], want):
        return 'scale %s differs from the population standard deviation %s of all %d rows (batches %s)' % (np.asarray(st['scale']).tolist(), want.tolist(), len(X), parts)
    return None


def rounds_case(elfi, layout, rounds, Xe, Y):
    """rounds = [(X_r, parts_r)]; Xe (B, m) evaluation batch, Y (1, m) observed"""
    Xe, Y = np.asarray(Xe, float), np.asarray(Y, float)
    B = Xe.shape[0]
    with native.time_limit(30):
        m, sums = _build(elfi, layout, Y)
        ad = elfi.AdaptiveDistance(*sums, model=m, name='ad')
        vals = {'S%d' % t: v for t, v in enumerate(_split(layout, Xe))}
        prev = np.asarray(ad.generate(B, with_values=vals)).reshape(B, -1)
        if not _close(prev[:, 0], np.sqrt(((Xe - Y) ** 2).sum(axis=1))):
            return 'initial distance is not the euclidean distance'
        for r, (X, parts) in enumerate(rounds):
            X = np.asarray(X, float)
            ad.init_adaptation_round()
            _feed(ad, layout, X, parts)
            scale = X.std(axis=0)
            if not _close(ad.state['scale'], scale):
                return 'round %d: scale %s differs from the population standard deviation %s (batches %s)' % (r, np.asarray(ad.state['scale']).tolist(), scale.tolist(), parts)
            nf = len(ad.state['distance_functions'])
            ad.update_distance()
            st = ad.state
            if len(st['distance_functions']) != nf + 1 or len(st['w']) != nf + 1:
                return 'round %d: update_distance did not append exactly one distance function / weight' % r
            if not _close(st['w'][-1], 1 / scale):
                return 'round %d: newest weight %s differs from 1/scale %s' % (r, np.asarray(st['w'][-1]).tolist(), (1 / scale).tolist())
            if list(st['store']) != [0, 0, 0]:
                return 'round %d: stores not reset: %r' % (r, st['store'])
            out = np.asarray(ad.generate(B, with_values=vals))
            if out.shape != (B, nf + 1):
                return 'round %d: nested distance shape %r, expected (%d, %d)' % (r, out.shape, B, nf + 1)
            if not _close(out[:, :nf], prev):
                return 'round %d: earlier distance columns changed: %s -> %s' % (r, prev.tolist(), out[:, :nf].tolist())
            want = np.sqrt((((Xe - Y) / scale) ** 2).sum(axis=1))
            if not _close(out[:, nf], want):
                return 'round %d: newest distance %s differs from ||(x - y)/scale|| = %s' % (r, out[:, nf].tolist(), want.tolist())
            prev = out
    return None


def run_adaptive(tier, seed, stop_first=True):
    elfi = native.import_elfi()
    rs = np.random.RandomState(2000 + seed)
    nmax = 6 if tier == 'quick' else 8
    cases = nontrivial = 0
    failures = []
    name = 'adaptive-distance-all-compositions'
    bound = 'layouts s, sv; every composition of n <= %d rows into add_data calls; 3 update rounds x %d random compositions, evaluation batch sizes 1..3' % (nmax, 6 if tier == 'quick' else 20)
    rule = 'non-trivial = composition with >= 2 batches (batching could matter) / an update round after the first'
    done = lambda: dict(name=name, bound=bound, rule=rule, cases=cases, nontrivial=nontrivial, failures=failures)
    for layout in ('s', 'sv'):
        width = _width(layout)
        m, sums = _build(elfi, layout, np.zeros((1, width)))
        ad = elfi.AdaptiveDistance(*sums, model=m, name='ad')
        for n in range(1, nmax + 1):
            X = np.round(rs.randn(n, width) * (1 + np.arange(width)) + 3, 3)
            for parts in compositions(n):
                cases += 1
                nontrivial += 1 if len(parts) >= 2 else 0
                if n <= 3 and len(parts) >= 1:
                    parts = parts[:1] + [0] + parts[1:]            # an empty later batch changes nothing
                what = scale_case(elfi, layout, X, parts, ad)
                if what:
                    failures.append(dict(signature='c12:adaptive-scale', what=what, input=dict(family='scale', layout=layout, X=X.tolist(), parts=parts)))
                    if stop_first:
                        return done()
        for rep in range(6 if tier == 'quick' else 20):
            rounds = []
            for r in range(3):
                n = int(rs.randint(2, nmax + 1))
                X = np.round(rs.randn(n, width) * (1 + r + np.arange(width)) + r, 3)
                allc = list(compositions(n))
                rounds.append((X.tolist(), allc[int(rs.randint(len(allc)))]))
            B = 1 + rep % 3
            Xe = np.round(rs.randn(B, width) * 2, 3)
            Y = np.round(rs.randn(1, width), 3)
            cases += 1
            nontrivial += 1
            what = rounds_case(elfi, layout, rounds, Xe, Y)
            if what:
                failures.append(dict(signature='c12:adaptive-rounds', what=what, input=dict(family='rounds', layout=layout, rounds=rounds, Xe=Xe.tolist(), Y=Y.tolist())))
                if stop_first:
                    return done()
    return done()


# ---------------------------------------------------------------- call site: elfi.Rejection feeding an AdaptiveDistance
def _sim(mu, batch_size=1, random_state=None):
    rs = random_state or np.random
    return np.asarray(mu).reshape(-1, 1) + rs.normal(size=(batch_size, 5))


def _s1(x):
    return np.mean(x, axis=1)


def _s2(x):
    return 40. * np.var(x, axis=1)


def _s3(x):
    return np.column_stack([x[:, 0], 9. * x[:, 1]])


SUMS = ('S2', 'S3', 'S1')      # parent order of the distance node; deliberately not alphabetical


def rejection_case(elfi, output_names, batch_size, n_samples, n_sim, seed=0):
    """elfi.Rejection over AdaptiveDistance(S1, S2, S3) (scalar, scalar, 2-vector; very different spreads) with the user's output_names;
    an OutputPool keeps every simulated summary row.  -> None or text of the failure"""
    with native.time_limit(60):
        rs = np.random.RandomState(99 + seed)
        y_obs = rs.normal(size=(1, 5))
        m = elfi.ElfiModel()
        mu = elfi.Prior('norm', 0, 2, model=m, name='mu')
        Y = elfi.Simulator(_sim, mu, observed=y_obs, name='Y', model=m)
        nodes = [elfi.Summary(f, Y, name=n, model=m) for n, f in zip(SUMS, (_s1, _s2, _s3))]
        elfi.AdaptiveDistance(*nodes, name='d', model=m)
        obs = np.column_stack([_s1(y_obs), _s2(y_obs), _s3(y_obs)])
        pool = elfi.OutputPool(list(SUMS))
        try:
            rej = elfi.Rejection(m, 'd', output_names=None if output_names is None else list(output_names), batch_size=batch_size, seed=321 + seed, pool=pool)
            res = rej.sample(n_samples, n_sim=n_sim, bar=False)
        except Exception as e:
            return 'Rejection raised %s: %s' % (type(e).__name__, str(e)[:160])
        n_batches = rej.state['n_batches']
        rows = np.concatenate([np.column_stack([pool.get_batch(i)[k] for k in SUMS]) for i in range(n_batches)])
        w = rej.model['d'].state['w']
    if len(w) != 2:
        return 'expected exactly one update of the adaptive distance, found %d weight vectors' % len(w)
    want = rows.std(axis=0)
    got = 1. / np.asarray(w[-1], float)
    if not _close(got, want):
        return 'scale %s is not the population standard deviation %s of the %d simulated summary rows (columns in parent order %s)' % (got.tolist(), want.tolist(), len(rows), ', '.join(SUMS))
    X = np.column_stack([res.outputs[k] for k in SUMS])
    want_d = np.sqrt((((X - obs) / want) ** 2).sum(axis=1))
    got_d = np.asarray(res.discrepancies, float)
    if got_d.shape != want_d.shape or not _close(got_d, want_d):
        return 'reported (newest) distances are not ||(summaries - observed)/scale||_2 of the returned rows'
    return None


def run_sampler(tier, seed, stop_first=True):
    elfi = native.import_elfi()
    import itertools
    orders = [None, []] + [list(p) for r in (1, 2, 3) for p in itertools.permutations(SUMS, r)]
    sizes = [(1, 4, 12), (7, 5, 28)] if tier == 'quick' else [(1, 5, 30), (16, 20, 80), (50, 10, 100)]
    cases = nontrivial = 0
    failures = []
    name = 'rejection-feeds-adaptive-distance'
    bound = 'AdaptiveDistance(S1, S2, S3) sampled by elfi.Rejection with an OutputPool; output_names = None, [] and every ordered subset of the summary names (%d orders); (batch_size, n_samples, n_sim) in %s' % (len(orders), sizes)
    rule = 'non-trivial = output_names lists the summaries in an order that is not a prefix of the parent order'
    done = lambda: dict(name=name, bound=bound, rule=rule, cases=cases, nontrivial=nontrivial, failures=failures)
    for on in orders:
        for (b, n, nsim) in sizes:
            cases += 1
            nontrivial += 1 if (on and list(on) != list(SUMS[:len(on)])) else 0
            what = rejection_case(elfi, on, b, n, nsim, seed)
            if what:
                failures.append(dict(signature='c12:rejection-adaptive', what=what, input=dict(family='sampler', output_names=on, batch_size=b, n_samples=n, n_sim=nsim, seed=seed)))
                if stop_first:
                    return done()
    return done()


def run(tier='quick', seed=0, stop_first=True, which=('distance', 'adaptive', 'sampler')):
    out = []
    if 'distance' in which:
        out.append(run_distance(tier, seed, stop_first))
    if 'adaptive' in which:
        out.append(run_adaptive(tier, seed, stop_first))
    if 'sampler' in which:
        out.append(run_sampler(tier, seed, stop_first))
    return out


def replay_input(inp):
    """True iff the property HOLDS on this input"""
    elfi = native.import_elfi()
    fam = inp.get('family')
    if fam == 'distance':
        return distance_case(elfi, inp['layout'], inp['X'], inp['Y'], inp['metric'], inp['kw']) is None
    if fam == 'scale':
        return scale_case(elfi, inp['layout'], inp['X'], inp['parts']) is None
    if fam == 'rounds':
        return rounds_case(elfi, inp['layout'], [(X, p) for X, p in inp['rounds']], inp['Xe'], inp['Y']) is None
    if fam == 'sampler':
        return rejection_case(elfi, inp['output_names'], inp['batch_size'], inp['n_samples'], inp['n_sim'], inp.get('seed', 0)) is None
    if fam == 'constructor':
        n, fails = constructor_rule(elfi)
        return not fails
    raise ValueError('unknown replay family %r' % fam)
