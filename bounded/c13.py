"""Bounded stand-in / replay vehicle for C13 on the REAL functions of elfi/methods/utils.py (loaded
stand-alone).  Bound: samples of length 1..LMAX over a small tie-forcing value set, weights from
{0, .5, 1, 2} (not all zero), alpha on a grid that contains every cumulative boundary; mixture
checks in 1-2 dimensions against scipy evaluated directly.  Floats: tolerance 1e-9."""
import itertools

import numpy as np

from pyvc import native

TOL = 1e-9


def _mod():
    return native.load_file_module('elfi/methods/utils.py')


def quantile_case(m, x, w, alpha):
    x = np.asarray(x, float)
    w_ = None if w is None else np.asarray(w, float)
    with native.time_limit(5):
        q = m.weighted_sample_quantile(x, alpha, weights=w_)
    ww = np.ones(len(x)) if w_ is None else w_
    wn = ww / ww.sum()
    q = float(q)
    if not np.any(x == q):
        return 'result %r is not an element of the sample' % q
    le = wn[x <= q].sum()
    lt = wn[x < q].sum()
    # relative tolerance: alpha may sit exactly on a cumulative boundary computed in floats, but a tiny positive alpha
    # must not be swallowed by an absolute tolerance
    if le < alpha * (1 - 1e-9) - 1e-15:
        return 'weight of values <= q is %.12g < alpha = %.12g' % (le, alpha)
    if lt > alpha * (1 + 1e-9) + 1e-15:
        return 'weight of values < q is %.12g > alpha = %.12g' % (lt, alpha)
    return None


def run_quantile(tier, seed, stop_first=True):
    m = _mod()
    vals = [0.0, 1.0, 1.0, 2.5]
    wvals = [0.0, 0.5, 1.0, 2.0]
    lmax = 3 if tier == 'quick' else 4
    cases = nontriv = 0
    fails = []
    for n in range(1, lmax + 1):
        for x in itertools.product(sorted(set(vals)), repeat=n):
            for w in itertools.chain([None], itertools.product(wvals, repeat=n)):
                if w is not None and sum(w) == 0:
                    continue
                ww = np.ones(n) if w is None else np.asarray(w, float)
                order = np.argsort(np.asarray(x))
                cum = np.cumsum(ww[order] / ww.sum())
                alphas = sorted(set([0.0, 1e-12, 1e-9, 1e-7, 1.0, 0.3, 0.5, 1 - 1e-9] + [float(c) for c in cum]))
                prev = None
                for a in alphas:
                    if not 0 <= a <= 1:
                        continue
                    cases += 1
                    nontriv += 1 if (len(set(x)) < n or (w is not None and 0.0 in w)) else 0
                    try:
                        f = quantile_case(m, x, w, a)
                    except Exception as e:
                        f = '%s: %s' % (type(e).__name__, e)
                    if f is None:
                        q = float(m.weighted_sample_quantile(np.asarray(x, float), a, weights=None if w is None else np.asarray(w, float)))
                        if prev is not None and q < prev - TOL:
                            f = 'not monotone in alpha: q(%.3g)=%r < %r' % (a, q, prev)
                        prev = q
                        if f is None and w is not None:
                            q2 = float(m.weighted_sample_quantile(np.asarray(x, float), a, weights=4.0 * np.asarray(w, float)))
                            if q2 != q:
                                f = 'not invariant to rescaling the weights by 4: %r vs %r' % (q, q2)
                    if f:
                        fails.append(dict(signature='c13:quantile', what=f, input=dict(fn='quantile', x=list(x), w=None if w is None else list(w), alpha=a)))
                        if stop_first:
                            return _res('weighted_sample_quantile-sweep', 'length<=%d values{0,1,2.5} weights{0,.5,1,2}' % lmax, cases, nontriv, fails)
    return _res('weighted_sample_quantile-sweep', 'length<=%d values{0,1,2.5} weights{0,.5,1,2}' % lmax, cases, nontriv, fails)


def _res(name, bound, cases, nontriv, fails):
    return dict(name=name, bound=bound, rule='non-trivial = ties in the sample or a zero weight / mixture with >= 2 components', cases=cases, nontrivial=nontriv, failures=fails)


def run_moments(tier, seed, stop_first=True):
    m = _mod()
    rs = np.random.RandomState(seed)
    cases = nontriv = 0
    fails = []
    for t in range(40 if tier == 'quick' else 400):
        n = rs.randint(2, 7)
        x = rs.randn(n) * 3
        w = rs.choice([0.0, 0.5, 1.0, 2.0, 3.3], size=n)
        if w.sum() == 0 or (w > 0).sum() < 2:
            w[:2] = 1.0
        cases += 3
        nontriv += 3 if 0.0 in w else 0
        try:
            with native.time_limit(5):
                s2 = float(m.weighted_var(x, w))
                ess = float(m.compute_ess(w))
                nw = m.normalize_weights(w)
        except Exception as e:
            fails.append(dict(signature='c13:moments', what='%s: %s' % (type(e).__name__, e), input=dict(fn='moments', x=x.tolist(), w=w.tolist())))
            if stop_first:
                break
            continue
        xbar = (w * x).sum() / w.sum()
        ref = (w * (x - xbar) ** 2).sum() / (w.sum() - (w ** 2).sum() / w.sum())
        f = None
        if abs(s2 - ref) > 1e-9 * max(1, abs(ref)):
            f = 'weighted_var %r != reliability-weights formula %r' % (s2, ref)
        elif abs(ess - w.sum() ** 2 / (w ** 2).sum()) > 1e-9 * max(1, ess):
            f = 'compute_ess %r != (sum w)^2/sum w^2 = %r' % (ess, w.sum() ** 2 / (w ** 2).sum())
        elif not np.allclose(nw, w / w.sum(), atol=1e-12):
            f = 'normalize_weights differs from w / sum(w)'
        if f:
            fails.append(dict(signature='c13:moments', what=f, input=dict(fn='moments', x=x.tolist(), w=w.tolist())))
            if stop_first:
                break
    for bad in ([1.0, -1.0], [0.0, 0.0]):
        cases += 1
        try:
            m.normalize_weights(np.array(bad))
            fails.append(dict(signature='c13:moments', what='normalize_weights accepted %r' % bad, input=dict(fn='normalize', w=bad)))
        except ValueError:
            pass
    try:
        cases += 1
        m.normalize_weights(np.array([0.0, 2.0]))
    except ValueError:
        fails.append(dict(signature='c13:moments', what='normalize_weights rejected a vector with a zero weight', input=dict(fn='normalize', w=[0.0, 2.0])))
    return _res('weighted_var/compute_ess/normalize_weights', '%d random weighted samples of length 2..6 with zero weights' % (40 if tier == 'quick' else 400), cases, nontriv, fails)


def run_mixture(tier, seed, stop_first=True):
    import scipy.stats as ss
    m = _mod()
    GM = m.GMDistribution
    rs = np.random.RandomState(seed + 1)
    cases = nontriv = 0
    fails = []
    for t in range(12 if tier == 'quick' else 120):
        dim = 1 + (t % 2)
        K = rs.randint(1, 4) if dim == 1 else rs.randint(2, 4)     # a single 2-D component is squeezed to two 1-D means by the API (outside the property)
        means = rs.randn(K) if dim == 1 else rs.randn(K, 2)
        w = rs.rand(K) + 0.1
        cov = 0.5 + rs.rand() if dim == 1 else np.diag(0.5 + rs.rand(2))
        pts = rs.randn(3) if dim == 1 else rs.randn(3, 2)
        wn = w / w.sum()
        ref = sum(wn[k] * ss.multivariate_normal.pdf(pts, mean=means[k], cov=cov) for k in range(K))
        cases += 3
        nontriv += 3 if K >= 2 else 0
        try:
            with native.time_limit(10):
                got = GM.pdf(pts, means, cov=cov, weights=w)
                lg = GM.logpdf(pts, means, cov=cov, weights=w)
                one = GM.pdf(pts[0], means, cov=cov, weights=w)
                thr = 0.0
                draws = GM.rvs(means, cov=cov, weights=w, size=7, random_state=np.random.RandomState(seed + t),
                               prior_logpdf=(lambda x: np.where((x if dim == 1 else x[:, 0]) > thr, 0.0, -np.inf)))
        except Exception as e:
            fails.append(dict(signature='c13:mixture', what='%s: %s' % (type(e).__name__, e), input=dict(fn='mixture', t=t, seed=seed)))
            if stop_first:
                break
            continue
        f = None
        if np.shape(got) != (3,) or not np.allclose(got, ref, rtol=1e-9):
            f = 'pdf differs from the weighted sum of component densities'
        elif not np.allclose(lg, np.log(ref), rtol=1e-9):
            f = 'logpdf is not log(pdf)'
        elif np.shape(one) != () or not np.isclose(float(one), ref[0], rtol=1e-9):
            f = 'single-point pdf has shape %r / wrong value' % (np.shape(one),)
        elif len(draws) != 7 or not np.all((draws if dim == 1 else draws[:, 0]) > thr):
            f = 'constrained sampler returned %d points, %d violating the constraint' % (len(draws), int(np.sum((draws if dim == 1 else draws[:, 0]) <= thr)))
        if f:
            fails.append(dict(signature='c13:mixture', what=f, input=dict(fn='mixture', t=t, seed=seed)))
            if stop_first:
                break
    # exact-zero mixture weights and points far in the tails: logpdf must stay the log of the weighted sum of the component
    # densities (a zero-weight component contributes nothing, however close the point is to it)
    for (means, w, cov, pts) in ((np.array([0.0, 10.0]), np.array([1.0, 0.0]), 1.0, np.array([10.0, 9.0, -9.5, 0.3])),
                                 (np.array([[0.0, 0.0], [9.0, -9.0], [1.0, 1.0]]), np.array([2.0, 0.0, 1.0]), np.diag([1.0, 0.5]), np.array([[9.0, -9.0], [8.5, -8.0], [0.2, 0.1]])),
                                 (np.array([-3.0, 4.0, 30.0]), np.array([0.0, 1.0, 0.0]), 0.7, np.array([30.0, -3.0, 4.0, 17.0]))):
        cases += 2
        nontriv += 2
        wn = w / w.sum()
        try:
            with native.time_limit(10):
                lg = np.asarray(GM.logpdf(pts, means, cov=cov, weights=w), float)
                pd = np.asarray(GM.pdf(pts, means, cov=cov, weights=w), float)
            comp = np.array([ss.multivariate_normal.logpdf(pts, mean=means[k], cov=cov) for k in range(len(wn)) if wn[k] > 0])
            lw = np.log(np.array([x for x in wn if x > 0]))[:, None]
            mx = (comp + lw).max(axis=0)
            ref = mx + np.log(np.exp(comp + lw - mx).sum(axis=0))        # log of the weighted sum over the positively weighted components
            ok = np.isfinite(ref)
            bad = ok & ~np.isclose(lg, ref, rtol=1e-9, atol=1e-9)
            under = ~ok | (pd == 0)        # where the density underflows, log(pdf) = -inf is what log-of-the-weighted-sum gives in floats
            bad = bad & ~(np.isneginf(lg) & under)
            if np.any(bad):
                i = int(np.argmax(bad))
                fails.append(dict(signature='c13:mixture', what='logpdf %.6g is not the log of the weighted sum of component densities %.6g (zero-weight component near the point)' % (lg[i], ref[i]),
                                  input=dict(fn='mixture-zero-weight', means=np.asarray(means).tolist(), w=w.tolist())))
                if stop_first:
                    break
        except native.NativeTimeout:
            pass
        except Exception as e:
            fails.append(dict(signature='c13:mixture', what='%s: %s' % (type(e).__name__, e), input=dict(fn='mixture-zero-weight', seed=seed)))
    # a constraint with a very low acceptance rate: the sampler must still return exactly `size` valid points
    for t in range(2 if tier == 'quick' else 6):
        cases += 1
        nontriv += 1
        try:
            with native.time_limit(60):
                thr = 3.3
                draws = GM.rvs(np.array([0.0, 0.5]), cov=1.0, weights=np.array([1.0, 1.0]), size=12, random_state=np.random.RandomState(seed + 100 + t),
                               prior_logpdf=(lambda x: np.where(x > thr, 0.0, -np.inf)))
            if len(draws) != 12 or not np.all(draws > thr):
                fails.append(dict(signature='c13:mixture', what='constrained sampler with a rare constraint returned %d points, %d violating it' % (len(draws), int(np.sum(~(draws > thr)))),
                                  input=dict(fn='mixture-rare', t=t, seed=seed)))
                if stop_first:
                    break
        except native.NativeTimeout:
            pass
        except Exception as e:
            fails.append(dict(signature='c13:mixture', what='%s: %s' % (type(e).__name__, e), input=dict(fn='mixture-rare', t=t, seed=seed)))
    return _res('GMDistribution pdf/logpdf/rvs', '%d random mixtures, 1-2 dims, <= 3 components' % (12 if tier == 'quick' else 120), cases, nontriv, fails)


def run(tier='quick', seed=0, stop_first=True, which=('quantile', 'moments', 'mixture')):
    out = []
    if 'quantile' in which:
        out.append(run_quantile(tier, seed, stop_first))
    if 'moments' in which:
        out.append(run_moments(tier, seed, stop_first))
    if 'mixture' in which:
        out.append(run_mixture(tier, seed, stop_first))
    return out


def replay_input(inp):
    m = _mod()
    if inp.get('fn') == 'quantile':
        return quantile_case(m, inp['x'], inp['w'], inp['alpha']) is None
    if inp.get('fn') == 'moments':
        r = run_moments('quick', 0)
        return not r['failures']
    r = run_mixture('quick', inp.get('seed', 0))
    return not r['failures']
