"""Bounded stand-in / replay vehicle for C14 on the REAL elfi classes (labelled bounded; never counted as proof).

Bound: fixed histories + seeded random edit sequences of <= 5 (quick) / <= 6 (thorough) steps over three small base models
(0: hierarchical prior pair, simulator with observed data, summary, distance; 1: one prior, simulator with data; 2: two priors,
simulator WITHOUT observed data, so the observed dict is empty when the model is copied); private constants come from literal
arguments.  Steps:
  add (Operation / Prior on an existing scalar node + a literal constant), become (replace a Prior / Operation by a fresh node that
  does not depend on it), prep + become_pending (prepare a replacement with TWO positional parents, replace a node by it later -
  a become of its first parent in between makes its predecessor insertion order differ from its positional order), remove (a leaf;
  'remove_any': any user node), setparams (parameter_names setter), copy (+ an edit of the copy, or of the ORIGINAL: both
  directions of independence), saveload (pickle round trip).
After EVERY step: model_ok (positional params of each child pairwise distinct, no isolated private node, observed keys are nodes,
parameter_names sorted and exact, acyclic, get_parents = positional parents by ascending param), the become / remove_node posts of
the property (parents WITH their params, seeded output of the replaced node = its operation on its positional parents), and for
copy / saveload: equal views, equal seeded generate() output, and independence (editing one of original / copy through
parameter_names / observed / remove_node / become-with-data leaves the other's view - including the contents of every state
dict and the observed dict - unchanged).  Models never need elfi.Rejection."""
import os
import random
import shutil
import tempfile

import numpy as np

from pyvc import native

INDEP = 'c14:copy-independence'


# ---- node functions (module level so that pickle can find them)
def sim(a, b, batch_size=1, random_state=None):
    rs = random_state or np.random
    return np.asarray(a).reshape(-1, 1) + np.asarray(b).reshape(-1, 1) + rs.randn(batch_size, 3)


def sim1(a, batch_size=1, random_state=None):
    rs = random_state or np.random
    return np.asarray(a).reshape(-1, 1) + rs.randn(batch_size, 2)


def mean(x):
    return x.mean(axis=1)


def add_const(x, c):
    return x + c


def sub2(x, y):
    return x - 2.0 * y


def base_model(elfi, variant):
    m = elfi.ElfiModel(name='c14base%d' % variant)
    a = elfi.Prior('uniform', 0, 2, model=m, name='a')
    if variant == 2:
        elfi.Prior('uniform', 1, 2, model=m, name='b')
        s = elfi.Simulator(sim, m['a'], m['b'], model=m, name='s')
        elfi.Summary(mean, s, model=m, name='S')
        return m, ['a', 'b']
    if variant == 0:
        b = elfi.Prior('normal', a, 1, model=m, name='b')
        s = elfi.Simulator(sim, a, b, observed=np.zeros((1, 3)), model=m, name='s')
        scal = ['a', 'b']
    else:
        s = elfi.Simulator(sim1, a, observed=np.ones((1, 2)), model=m, name='s')
        scal = ['a']
    S = elfi.Summary(mean, s, model=m, name='S')
    elfi.Distance('euclidean', S, model=m, name='d')
    return m, scal


# ---- views and oracles (independent of the code under test: they read the networkx graph directly)
def view(m, deep=True):
    G = m.source_net
    v = dict(nodes=sorted(G.nodes), edges=sorted((u, w, repr(d.get('param'))) for u, w, d in G.edges(data=True)),
             observed=sorted((k, id(x)) for k, x in G.graph['observed'].items()))
    if deep:
        v['state'] = {n: sorted((k, id(x)) for k, x in G.nodes[n]['attr_dict'].items()) for n in G.nodes}
    return v


def view_values(m):
    """view up to object identity (for a reloaded model)"""
    G = m.source_net
    return dict(nodes=sorted(G.nodes), edges=sorted((u, w, repr(d.get('param'))) for u, w, d in G.edges(data=True)),
                state={n: sorted(k for k in G.nodes[n]['attr_dict']) for n in G.nodes},
                observed=sorted((k, np.asarray(x).tolist().__repr__()) for k, x in G.graph['observed'].items()))


def model_ok(m):
    import networkx as nx
    G = m.source_net
    bad = []
    for c in G.nodes:
        ps = [d['param'] for _, _, d in G.in_edges(c, data=True) if isinstance(d.get('param'), int)]
        if len(ps) != len(set(ps)):
            bad.append('model_ok: positional params of %s not distinct: %s' % (c, sorted(ps)))
        want = [u for _, u in sorted((d['param'], u) for u, _, d in G.in_edges(c, data=True) if isinstance(d.get('param'), int))]
        got = list(m.get_parents(c))
        if got != want:
            bad.append('get_parents: %s gives %s, positional parents by param are %s' % (c, got, want))
    for n in G.nodes:
        if n[0] == '_' and G.degree(n) == 0:
            bad.append('model_ok: private node %s left without edges' % n)
        if 'attr_dict' not in G.nodes[n]:
            bad.append('model_ok: node %s has no state' % n)
    for k in m.observed:
        if k not in G.nodes:
            bad.append('model_ok: observed data for %s which is not a node' % k)
    if not nx.is_directed_acyclic_graph(G):
        bad.append('model_ok: cyclic')
    pn = m.parameter_names
    want = sorted(n for n in G.nodes if '_parameter' in G.nodes[n].get('attr_dict', {}))
    if list(pn) != want:
        bad.append('parameter_names: %s, the parameter nodes in sorted order are %s' % (list(pn), want))
    return bad


def gen(m, seed):
    """seeded outputs of all user nodes, or None when the model cannot be run (e.g. a node lost a parent)"""
    try:
        with native.time_limit(20):
            out = m.generate(3, outputs=[n for n in sorted(m.source_net.nodes) if n[0] != '_'], seed=seed)
        return {k: np.asarray(v).tolist() for k, v in out.items()}
    except native.NativeTimeout:
        raise
    except Exception:
        return None


def user_nodes(m):
    return sorted(n for n in m.source_net.nodes if n[0] != '_')


# ---- one step
class Fail(Exception):
    def __init__(self, sig, what):
        Exception.__init__(self, what)
        self.sig, self.what = sig, what


def apply_mutator(elfi, k, j, st):
    """mutate model k through one of the four routes the property names; -> description"""
    un = user_nodes(k)
    sc = [n for n in un if n in st['scal']]
    j = j % 4
    if j == 2 and len(un) <= 1:
        j = 1
    if j == 3 and not sc:
        j = 1
    if j == 0:
        cur = list(k.parameter_names)
        new = [n for n in sc if n not in cur][:1] or cur[:1]
        k.parameter_names = new
        return 'parameter_names = %s' % new
    if j == 1:
        k.observed[un[0]] = np.full((1, 1), 7.0)
        return "observed[%r] = ..." % un[0]
    if j == 2:
        leaves = [n for n in un if k.source_net.out_degree(n) == 0]
        k.remove_node(leaves[-1])
        return 'remove_node(%r)' % leaves[-1]
    tgt = sc[-1]
    new = elfi.Prior('normal', 0.25, 1.0, model=k, name='rep%d' % st['uid'])
    k.observed[new.name] = np.full((1, 1), 3.0)
    k[tgt].become(new)
    return '%s.become(Prior carrying observed data)' % tgt


def step(elfi, m, op, st, check_independence=True, tmp=None):
    """apply op to m; raises Fail; returns the model to continue with"""
    kind, i = op[0], op[1]
    G = m.source_net
    un = user_nodes(m)
    scal = [n for n in un if n in st['scal']]
    st['uid'] += 1
    uid = st['uid']
    if kind in ('add_op', 'add_prior'):
        if not scal:
            return m
        par = scal[i % len(scal)]
        name = 'x%d' % uid
        if kind == 'add_op':
            elfi.Operation(add_const, m[par], 1.5, model=m, name=name)
        else:
            elfi.Prior('normal', m[par], 1.0, model=m, name=name)
        st['scal'].append(name)
        if name not in m.source_net.nodes or m.get_parents(name)[:1] != [par]:
            raise Fail('c14:add', 'added node %s does not have %s as its first parent' % (name, par))
    elif kind == 'become':
        import networkx as nx
        if not scal:
            return m
        tgt = scal[i % len(scal)]
        free = [n for n in scal if n != tgt and n not in nx.descendants(G, tgt)]
        cls = G.nodes[tgt]['attr_dict']['_class']
        args = ([m[free[(i // 7) % len(free)]]] if free else [0.5])
        if cls is elfi.Operation:
            new = elfi.Operation(add_const, args[0], 2.5, model=m, name='r%d' % uid)
        else:
            new = elfi.Prior('normal', args[0], 1.0, model=m, name='r%d' % uid)
        if (i // 3) % 2 == 0:
            m.observed[new.name] = np.full((1, 1), float(uid))
        kids = sorted((w, repr(d['param'])) for _, w, d in G.out_edges(tgt, data=True))
        ins = sorted((u, repr(d['param'])) for u, _, d in G.in_edges(new.name, data=True))
        state = G.nodes[new.name]['attr_dict']
        had_obs, obs = new.name in m.observed, m.observed.get(new.name)
        others = {n: id(G.nodes[n]['attr_dict']) for n in G.nodes if n not in (tgt, new.name)}
        old_private = [u for u, _ in G.in_edges(tgt) if u[0] == '_' and G.degree(u) == 1]
        m[tgt].become(new)
        G = m.source_net
        if new.name != tgt or 'r%d' % uid in G.nodes:
            raise Fail('c14:become', 'the replacement node is still in the model / the reference was not re-pointed')
        if sorted((w, repr(d['param'])) for _, w, d in G.out_edges(tgt, data=True)) != kids:
            raise Fail('c14:become', 'become(%s): children not kept: had %s' % (tgt, kids))
        if sorted((u, repr(d['param'])) for u, _, d in G.in_edges(tgt, data=True)) != ins:
            raise Fail('c14:become', "become(%s): parents are not the replacement's parents %s" % (tgt, ins))
        if G.nodes[tgt]['attr_dict'] is not state:
            raise Fail('c14:become', "become(%s): state is not the replacement's state" % tgt)
        if (tgt in m.observed) != had_obs or (had_obs and m.observed[tgt] is not obs):
            raise Fail('c14:become', "become(%s): observed data of the replacement not handed over" % tgt)
        for n, sid in others.items():
            if n in G.nodes and id(G.nodes[n]['attr_dict']) != sid:
                raise Fail('c14:become', 'become(%s): state of the unrelated node %s changed' % (tgt, n))
            if n not in G.nodes and n not in old_private:
                raise Fail('c14:become', 'become(%s): unrelated node %s removed' % (tgt, n))
        for u in old_private:
            if u in G.nodes:
                raise Fail('c14:become', 'become(%s): sole private constant %s of the replaced node left behind' % (tgt, u))
    elif kind == 'prep':
        # prepare a replacement with two positional parents (used by a later 'become_pending'); a 'become' of its FIRST parent in
        # between re-inserts that parent's out-edges, so the predecessor insertion order of the replacement differs from its positional order
        if not scal or st.get('pending') in G.nodes:
            return m
        pa = scal[i % len(scal)]
        pb = scal[(i + 1) % len(scal)]
        name = 'p%d' % uid
        elfi.Operation(sub2, m[pa], m[pb] if pb != pa else 3.0, model=m, name=name)
        st['pending'] = name
        st['scal'].append(name)
    elif kind == 'become_pending':
        import networkx as nx
        pend = st.get('pending')
        if pend not in G.nodes:
            return m
        cands = [n for n in scal if n != pend and G.nodes[n]['attr_dict']['_class'] is elfi.Operation
                 and pend not in nx.descendants(G, n) and n not in nx.ancestors(G, pend)]
        if not cands:
            return m
        tgt = cands[i % len(cands)]
        kids = sorted((w, repr(d['param'])) for _, w, d in G.out_edges(tgt, data=True))
        ins = sorted((u, repr(d['param'])) for u, _, d in G.in_edges(pend, data=True))
        want_parents = [u for _, u in sorted((d['param'], u) for u, _, d in G.in_edges(pend, data=True) if isinstance(d['param'], int))]
        state = G.nodes[pend]['attr_dict']
        m[tgt].become(m[pend])
        G = m.source_net
        st['pending'] = None
        st['scal'] = [n for n in st['scal'] if n in G.nodes]
        if pend in G.nodes:
            raise Fail('c14:become', 'become(%s <- %s): the replacement node is still in the model' % (tgt, pend))
        if sorted((w, repr(d['param'])) for _, w, d in G.out_edges(tgt, data=True)) != kids:
            raise Fail('c14:become', 'become(%s <- %s): children not kept: had %s' % (tgt, pend, kids))
        got = sorted((u, repr(d['param'])) for u, _, d in G.in_edges(tgt, data=True))
        if got != ins:
            raise Fail('c14:become', "become(%s <- %s): parents with params are %s, the replacement had %s" % (tgt, pend, got, ins))
        if list(m.get_parents(tgt)) != want_parents:
            raise Fail('c14:become', "become(%s <- %s): positional parents %s, the replacement had %s" % (tgt, pend, list(m.get_parents(tgt)), want_parents))
        if G.nodes[tgt]['attr_dict'] is not state:
            raise Fail('c14:become', "become(%s <- %s): state is not the replacement's state" % (tgt, pend))
        out = gen(m, 23 + i)
        if out is not None and len(want_parents) == 2 and all(p in out for p in want_parents):
            want = sub2(np.asarray(out[want_parents[0]]), np.asarray(out[want_parents[1]]))
            st['nontrivial'] += 1
            if not np.allclose(np.asarray(out[tgt]), want):
                raise Fail('c14:become-generate', 'become(%s <- %s): seeded output is not sub2(%s, %s) of the same run' % (tgt, pend, want_parents[0], want_parents[1]))
    elif kind in ('remove', 'remove_any'):
        cands = [n for n in un if G.out_degree(n) == 0] if kind == 'remove' else un
        if len(un) <= 1 or not cands:
            return m
        tgt = cands[i % len(cands)]
        sole = [u for u, _, d in G.in_edges(tgt, data=True) if u[0] == '_' and G.degree(u) == 1 and isinstance(d['param'], int)]
        if (i // 5) % 2:
            m.observed.setdefault(tgt, np.zeros((1, 1)))
            for u in sole[:1]:
                m.observed.setdefault(u, np.zeros((1, 1)))
        before = set(G.nodes)
        m.remove_node(tgt)
        G = m.source_net
        gone = before - set(G.nodes)
        if tgt in G.nodes or tgt in m.observed:
            raise Fail('c14:remove', 'remove_node(%s): node or its observed data still there' % tgt)
        for u in sole:
            if u in G.nodes or u in m.observed:
                raise Fail('c14:remove', 'remove_node(%s): sole private constant %s (or its observed data) left behind' % (tgt, u))
        if gone - {tgt} - set(sole):
            raise Fail('c14:remove', 'remove_node(%s): also removed %s' % (tgt, sorted(gone - {tgt} - set(sole))))
        st['scal'] = [n for n in st['scal'] if n in G.nodes]
    elif kind == 'setparams':
        want = [n for k_, n in enumerate(scal) if (i >> k_) & 1]
        m.parameter_names = want
        if list(m.parameter_names) != sorted(want):
            raise Fail('c14:parameter_names', 'after parameter_names = %s the getter gives %s' % (want, list(m.parameter_names)))
        try:
            m.parameter_names = want + ['no_such_node']
            raise Fail('c14:parameter_names', 'unknown parameter name accepted')
        except ValueError:
            m.parameter_names = want
    elif kind == 'copy':
        g0 = gen(m, 11 + i)
        k = m.copy()
        if view(k) != view(m):
            raise Fail('c14:copy-view', 'copy differs from the original in structure / state contents / observed data')
        g1 = gen(k, 11 + i)
        if g0 != g1:
            raise Fail('c14:copy-generate', 'copy generates different seeded outputs')
        st['nontrivial'] += g0 is not None
        st['gens'] = st.get('gens', 0) + (g0 is not None)
        if check_independence and (i // 8) % 2:
            # the reverse direction: edit the ORIGINAL, the copy must keep its view
            snap = view(k)
            what = apply_mutator(elfi, m, i, st)
            st['scal'] = [n for n in st['scal'] if n in m.source_net.nodes]
            if view(k) != snap:
                raise Fail(INDEP, 'k = m.copy(); m.%s changed the copy k' % what)
        elif check_independence:
            snap = view(m)
            what = apply_mutator(elfi, k, i, st)
            if view(m) != snap:
                raise Fail(INDEP, 'k = m.copy(); k.%s changed the original m' % what)
            if (i // 4) % 2:
                st['scal'] = [n for n in st['scal'] if n in k.source_net.nodes]
                st['pending'] = st.get('pending') if st.get('pending') in k.source_net.nodes else None
                return k
    elif kind == 'saveload':
        g0 = gen(m, 5 + i)
        m.save(prefix=tmp)
        r = type(m).load(m.name, prefix=tmp)
        if view_values(r) != view_values(m):
            raise Fail('c14:saveload-view', 'reloaded model differs from the saved one')
        if gen(r, 5 + i) != g0:
            raise Fail('c14:saveload-generate', 'reloaded model generates different seeded outputs')
        st['nontrivial'] += g0 is not None
        m = r
    else:
        raise ValueError(kind)
    return m


KINDS = ['add_op', 'add_prior', 'become', 'remove', 'remove_any', 'setparams', 'copy', 'saveload', 'prep', 'become_pending']
WEIGHTS = [3, 3, 4, 3, 1, 2, 4, 2, 2, 2]


def run_sequence(elfi, variant, ops, check_independence=True, tmp=None):
    """-> None or failure dict"""
    own_tmp = tmp is None
    tmp = tmp or tempfile.mkdtemp(prefix='c14-', dir='/var/tmp')
    st = dict(uid=0, nontrivial=0)
    try:
        with native.time_limit(120):
            m, scal = base_model(elfi, variant)
            st['scal'] = list(scal)
            bad = model_ok(m)
            if bad:
                return dict(signature='c14:model_ok', what='base model: ' + bad[0], nontrivial=0)
            for n, op in enumerate(ops):
                try:
                    m = step(elfi, m, op, st, check_independence, tmp)
                except Fail as f:
                    return dict(signature=f.sig, what='step %d %s: %s' % (n, list(op), f.what), nontrivial=st['nontrivial'])
                bad = model_ok(m)
                if bad:
                    return dict(signature='c14:' + bad[0].split(':')[0], what='after step %d %s: %s' % (n, list(op), bad[0]), nontrivial=st['nontrivial'])
    except native.NativeTimeout as e:
        return dict(signature='c14:timeout', what=str(e), nontrivial=st['nontrivial'])
    except Exception as e:
        return dict(signature='c14:exception', what='%s: %s' % (type(e).__name__, str(e)[:200]), nontrivial=st['nontrivial'])
    finally:
        if own_tmp:
            shutil.rmtree(tmp, ignore_errors=True)
    return dict(signature=None, nontrivial=st['nontrivial'])


def replay_input(inp):
    """True iff the property HOLDS on this input"""
    elfi = native.import_elfi()
    inp = inp.get('input', inp)         # a bounded failure record wraps the input
    r = run_sequence(elfi, inp['variant'], [tuple(o) for o in inp['ops']], inp.get('check_independence', True))
    return r['signature'] is None


def sequences(tier, seed):
    rnd = random.Random(1000 + seed)
    L = 5 if tier == 'quick' else 6
    n = 36 if tier == 'quick' else 260
    fixed = [[('copy', j)] for j in range(4)] + [[('become', 0), ('copy', 3)], [('add_op', 1), ('remove', 0), ('saveload', 0)],
                                                 [('setparams', 1), ('copy', 0), ('saveload', 1)], [('become', 1), ('become', 0), ('remove_any', 1)]]
    # histories named by the property's soft spots: a replacement whose predecessor insertion order differs from its positional
    # order (its first parent was itself replaced in between); copies of a model WITHOUT observed data (variant 2), edited both ways
    fixed += [[('add_op', 0), ('prep', 0), ('become', 0), ('become_pending', 0)], [('add_op', 1), ('prep', 1), ('become', 1), ('become_pending', 0), ('copy', 0)],
              [('copy', 1)], [('copy', 3)], [('copy', 9)], [('copy', 11)], [('copy', 5), ('copy', 1)]]
    out = [(v, ops) for v in (0, 1, 2) for ops in fixed]
    for _ in range(n):
        ops = [(rnd.choices(KINDS, WEIGHTS)[0], rnd.randrange(0, 64)) for _ in range(rnd.randint(2, L))]
        out.append((rnd.randrange(3), ops))
    return out, L


def run(tier='quick', seed=0, first_failure_only=True, check_independence=True, skip=()):
    elfi = native.import_elfi()
    seqs, L = sequences(tier, seed)
    tmp = tempfile.mkdtemp(prefix='c14-', dir='/var/tmp')
    cases = nontrivial = 0
    failures = []
    seen = set()
    try:
        for variant, ops in seqs:
            cases += 1
            r = run_sequence(elfi, variant, ops, check_independence, tmp)
            nontrivial += 1 if (r.get('nontrivial') or len(ops) >= 3) else 0
            if r['signature'] and r['signature'] not in skip and r['signature'] not in seen:
                seen.add(r['signature'])
                failures.append(dict(signature=r['signature'], what=r['what'],
                                     input=dict(variant=variant, ops=[list(o) for o in ops], check_independence=check_independence)))
                if first_failure_only:
                    break
    finally:
        shutil.rmtree(tmp, ignore_errors=True)
    return dict(name='edit-sequences', bound='%d seeded edit sequences of <= %d steps over 2 base models (5-6 user nodes + private constants), '
                                             'interleaved with copy() and save()/load()' % (len(seqs), L),
                rule='non-trivial = a sequence of >= 3 steps, or one in which a copy / reloaded model was run with generate(seed) and compared',
                cases=cases, nontrivial=nontrivial, failures=failures)


def independence_probe(prefer=0):
    """the direct F2 probe: -> failing input or None"""
    elfi = native.import_elfi()
    for j in [prefer] + [x for x in (0, 1, 2, 3, 9, 11) if x != prefer]:
        for v in (0, 1, 2):
            r = run_sequence(elfi, v, [('copy', j)])
            if r['signature'] == INDEP:
                return dict(variant=v, ops=[['copy', j]], check_independence=True), r['what']
    return None
