"""Bounded stand-in / replay vehicle for C15: executable contract of get_sub_seed on the REAL function.
Bound: every high in 1..HIGH_MAX, seeds 0..SEEDS-1, every index sequence of length <= L over
0..high (high itself must be rejected) sharing one cache, plus the cache-free call; oracle = the
(i+1)-th distinct value, in order of first occurrence, of RandomState(seed).randint(high, dtype=uint32)."""
import itertools

import numpy as np

from pyvc import native


def oracle(seed, high, n=4000):
    st = np.random.RandomState(seed).randint(high, size=n, dtype='uint32')
    out, seen = [], set()
    for v in st:
        v = int(v)
        if v not in seen:
            seen.add(v)
            out.append(v)
            if len(out) == high:
                break
    return out


def check_sequence(gss, seed, high, seq, use_cache, orc=None):
    """-> None or a failure dict"""
    orc = orc or oracle(seed, high)
    cache = {} if use_cache else None
    got = []
    for i in seq:
        try:
            with native.time_limit(5):
                r = gss(seed, i, high=high, cache=cache)
        except native.NativeTimeout as e:
            return dict(what='%s for a servable index' % e if i < high else '%s' % e, input=dict(seed=seed, high=high, seq=list(seq), cache=use_cache, at=i))
        except ValueError:
            if i >= high:
                got.append('ValueError')
                continue
            return dict(what='ValueError for a servable index', input=dict(seed=seed, high=high, seq=list(seq), cache=use_cache, at=i))
        except Exception as e:
            return dict(what='%s: %s' % (type(e).__name__, e), input=dict(seed=seed, high=high, seq=list(seq), cache=use_cache, at=i))
        if i >= high:
            return dict(what='index >= high was served (%r) instead of rejected' % (r,), input=dict(seed=seed, high=high, seq=list(seq), cache=use_cache, at=i))
        r = int(r)
        got.append(r)
        if not (0 <= r < high):
            return dict(what='result %d outside [0, %d)' % (r, high), input=dict(seed=seed, high=high, seq=list(seq), cache=use_cache, at=i))
        if len(orc) > i and r != orc[i]:
            return dict(what='index %d: got %d, the (i+1)-th distinct stream value is %d' % (i, r, orc[i]),
                        input=dict(seed=seed, high=high, seq=list(seq), cache=use_cache, at=i))
    return None


def replay_input(inp):
    """True iff the property HOLDS on this input (used by --replay)"""
    gss = native.load_file_module('elfi/utils.py').get_sub_seed
    return check_sequence(gss, inp['seed'], inp['high'], inp['seq'], inp['cache']) is None


def run(tier='quick', seed=0, first_failure_only=True, high_max=None, seeds=None, L=None):
    gss = native.load_file_module('elfi/utils.py').get_sub_seed
    high_max = high_max or (5 if tier == 'quick' else 6)
    seeds = seeds or (12 if tier == 'quick' else 64)
    L = L or (3 if tier == 'quick' else 4)
    cases = nontrivial = 0
    failures = []
    distinct_results = set()
    for high in range(1, high_max + 1):
        for sd in range(seed, seed + seeds):
            orc = oracle(sd, high)
            collide = len(set(np.random.RandomState(sd).randint(high, size=high, dtype='uint32').tolist())) < high
            for ln in range(1, L + 1):
                for seq in itertools.product(range(0, high + 1), repeat=ln):
                    for use_cache in ((True, False) if ln == 1 else (True,)):
                        cases += 1
                        nontrivial += 1 if (collide and ln > 1) else 0
                        f = check_sequence(gss, sd, high, seq, use_cache, orc)
                        if f:
                            f['signature'] = 'c15:' + f['what'].split(':')[0][:40]
                            failures.append(f)
                            if first_failure_only:
                                return dict(name='get_sub_seed-exhaustive', bound='high<=%d seeds %d..%d sequences<=%d' % (high_max, seed, seed + seeds - 1, L),
                                            rule='non-trivial = sequence of >= 2 requests over one cache on a stream whose first `high` draws collide',
                                            cases=cases, nontrivial=nontrivial, failures=failures)
    return dict(name='get_sub_seed-exhaustive', bound='high<=%d seeds %d..%d sequences<=%d' % (high_max, seed, seed + seeds - 1, L),
                rule='non-trivial = sequence of >= 2 requests over one cache on a stream whose first `high` draws collide',
                cases=cases, nontrivial=nontrivial, failures=failures)
