"""Bounded stand-in / replay vehicle for C15: executable contract of get_sub_seed on the REAL function.
Bound: every high in 1..HIGH_MAX, seeds 0..SEEDS-1, every index sequence of length <= L over
0..high (high itself must be rejected) sharing one cache, plus the cache-free call; oracle = the
(i+1)-th distinct value, in order of first occurrence, of RandomState(seed).randint(high, dtype=uint32)."""
import itertools

import numpy as np

from pyvc import native


def oracle(seed, high, n=4000):
    st = np.random.RandomState(seed).randint(high, size=n, dtype='uint32')
    out, seen = [], set()
    for v in st:
        v = int(v)
        if v not in seen:
            seen.add(v)
            out.append(v)
            if len(out) == high:
                break
    return out


def check_sequence(gss, seed, high, seq, use_cache, orc=None):
    """-> None or a failure dict"""
    orc = orc or oracle(seed, high)
    cache = {} if use_cache else None
    got = []
    for i in seq:
        try:
            with native.time_limit(5):
                r = gss(seed, i, high=high, cache=cache)
        except native.NativeTimeout as e:
            return dict(what='%s for a servable index' % e if i < high else '%s' % e, input=dict(seed=seed, high=high, seq=list(seq), cache=use_cache, at=i))
        except ValueError:
            if i >= high:
                got.append('ValueError')
                continue
            return dict(what='ValueError for a servable index', input=dict(seed=seed, high=high, seq=list(seq), cache=use_cache, at=i))
        except Exception as e:
            return dict(what='%s: %s' % (type(e).__name__, e), input=dict(seed=seed, high=high, seq=list(seq), cache=use_cache, at=i))
        if i >= high:
            return dict(what='index >= high was served (%r) instead of rejected' % (r,), input=dict(seed=seed, high=high, seq=list(seq), cache=use_cache, at=i))
        r = int(r)
        got.append(r)
        if not (0 <= r < high):
            return dict(what='result %d outside [0, %d)' % (r, high), input=dict(seed=seed, high=high, seq=list(seq), cache=use_cache, at=i))
        if len(orc) > i and r != orc[i]:
            return dict(what='index %d: got %d, the (i+1)-th distinct stream value is %d' % (i, r, orc[i]),
                        input=dict(seed=seed, high=high, seq=list(seq), cache=use_cache, at=i))
    return None


def replay_input(inp):
    """True iff the property HOLDS on this input (used by --replay)"""
    gss = native.load_file_module('elfi/utils.py').get_sub_seed
    return check_sequence(gss, inp['seed'], inp['high'], inp['seq'], inp['cache']) is None


def run(tier='quick', seed=0, first_failure_only=True, high_max=None, seeds=None, L=None):
    gss = native.load_file_module('elfi/utils.py').get_sub_seed
    high_max = high_max or (5 if tier == 'quick' else 6)
    seeds = seeds or (12 if tier == 'quick' else 64)
    L = L or (3 if tier == 'quick' else 4)
    cases = nontrivial = 0
    failures = []
    distinct_results = set()
    for high in range(1, high_max + 1):
        for sd in range(seed, seed + seeds):
            orc = oracle(sd, high)
            collide = len(set(np.random.RandomState(sd).randint(high, size=high, dtype='uint32').tolist())) < high
            for ln in range(1, L + 1):
                for seq in itertools.product(range(0, high + 1), repeat=ln):
                    for use_cache in ((True, False) if ln == 1 else (True,)):
                        cases += 1
                        nontrivial += 1 if (collide and ln > 1) else 0
                        f = check_sequence(gss, sd, high, seq, use_cache, orc)
                        if f:
                            f['signature'] = 'c15:' + f['what'].split(':')[0][:40]
                            failures.append(f)
                            if first_failure_only:
                                return dict(name='get_sub_seed-exhaustive', bound='high<=%d seeds %d..%d sequences<=%d' % (high_max, seed, seed + seeds - 1, L),
                                            rule='non-trivial = sequence of >= 2 requests over one cache on a stream whose first `high` draws collide',
                                            cases=cases, nontrivial=nontrivial, failures=failures)
    return dict(name='get_sub_seed-exhaustive', bound='high<=%d seeds %d..%d sequences<=%d' % (high_max, seed, seed + seeds - 1, L),
                rule='non-trivial = sequence of >= 2 requests over one cache on a stream whose first `high` draws collide',
                cases=cases, nontrivial=nontrivial, failures=failures)


# ---------------------------------------------------------------- call sites: prepare_seed (elfi/model/tools.py), RandomStateLoader.load (elfi/loader.py)
def _ref_sub_seed(seed, index):
    """the reference: the real get_sub_seed WITHOUT a cache (history-free by construction; itself under contract above)"""
    return int(native.load_file_module('elfi/utils.py').get_sub_seed(int(seed), int(index)))


def check_prepare_seed_history(history):
    """history = [(batch_seed, index_in_batch or None or 'absent'), ...] on ONE interpreter state (module state persists):
    every call must deliver seed = get_sub_seed(state word of the generator, index or 0), whatever was requested before."""
    elfi = native.import_elfi()
    from elfi.model import tools
    for k, (bs, idx) in enumerate(history):
        rs = np.random.RandomState(bs)
        word = int(rs.get_state()[1][0])
        kw = dict(random_state=rs, batch_index=3, other='x')
        if idx != 'absent':
            kw['index_in_batch'] = idx
        with native.time_limit(20):
            inputs, out = tools.prepare_seed(1.5, **kw)
        want = _ref_sub_seed(word, idx if isinstance(idx, int) else 0)
        if out.get('seed') != want:
            return dict(what='prepare_seed call %d of the history (batch seed %d, index_in_batch %r): seed %r, get_sub_seed(state word, index) = %d'
                             % (k, bs, idx, out.get('seed'), want), input=dict(kind='prepare_seed', history=[list(h) for h in history], at=k))
        if inputs != (1.5,) or any(out.get(a) is not kw[a] for a in kw):
            return dict(what='prepare_seed call %d changed the inputs / other keyword arguments' % k, input=dict(kind='prepare_seed', history=[list(h) for h in history], at=k))
    return None


def check_loader_history(history):
    """history = [(context number, batch_index), ...]: two ComputationContexts with different seeds, loads interleaved;
    the generator put into the net must be RandomState(get_sub_seed(context.seed, batch_index))"""
    elfi = native.import_elfi()
    import networkx as nx
    from elfi.loader import RandomStateLoader
    from elfi.model.elfi_model import ComputationContext
    ctxs = [ComputationContext(batch_size=2, seed=101), ComputationContext(batch_size=2, seed=202)]
    for k, (c, bi) in enumerate(history):
        net = nx.DiGraph()
        net.add_node('_random_state')
        with native.time_limit(20):
            RandomStateLoader.load(ctxs[c], net, bi)
        got = net.nodes['_random_state'].get('output')
        want = np.random.RandomState(_ref_sub_seed(ctxs[c].seed, bi))
        if got is None or not all(np.array_equal(a, b) if isinstance(a, np.ndarray) else a == b for a, b in zip(got.get_state(), want.get_state())):
            return dict(what='RandomStateLoader.load call %d of the history (context seed %d, batch_index %d): the generator is not RandomState(get_sub_seed(seed, batch_index))'
                             % (k, ctxs[c].seed, bi), input=dict(kind='loader', history=[list(h) for h in history], at=k))
    return None


def run_call_sites(tier='quick', seed=0):
    cases = 0
    fails = []
    seeds = (seed + 77, seed + 20240915)
    idxs = (0, 1, 3) if tier == 'quick' else (0, 1, 2, 3, 5)
    hist = []
    for a in idxs:
        for b in idxs:
            for c in (idxs if tier != 'quick' else (1, 3)):
                hist.append([(seeds[0], a), (seeds[1], b), (seeds[0], c)])            # interleaved batches
                hist.append([(seeds[0], a), (seeds[0], b), (seeds[1], c)])            # a second batch starting in the middle
    hist += [[(seeds[0], None), (seeds[1], 2)], [(seeds[0], 'absent'), (seeds[1], 2)], [(seeds[0], 0), (seeds[0], 0), (seeds[0], 2), (seeds[0], 1)]]
    for h in hist:
        cases += 1
        try:
            f = check_prepare_seed_history(h)
        except native.NativeTimeout as e:
            f = None
        except Exception as e:
            f = dict(what='prepare_seed history raised %s: %s' % (type(e).__name__, str(e)[:160]), input=dict(kind='prepare_seed', history=[list(x) for x in h], at=-1))
        if f:
            f['signature'] = 'c15:prepare_seed-history'
            fails.append(f)
            break
    lh = []
    for a in idxs:
        for b in idxs:
            lh.append([(0, a), (1, b), (0, b), (1, a)])
            lh.append([(0, b), (0, a), (1, a), (0, a)])
    for h in lh:
        cases += 1
        try:
            f = check_loader_history(h)
        except native.NativeTimeout:
            f = None
        except Exception as e:
            f = dict(what='loader history raised %s: %s' % (type(e).__name__, str(e)[:160]), input=dict(kind='loader', history=[list(x) for x in h], at=-1))
        if f:
            f['signature'] = 'c15:loader-history'
            fails.append(f)
            break
    return dict(name='sub-seed-call-sites', bound='prepare_seed: %d histories of <= 4 calls over 2 batch seeds, indices %r, index None/absent; RandomStateLoader.load: %d histories of 4 loads over 2 contexts'
                     % (len(hist), idxs, len(lh)),
                rule='every derived seed = get_sub_seed(master seed, index) computed without a cache; all cases interleave two master seeds', cases=cases, nontrivial=cases, failures=fails)


_replay_input_get_sub_seed = replay_input


def replay_input(inp):      # noqa: F811
    if inp.get('kind') == 'prepare_seed':
        f = check_prepare_seed_history([tuple(h) for h in inp['history']])
        if f:
            print('replay observed:', f['what'])
        return f is None
    if inp.get('kind') == 'loader':
        f = check_loader_history([tuple(h) for h in inp['history']])
        if f:
            print('replay observed:', f['what'])
        return f is None
    return _replay_input_get_sub_seed(inp)
