"""Bounded stand-in / replay vehicle for C16 on the REAL code (elfi imported from the tree under analysis).

Families (each returns the standard dict; `input` of a failure is replayable through replay_input):
  sample   Sample objects from known arrays with distinguishable entries: d <= 3 parameters, n <= 4 samples (+ one n = 60 case
           that separates the 0.95 / 0.975 quantiles), every order of the parameter names, outputs holding extra keys in another
           order, weights none / given (with a zero weight; given to the constructor, attached afterwards, or replacing
           constructor weights - the reported statistics must follow the weights the object HOLDS), discrepancy none / given.  Oracles written independently (python loops).
  bolfi    BolfiSample from chains[c, t, j] = 10000 c + 100 t + j: C <= 3, N <= 6, d <= 3, every warm-up 0..N.
  save     save -> load round trips (pickle / JSON / CSV, stdlib readers) in a temp dir under /var/tmp, incl. numpy scalars / arrays in
           meta, a BolfiSample and an SmcSample with populations; direct calls of sample_object_to_dict / numpy_to_python_type.
  diag     gelman_rubin_statistic against an independently written textbook split R-hat; R-hat and ESS invariance under
           x -> -3x+7, under x -> a x + b on small and large scales (a in 1e-3 .. 1e-6, 1e3, 1e6, -1e-5; b in {0, 0.5}; each also against the
           textbook formula on the transformed chains) and under every permutation of the chains (C <= 4, N in 4..9, odd lengths included).
  ess      eff_sample_size against an independent O(n^2) implementation of the formula its docstring names (no FFT): a single chain
           given as a 1-d array and as (1, N), N in {4, 50, 400}, iid and AR(1) 0.5 / 0.9; 2-4 chains.
Floats: relative tolerance 1e-9 for diagnostics and means (1e-7 for ESS); file round trips are exact."""
import csv
import itertools
import json
import math
import os
import pickle
import shutil
import tempfile

import numpy as np

from pyvc import native

TOL = 1e-9
NAMES = ['pb', 'pa', 'pc']            # deliberately not in alphabetical order


def _res():
    return native.import_module('elfi.methods.results')


def _mcmc():
    return native.import_module('elfi.methods.mcmc')


def _utils():
    return native.import_module('elfi.methods.utils')


def _close(a, b, tol=TOL):
    a, b = float(a), float(b)
    if math.isnan(a) or math.isnan(b):
        return False
    return abs(a - b) <= tol * max(1.0, abs(a), abs(b))


def _out(name, bound, rule, cases, nontriv, fails):
    return dict(name=name, bound=bound, rule=rule, cases=cases, nontrivial=nontriv, failures=fails)


# ---------------------------------------------------------------- sample
def column(key_index, n):
    """distinguishable entries: column k, row i -> 100 (k+1) + i + a fraction"""
    return np.array([100.0 * (key_index + 1) + i + 0.25 * ((i * 7 + key_index) % 4) for i in range(n)])


def make_weights(kind, n):
    if kind == 'none':
        return None
    if kind == 'zero-first':
        return np.array([0.0] + [1.0 + 0.5 * i for i in range(n - 1)]) if n > 1 else np.array([2.0])
    return np.array([1.0 + ((i * 3) % 5) for i in range(n)], dtype=float)


def build_sample(inp):
    R = _res()
    n, order = inp['n'], inp['order']
    allkeys = ['zz_extra'] + sorted(NAMES[:inp['d']]) + ['disc']          # insertion order of outputs differs from parameter order
    outputs = {}
    for k in allkeys:
        idx = NAMES.index(k) if k in NAMES else (7 if k == 'disc' else 8)
        outputs[k] = column(idx, n)
    pn = [NAMES[j] for j in order]
    w = make_weights(inp['weights'], n)
    attach = inp.get('attach', 'init')
    w0 = w if attach == 'init' else (None if attach == 'after' else np.ones(n))
    s = R.Sample('method', outputs, pn, discrepancy_name='disc' if inp['disc'] else None, weights=w0, n_sim=np.int64(10 * n), threshold=np.float64(0.5))
    if attach != 'init':
        s.weights = w           # weights attached / replaced after construction, as SMC._extract_population does for every population
    return s, outputs, pn, w


def quantile_clause(x, w, alpha, q):
    ww = np.ones(len(x)) if w is None else np.asarray(w, float)
    tot = sum(float(v) for v in ww)
    if not any(float(v) == float(q) for v in x):
        return 'not an element of the stored column'
    le = sum(float(wi) for xi, wi in zip(x, ww) if xi <= q) / tot
    lt = sum(float(wi) for xi, wi in zip(x, ww) if xi < q) / tot
    if le < alpha - TOL:
        return 'weight of values <= q is %.6g < %g' % (le, alpha)
    if lt > alpha + TOL:
        return 'weight of values < q is %.6g > %g' % (lt, alpha)
    return None


def check_sample(inp):
    """-> None or a description of the first clause that fails"""
    with native.time_limit(60):
        s, outputs, pn, w = build_sample(inp)
        n, d = inp['n'], inp['d']
        if list(s.samples.keys()) != pn:
            return 'samples keys %r are not the parameter names in order %r' % (list(s.samples.keys()), pn)
        for k in pn:
            if not np.array_equal(s.samples[k], outputs[k]):
                return 'samples[%s] is not outputs[%s]' % (k, k)
        sa = s.samples_array
        if sa.shape != (n, d):
            return 'samples_array shape %r != (%d, %d)' % (sa.shape, n, d)
        for j, k in enumerate(pn):
            if not np.array_equal(sa[:, j], outputs[k]):
                return 'samples_array column %d is not outputs[%s]' % (j, k)
        if s.dim != d or s.n_samples != n:
            return 'dim / n_samples = %r / %r, expected %d / %d' % (s.dim, s.n_samples, d, n)
        disc = s.discrepancies
        if inp['disc']:
            if disc is None or not np.array_equal(disc, outputs['disc']):
                return 'discrepancies is not the discrepancy column'
        elif disc is not None:
            return 'discrepancies is not None without a discrepancy name'
        ww = [1.0] * n if w is None else [float(v) for v in w]
        means = s.sample_means
        cis = s.sample_means_and_95CIs
        if list(means.keys()) != pn or list(cis.keys()) != pn:
            return 'sample_means / CIs keys are not the parameter names in order'
        for k in pn:
            x = [float(v) for v in outputs[k]]
            m = sum(xi * wi for xi, wi in zip(x, ww)) / sum(ww)
            if not _close(means[k], m):
                return 'sample_means[%s] = %r, weighted average of the stored column is %r' % (k, float(means[k]), m)
            if not _close(cis[k][0], m):
                return 'CI mean of %s = %r, expected %r' % (k, float(cis[k][0]), m)
            for pos, alpha in ((1, 0.025), (2, 0.975)):
                f = quantile_clause(x, w, alpha, float(cis[k][pos]))
                if f:
                    return '%s bound of %s (%r) is not a weighted %g-quantile: %s' % ('lower' if pos == 1 else 'upper', k, float(cis[k][pos]), alpha, f)
            for alpha in (0.0, 0.3, 0.5, 1.0):
                f = quantile_clause(x, w, alpha, float(s.sample_quantiles(alpha=alpha)[k]))
                if f:
                    return 'sample_quantiles(%g)[%s] is not a weighted quantile: %s' % (alpha, k, f)
    return None


def sample_inputs(tier):
    dmax, nmax = 3, (3 if tier == 'quick' else 4)
    for d in range(1, dmax + 1):
        for order in itertools.permutations(range(d)):
            for n in list(range(1, nmax + 1)) + [60]:
                for wk in ('none', 'given', 'zero-first'):
                    for disc in (False, True):
                        if n == 60 and (disc or order != tuple(reversed(range(d)))):
                            continue
                        yield dict(fn='sample', d=d, order=list(order), n=n, weights=wk, disc=disc)
                        if wk != 'none' and not disc and n >= 2:
                            for attach in ('after', 'replaced'):
                                yield dict(fn='sample', d=d, order=list(order), n=n, weights=wk, disc=disc, attach=attach)


def run_sample(tier, seed, stop_first=True):
    cases = nontriv = 0
    fails = []
    for inp in sample_inputs(tier):
        cases += 1
        nontriv += 1 if (inp['d'] >= 2 and inp['order'] != sorted(inp['order'])) or inp['weights'] != 'none' else 0
        try:
            f = check_sample(inp)
        except Exception as e:
            f = '%s: %s' % (type(e).__name__, e)
        if f:
            fails.append(dict(signature='c16:sample', what=f, input=inp))
            if stop_first:
                break
    return _out('sample-objects', 'd<=3 (every name order), n<=%d and n=60, weights none/given/zero-first, discrepancy none/given' % (3 if tier == 'quick' else 4),
                'non-trivial = parameter order differs from the sorted / insertion order, or weights given', cases, nontriv, fails)


# ---------------------------------------------------------------- bolfi
def check_bolfi(inp):
    R = _res()
    C, N, d, w = inp['C'], inp['N'], inp['d'], inp['warmup']
    chains = np.array([[[10000.0 * c + 100.0 * t + j for j in range(d)] for t in range(N)] for c in range(C)]).reshape(C, N, d)
    saved = chains.copy()
    pn = [NAMES[j] for j in inp['order']]
    with native.time_limit(60):
        b = R.BolfiSample('BOLFI', chains, pn, w, acc_rate=0.5)
    M = N - w
    if list(b.samples.keys()) != pn:
        return 'samples keys %r are not the parameter names in order %r' % (list(b.samples.keys()), pn)
    for j, k in enumerate(pn):
        col = b.samples[k]
        if len(col) != C * M:
            return 'samples[%s] has %d entries, expected n_chains * (N - warmup) = %d' % (k, len(col), C * M)
        for c in range(C):
            for t in range(M):
                if col[c * M + t] != saved[c, w + t, j]:
                    return 'samples[%s][%d] = %r, chains[%d, %d, %d] = %r' % (k, c * M + t, float(col[c * M + t]), c, w + t, j, float(saved[c, w + t, j]))
    if not np.array_equal(chains, saved):
        return 'the caller\'s chains array was modified'
    if b.chains is chains or not np.array_equal(b.chains, saved):
        return 'meta chains is not an equal copy of the input'
    if b.n_chains != C or b.warmup != w or b.acc_rate != 0.5 or b.n_samples != C * M or b.dim != d:
        return 'n_chains / warmup / n_samples / dim wrong'
    with native.time_limit(60):
        b2 = R.BOLFIRESample('BOLFIRE', chains, pn, w)
    for j, k in enumerate(pn):
        if list(b2.samples.keys()) != pn or [float(v) for v in b2.samples[k]] != [float(saved[c, w + t, j]) for c in range(C) for t in range(M)]:
            return 'BOLFIRESample: samples[%s] is not the chains minus warm-up, chain by chain' % k
    if not np.array_equal(chains, saved):
        return 'BOLFIRESample modified the caller\'s chains array'
    return None


def bolfi_inputs(tier):
    for C in range(1, 4):
        for N in range(2, (5 if tier == 'quick' else 7)):
            for d in range(1, 4):
                orders = [tuple(range(d)), tuple(reversed(range(d)))] if d > 1 else [(0,)]
                for order in orders:
                    for w in range(0, N):
                        yield dict(fn='bolfi', C=C, N=N, d=d, order=list(order), warmup=w)


def run_bolfi(tier, seed, stop_first=True):
    cases = nontriv = 0
    fails = []
    for inp in bolfi_inputs(tier):
        cases += 1
        nontriv += 1 if inp['C'] >= 2 and inp['d'] >= 2 and 0 < inp['warmup'] < inp['N'] - 1 else 0
        try:
            f = check_bolfi(inp)
        except Exception as e:
            f = '%s: %s' % (type(e).__name__, e)
        if f:
            fails.append(dict(signature='c16:bolfi', what=f, input=inp))
            if stop_first:
                break
    return _out('bolfi-sample', 'C<=3, N<=%d, d<=3, warm-up 0..N-1, distinguishable entries' % (4 if tier == 'quick' else 6),
                'non-trivial = at least two chains and two parameters with a proper warm-up', cases, nontriv, fails)


# ---------------------------------------------------------------- save / load
def _tmpdir():
    return tempfile.mkdtemp(prefix='pyvc-c16-', dir='/var/tmp')


def check_save(inp):
    R = _res()
    d = _tmpdir()
    try:
        with native.time_limit(60):
            kind = inp['kind']
            if kind == 'bolfi':
                chains = np.array([[[0.1 * (10000 * c + 100 * t + j) + 1.0 / 3 for j in range(2)] for t in range(4)] for c in range(2)])
                s = R.BolfiSample('BOLFI', chains, ['pb', 'pa'], 1, acc_rate=np.float64(0.25))
                outputs, pn, w = dict(s.outputs), ['pb', 'pa'], None
            else:
                s, outputs, pn, w = build_sample(dict(d=inp['d'], order=inp['order'], n=inp['n'], weights=inp['weights'], disc=inp['disc']))
                for k in outputs:
                    outputs[k] *= 0.1           # values without an exact decimal representation (in place: samples hold the same arrays)
                    outputs[k] += 1.0 / 3
                if kind == 'smc':
                    pops = [R.Sample('pop', {k: v * (p + 2) for k, v in outputs.items()}, pn, weights=np.ones(inp['n']), threshold=np.float64(p + 0.5), n_sim=np.int32(5)) for p in range(2)]
                    s = R.SmcSample('SMC', outputs, pn, pops, weights=(np.ones(inp['n']) if w is None else w), n_sim=np.int64(7))
                    w = s.weights
            # ---- pickle
            f = os.path.join(d, 's.pkl')
            s.save(f)
            with open(f, 'rb') as fh:
                s2 = pickle.load(fh)
            if list(s2.samples.keys()) != pn or any(not np.array_equal(s2.samples[k], s.samples[k]) for k in pn):
                return 'pickle: samples differ after reading back'
            if not np.array_equal(s2.samples_array, s.samples_array) or set(s2.meta) != set(s.meta) or s2.method_name != s.method_name:
                return 'pickle: samples_array / meta / method_name differ after reading back'
            if (w is None) != (s2.weights is None) or (w is not None and not np.array_equal(s2.weights, w)):
                return 'pickle: weights differ after reading back'
            # ---- csv
            f = os.path.join(d, 's.csv')
            s.save(f)
            with open(f, newline='') as fh:
                rows = list(csv.reader(fh))
            if rows[0] != pn:
                return 'csv: header %r is not the parameter names in order' % (rows[0],)
            if len(rows) - 1 != s.n_samples:
                return 'csv: %d data rows for %d samples' % (len(rows) - 1, s.n_samples)
            for i, row in enumerate(rows[1:]):
                for j, k in enumerate(pn):
                    if float(row[j]) != float(s.samples[k][i]):
                        return 'csv: row %d column %s reads back %r, stored %r' % (i, k, row[j], float(s.samples[k][i]))
            # ---- json
            f = os.path.join(d, 's.json')
            s.save(f)
            with open(f) as fh:
                js = json.load(fh)
            if list(js['samples'].keys()) != pn:
                return 'json: samples keys %r are not the parameter names in order' % (list(js['samples'].keys()),)
            for k in pn:
                if js['samples'][k] != [float(v) for v in s.samples[k]]:
                    return 'json: samples[%s] differ after reading back' % k
            if js['n_samples'] != s.n_samples or js['dim'] != s.dim or js['parameter_names'] != pn or js['method_name'] != s.method_name:
                return 'json: n_samples / dim / parameter_names / method_name differ'
            if 'outputs' in js:
                return 'json: the outputs dict was written (it is meant to be skipped)'
            disc = s.discrepancies
            if (disc is None) != (js['discrepancies'] is None) or (disc is not None and js['discrepancies'] != [float(v) for v in disc]):
                return 'json: discrepancies differ after reading back'
            if (w is None) != (js['weights'] is None) or (w is not None and js['weights'] != [float(v) for v in w]):
                return 'json: weights differ after reading back'
            for k, v in s.meta.items():
                if k not in js:
                    return 'json: meta key %s is missing' % k
                exp = v.tolist() if isinstance(v, np.ndarray) else (v.item() if isinstance(v, np.generic) else v)
                if js[k] != exp:
                    return 'json: meta value %s reads back %r, stored %r' % (k, js[k], exp)
            if kind == 'smc':
                pj = js.get('populations')
                if not isinstance(pj, dict) or list(pj.keys()) != ['A', 'B']:
                    return 'json: populations not written as A, B'
                for name, pop in zip(['A', 'B'], s.populations):
                    for k in pn:
                        if pj[name]['samples'][k] != [float(v) for v in pop.samples[k]]:
                            return 'json: population %s samples[%s] differ' % (name, k)
                    if pj[name]['threshold'] != float(pop.threshold) or pj[name]['n_sim'] != int(pop.n_sim):
                        return 'json: population %s meta differ' % name
    finally:
        shutil.rmtree(d, ignore_errors=True)
    return None


def check_helpers(inp):
    """direct calls of the two JSON helpers on a known object / dict"""
    U = _utils()

    class E:
        pass
    e = E()
    e.method_name, e.outputs, e.parameter_names = 'm', {'x': 1}, ['a']
    e.meta = {'n_sim': np.int64(3), 'thr': np.float32(0.5)}
    e.samples = {'a': np.array([1.0, 2.0])}
    e.weights = None
    e.populations = ['p']
    data = {'first': 0}
    with native.time_limit(60):
        U.sample_object_to_dict(data, e, skip=inp['skip'])
    exp = {'first': data['first'], 'method_name': e.method_name, 'parameter_names': e.parameter_names, 'n_sim': e.meta['n_sim'], 'thr': e.meta['thr'],
           'samples': e.samples, 'weights': None, 'populations': e.populations}
    exp.pop(inp['skip'], None)
    if inp['skip'] == 'meta':
        exp.pop('n_sim'), exp.pop('thr')
    if set(data) != set(exp) or any(data[k] is not exp[k] for k in exp):
        return 'sample_object_to_dict(skip=%r): keys %r, expected %r (same objects)' % (inp['skip'], sorted(data), sorted(exp))
    d2 = {'arr': np.array([[1, 2], [3, 4]]), 'i': np.int32(4), 'f': np.float64(0.1), 's': 'txt', 'n': None, 'py': 3,
          'nested': {'arr': np.array([0.5]), 'i': np.uint8(2), 'f': np.float32(0.25), 's': 'u', 'deep': {'arr': np.array([1])}}}
    deep = d2['nested']['deep']['arr']
    with native.time_limit(60):
        U.numpy_to_python_type(d2)
    want = {'arr': [[1, 2], [3, 4]], 'i': 4, 'f': 0.1, 's': 'txt', 'n': None, 'py': 3}
    for k, v in want.items():
        if d2[k] != v or type(d2[k]) is not type(v):
            return 'numpy_to_python_type: top-level %s -> %r (%s), expected %r' % (k, d2[k], type(d2[k]).__name__, v)
    wantn = {'arr': [0.5], 'i': 2, 'f': 0.25, 's': 'u'}
    for k, v in wantn.items():
        if d2['nested'][k] != v or type(d2['nested'][k]) is not type(v):
            return 'numpy_to_python_type: nested %s -> %r (%s), expected %r' % (k, d2['nested'][k], type(d2['nested'][k]).__name__, v)
    if d2['nested']['deep']['arr'] is not deep:
        return 'numpy_to_python_type: a second nesting level was touched'
    if set(d2) != set(want) | {'nested'} or set(d2['nested']) != set(wantn) | {'deep'}:
        return 'numpy_to_python_type: key sets changed'
    return None


def save_inputs(tier):
    for d in (1, 2, 3):
        for n in (1, 3):
            for wk in ('none', 'given'):
                for disc in (False, True):
                    yield dict(fn='save', kind='sample', d=d, order=list(reversed(range(d))), n=n, weights=wk, disc=disc)
    yield dict(fn='save', kind='smc', d=2, order=[1, 0], n=3, weights='given', disc=True)
    yield dict(fn='save', kind='smc', d=1, order=[0], n=2, weights='none', disc=False)
    yield dict(fn='save', kind='bolfi')
    for skip in ('', 'populations', 'meta', 'weights'):
        yield dict(fn='helpers', skip=skip)


def run_save(tier, seed, stop_first=True):
    cases = nontriv = 0
    fails = []
    for inp in save_inputs(tier):
        cases += 1
        nontriv += 1 if inp.get('d', 2) >= 2 else 0
        try:
            f = check_save(inp) if inp['fn'] == 'save' else check_helpers(inp)
        except Exception as e:
            f = '%s: %s' % (type(e).__name__, e)
        if f:
            fails.append(dict(signature='c16:save', what=f, input=inp))
            if stop_first:
                break
    return _out('save-load-round-trip', 'pickle / JSON / CSV in a temp dir: d<=3, n in {1,3}, weights none/given, discrepancy none/given, SMC with 2 populations, BOLFI; helper calls',
                'non-trivial = at least two parameters in non-sorted order', cases, nontriv, fails)


# ---------------------------------------------------------------- diagnostics
def textbook_ess(x, with_ties=None):
    """effective sample size, BDA3 11.5 / Stan 2.14 as the code's docstring names it, written with python loops (no numpy, no FFT):
    x = list of m chains of n draws.  W = mean of the unbiased chain variances, B = n * unbiased variance of the chain means
    (0 for a single chain), var+ = ((n-1) W + B) / n, lag-t autocovariance of a chain = sum_i d_i d_{i+t} / (n - t),
    rho_t = 1 - (W - mean over chains of that autocovariance) / var+, summed over t = 1, 2, ... up to the first negative rho_t;
    ESS = m n / (1 + 2 sum rho_t)"""
    m, n = len(x), len(x[0])
    mu = [sum(float(v) for v in ch) / n for ch in x]
    dev = [[float(v) - mu[c] for v in x[c]] for c in range(m)]
    s2 = [sum(d * d for d in dev[c]) / (n - 1) for c in range(m)]
    Wv = sum(s2) / m
    if m == 1:
        Bv = 0.0
    else:
        g = sum(mu) / m
        Bv = n * sum((u - g) ** 2 for u in mu) / (m - 1)
    vp = ((n - 1) * Wv + Bv) / n
    tot = 0.0
    # a rho_t within rounding of 0: stopping there is as right as going on (FFT vs direct summation)
    for t in range(1, n):
        ac = sum(sum(dev[c][i] * dev[c][i + t] for i in range(n - t)) / (n - t) for c in range(m)) / m
        rho = 1.0 - (Wv - ac) / vp
        if abs(rho) < 1e-9 and with_ties is not None:
            with_ties.append(m * n / (1.0 + 2.0 * tot))      # the value if the sum stops here
            continue                                          # ... and the main value goes on (rho counted as 0)
        if not rho >= 0:
            break
        tot += rho
    return m * n / (1.0 + 2.0 * tot)


def ess_chains(inp):
    if inp.get('values') is not None:
        return np.array(inp['values'], dtype=float)
    rs = np.random.RandomState(inp['seed'])
    m, n, phi = inp['C'], inp['N'], inp['phi']
    e = rs.randn(m, n)
    x = np.empty((m, n))
    x[:, 0] = e[:, 0]
    for t in range(1, n):
        x[:, t] = phi * x[:, t - 1] + e[:, t]          # AR(1), phi = 0: iid
    return x + 0.3 * np.arange(m)[:, None]


def check_ess(inp):
    M = _mcmc()
    x = ess_chains(inp)
    arg = x[0].copy() if inp.get('one_d') else x.copy()          # a single chain given as a 1-d array or as shape (1, N)
    with native.time_limit(60):
        e = float(M.eff_sample_size(arg))
    ties = []
    ref = textbook_ess(x.tolist(), ties)
    if not _close(e, ref, 1e-7) and not any(_close(e, v, 1e-7) for v in ties):
        return 'eff_sample_size = %.12g, textbook formula (O(n^2) reference) = %.12g [%d chain(s)%s, n = %d, AR(1) %.1f]' % (
            e, ref, x.shape[0], ' as a 1-d array' if inp.get('one_d') else '', x.shape[1], inp.get('phi', float('nan')))
    return None


def ess_inputs(tier, seed):
    for N in (4, 50, 400):
        for phi in (0.0, 0.5, 0.9):
            for one_d in (True, False):
                for k in range(1 if tier == 'quick' else 3):
                    yield dict(fn='ess', C=1, N=N, phi=phi, one_d=one_d, seed=seed * 1000 + N + int(10 * phi) + 17 * k)
    for C in (2, 3, 4):
        for N in ((5, 50) if tier == 'quick' else (5, 50, 200)):
            for phi in (0.0, 0.9):
                yield dict(fn='ess', C=C, N=N, phi=phi, seed=seed * 1000 + 100 * C + N + int(10 * phi))


def run_ess(tier, seed, stop_first=True):
    cases = nontriv = 0
    fails = []
    for inp in ess_inputs(tier, seed):
        cases += 1
        nontriv += 1 if inp['phi'] > 0 and inp['N'] >= 50 else 0
        try:
            f = check_ess(inp)
        except Exception as e:
            f = '%s: %s' % (type(e).__name__, e)
        if f:
            fails.append(dict(signature='c16:ess', what=f, input=inp))
            if stop_first:
                break
    return _out('ess-vs-textbook', 'single chain as 1-d and as (1, N), N in {4, 50, 400}, iid / AR(1) 0.5 / 0.9; 2-4 chains, N in {5, 50%s}' % ('' if tier == 'quick' else ', 200'),
                'non-trivial = autocorrelated chain of at least 50 draws', cases, nontriv, fails)


SCALES = (1e-3, 1e-4, 1e-5, 1e-6, 1e3, 1e6, -1e-5)


def textbook_rhat(x):
    """split R-hat, BDA3 (11.4): written with python loops, no numpy reductions"""
    C, N = len(x), len(x[0])
    n = N // 2
    seqs = []
    for c in range(C):
        seqs.append([float(x[c][t]) for t in range(n)])
        seqs.append([float(x[c][n + t]) for t in range(n)])
    m = len(seqs)
    mu = [sum(q) / n for q in seqs]
    s2 = [sum((v - mu[r]) ** 2 for v in seqs[r]) / (n - 1) for r in range(m)]
    g = sum(mu) / m
    B = n / (m - 1) * sum((u - g) ** 2 for u in mu)
    W = sum(s2) / m
    return math.sqrt(((n - 1) / n * W + B / n) / W)


def diag_chains(inp):
    if inp.get('gen') == 'formula':           # the fixed input of the finitised SMT run (times the scale of its counter-model)
        return float(inp.get('scale', 1.0)) * np.array([[(c + 1) * ((t * t) % 7) + c for t in range(inp['N'])] for c in range(inp['C'])], dtype=float)
    if inp.get('values') is not None:
        return np.array(inp['values'], dtype=float)
    rs = np.random.RandomState(inp['seed'])
    x = rs.randn(inp['C'], inp['N'])
    x += 0.7 * np.arange(inp['C'])[:, None]                # chains with different means
    return np.cumsum(x, axis=1) * 0.3 + x                  # autocorrelated


def check_diag(inp):
    M = _mcmc()
    x = diag_chains(inp)
    C = x.shape[0]
    with native.time_limit(60):
        r = float(M.gelman_rubin_statistic(x.copy()))
        tb = textbook_rhat(x.tolist())
        if not _close(r, tb):
            return 'gelman_rubin_statistic = %.12g, textbook split R-hat = %.12g' % (r, tb)
        y = -3.0 * x + 7.0
        r2 = float(M.gelman_rubin_statistic(y))
        if not _close(r2, r, 1e-8):
            return 'R-hat not invariant under x -> -3x+7: %.12g vs %.12g' % (r2, r)
        e = float(M.eff_sample_size(x.copy()))
        ties = []
        te = textbook_ess(x.tolist(), ties)
        if not _close(e, te, 1e-7) and not any(_close(e, v, 1e-7) for v in ties):
            return 'eff_sample_size = %.12g, textbook formula = %.12g' % (e, te)
        e2 = float(M.eff_sample_size(y))
        if not _close(e2, e, 1e-7):
            return 'ESS not invariant under x -> -3x+7: %.12g vs %.12g' % (e2, e)
        # affine maps on small and large scales: each compared with the independent textbook formula on the SAME transformed
        # data and with the value on the original chains (a guard with an absolute tolerance breaks exactly this)
        for a in SCALES:
            for b in (0.0, 0.5):
                z = a * x + b
                rz = float(M.gelman_rubin_statistic(z.copy()))
                tz = textbook_rhat(z.tolist())
                if not _close(rz, tz, 1e-6):
                    return 'x -> %g x + %g: gelman_rubin_statistic = %.12g, textbook split R-hat of the same chains = %.12g' % (a, b, rz, tz)
                if not _close(rz, r, 1e-5):
                    return 'R-hat not invariant under x -> %g x + %g: %.12g vs %.12g' % (a, b, rz, r)
                ez = float(M.eff_sample_size(z.copy()))
                if not _close(ez, e, 1e-5):
                    return 'ESS not invariant under x -> %g x + %g: %.12g vs %.12g' % (a, b, ez, e)
        for perm in itertools.permutations(range(C)):
            xp = x[list(perm), :]
            if not _close(float(M.gelman_rubin_statistic(xp)), r, 1e-8):
                return 'R-hat not invariant under the chain order %r' % (perm,)
            if not _close(float(M.eff_sample_size(xp)), e, 1e-7):
                return 'ESS not invariant under the chain order %r' % (perm,)
    return None


def diag_inputs(tier, seed):
    yield dict(fn='diag', gen='formula', C=2, N=5)
    for C in range(1, (4 if tier == 'quick' else 5)):
        for N in range(4, 10):
            for k in range(2 if tier == 'quick' else 6):
                yield dict(fn='diag', C=C, N=N, seed=seed * 1000 + 31 * C + 7 * N + k)


def run_diag(tier, seed, stop_first=True):
    cases = nontriv = 0
    fails = []
    for inp in diag_inputs(tier, seed):
        cases += 1
        nontriv += 1 if inp['C'] >= 2 else 0
        try:
            f = check_diag(inp)
        except Exception as e:
            f = '%s: %s' % (type(e).__name__, e)
        if f:
            fails.append(dict(signature='c16:diag', what=f, input=inp))
            if stop_first:
                break
    return _out('rhat-ess-diagnostics', 'C<=%d chains, N in 4..9, seeded autocorrelated chains with different means' % (3 if tier == 'quick' else 4),
                'non-trivial = at least two chains', cases, nontriv, fails)


FAMILIES = dict(sample=run_sample, bolfi=run_bolfi, save=run_save, diag=run_diag, ess=run_ess)


def _preload():
    """import the tree under analysis OUTSIDE any time limit (the first import of elfi takes seconds, more on a loaded machine)"""
    _res(), _mcmc(), _utils()


def run(tier='quick', seed=0, stop_first=True, which=None):
    _preload()
    return [FAMILIES[k](tier, seed, stop_first) for k in (which or ('sample', 'bolfi', 'save', 'diag', 'ess'))]


def replay_input(inp):
    """True iff the property HOLDS on this input"""
    fn = inp.get('fn')
    _preload()
    try:
        f = dict(sample=check_sample, bolfi=check_bolfi, save=check_save, helpers=check_helpers, diag=check_diag, ess=check_ess)[fn](inp)
    except Exception as e:
        f = '%s: %s' % (type(e).__name__, e)
    if f:
        print('replay: %s' % f)
    return f is None
