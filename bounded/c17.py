"""Bounded stand-in / replay vehicle for C17 on the REAL code (elfi imported from the tree under analysis).

adjust:   adjust_posterior(sample, model, summary_names, parameter_names) on elfi.methods.results.Sample objects built directly from
          arrays (and one sample produced by elfi.Rejection), a real ElfiModel supplying the observed summaries.  Oracle, written
          independently with numpy.linalg.lstsq: for parameter i keep the rows where all of D = simulated - observed and theta_i are
          finite, regress theta_i on [1, D], expected = theta_i - D . slope.  The oracle is stated on D (simulated minus observed); it
          does not care which sign convention the code uses internally.  Also: a row with simulated == observed is returned bit-for-bit
          unchanged; the result is unchanged by an invertible affine re-expression s -> sA + c of the summaries (the clause that is NOT
          proved deductively - it is a property of least squares with intercept).  One case in six passes ONE LinearAdjustment object to two
          successive adjust_posterior calls (different samples): the second result must be the adjustment of the second sample.
compare:  compare_models on Sample objects with tie-rich discrepancies, unequal sizes, n_sim and prior weights.  Oracle: the result must
          be p/sum(p), p_i = k_i / n_sim_i * prior_i for SOME admissible count vector k: a_i <= k_i <= a_i + b_i, sum k = n_min, where a_i /
          b_i are the numbers of draws of model i below / equal to the n_min-th smallest joint discrepancy (free choice among ties);
          permuting the model list permutes the result when there is no tie at the cut.
Bound: random cases from a fixed seed (sizes below); floats: tolerance 1e-8 relative to the scale of the values."""
import itertools
from fractions import Fraction

import numpy as np

from pyvc import native

TOL = 1e-8


def _mods():
    elfi = native.import_elfi()
    pp = native.import_module('elfi.methods.post_processing')
    ms = native.import_module('elfi.methods.model_selection')
    res = native.import_module('elfi.methods.results')
    return elfi, pp, ms, res


# ------------------------------------------------------------------------------------------------ regression adjustment
def _model(elfi, observed):
    """a real ElfiModel whose summary nodes s0.. have the given observed values"""
    m = elfi.new_model()
    t = elfi.Prior('uniform', 0, 1, model=m, name='t_prior')
    y = np.asarray(observed, float).reshape(1, -1)
    sim = elfi.Simulator(lambda t_, batch_size=1, random_state=None: np.zeros((batch_size, y.shape[1])), t, observed=y, name='sim')
    for c in range(y.shape[1]):
        elfi.Summary((lambda v, c=c: v[:, c]), sim, name='s%d' % c)
    return m


def _f(v):
    v = float(v)
    return v if np.isfinite(v) else repr(v)


def _unf(v):
    return float(v)


def adjust_oracle(S, O, thetas):
    """-> list of (finite row mask, expected adjusted values)"""
    D = S - O[None, :]
    out = []
    for th in thetas:
        fin = np.isfinite(D).all(axis=1) & np.isfinite(th)
        A = np.column_stack([np.ones(fin.sum()), D[fin]])
        sol = np.linalg.lstsq(A, th[fin], rcond=None)[0]
        out.append((fin, th[fin] - D[fin] @ sol[1:]))
    return out


def check_adjust(inp, mods=None):
    """inp: dict(S=[[..]] n x m, O=[..] m, thetas=[[..]] p x n, affine=None | dict(A=[[..]], c=[..]), names_given=bool).  -> None | failure text"""
    elfi, pp, ms, res = mods or _mods()
    S = np.array([[_unf(v) for v in r] for r in inp['S']], float).reshape(len(inp['S']), -1)
    O = np.array([_unf(v) for v in inp['O']], float)
    thetas = [np.array([_unf(v) for v in t], float) for t in inp['thetas']]
    n, m = S.shape
    p = len(thetas)
    pn = ['p%d' % i for i in range(p)]
    sn = ['s%d' % c for c in range(m)]

    adj = [None]
    if inp.get('refit') or inp.get('adjustment') == 'instance':
        adj[0] = pp.LinearAdjustment()          # ONE adjustment object, passed to every call below

    def sample_of(S_, thetas_):
        outputs = {sn[c]: S_[:, c].copy() for c in range(m)}
        outputs.update({pn[i]: np.asarray(thetas_[i], float).copy() for i in range(p)})
        return res.Sample(method_name='constructed', outputs=outputs, parameter_names=list(pn), discrepancy_name=None)

    last = {}

    def run(S_, O_, thetas_=None):
        smp = sample_of(S_, thetas if thetas_ is None else thetas_)
        last['sample'], last['before'] = smp, {k: np.array(v, copy=True) for k, v in smp.outputs.items()}
        with native.time_limit(20):
            return pp.adjust_posterior(smp, _model(elfi, O_), list(sn), list(pn) if inp.get('names_given', True) else None,
                                       adjustment='linear' if adj[0] is None else adj[0])
    if inp.get('refit'):
        # the same adjustment object was used before, on another sample (same summaries / parameters)
        S0 = np.array([[_unf(v) for v in r] for r in inp['refit']['S']], float).reshape(len(inp['refit']['S']), -1)
        th0 = [np.array([_unf(v) for v in t], float) for t in inp['refit']['thetas']]
        try:
            with np.errstate(all='ignore'):
                run(S0, O, th0)
        except Exception as e:
            return 'adjust_posterior (earlier use of the adjustment object) raised %s: %s' % (type(e).__name__, e)
    try:
        with np.errstate(all='ignore'):
            r = run(S, O)
    except native.NativeTimeout as e:
        return 'adjust_posterior: %s' % e
    except Exception as e:
        return 'adjust_posterior raised %s: %s' % (type(e).__name__, e)
    if list(r.parameter_names) != pn or r.method_name != 'LinearAdjustment':
        return 'result names %r / method %r' % (r.parameter_names, r.method_name)
    # frame: the caller's sample is an input, not a scratch area - its outputs must be what they were
    for k, v0 in last['before'].items():
        v1 = last['sample'].outputs.get(k)
        if v1 is None or np.shape(v1) != v0.shape or not np.array_equal(np.asarray(v1, float), v0, equal_nan=True):
            return "the caller's sample was modified by the adjustment: output %r changed" % k
    # ... and adjust() is a function of the fitted state: asking twice gives the same values (an in-place update of the sample would adjust twice)
    try:
        with np.errstate(all='ignore'), native.time_limit(20):
            a2 = pp.LinearAdjustment()
            smp2 = sample_of(S, thetas)
            a2.fit(sample=smp2, model=_model(elfi, O), summary_names=list(sn), parameter_names=list(pn))
            first = {k: np.array(a2.adjust().outputs[k], copy=True) for k in pn}
            second = a2.adjust().outputs
    except Exception as e:
        return 'fit / adjust / adjust raised %s: %s' % (type(e).__name__, e)
    for k in pn:
        if np.shape(second[k]) != first[k].shape or not np.array_equal(np.asarray(second[k], float), first[k], equal_nan=True):
            return 'adjust() called twice on one fitted object returns different values for %r (the first call changed the state or the sample)' % k
        if not np.array_equal(np.asarray(r.outputs[k], float), first[k], equal_nan=True) and adj[0] is None:
            return 'fit + adjust differs from adjust_posterior for %r' % k
    with np.errstate(all='ignore'):
        exp = adjust_oracle(S, O, thetas)
    for i in range(p):
        fin, e = exp[i]
        got = np.asarray(r.outputs[pn[i]], float)
        if got.shape != e.shape:
            return 'parameter %d: %d adjusted values, %d rows have finite summaries and parameter' % (i, got.size, e.size)
        scale = 1.0 + np.abs(e).max() if e.size else 1.0
        if not np.allclose(got, e, rtol=0, atol=TOL * scale):
            j = int(np.argmax(np.abs(got - e)))
            return 'parameter %d row %d: adjusted %.12g, theta - (sim - obs).slope(lstsq) = %.12g' % (i, j, got[j], e[j])
        # zero-row corollary (exact): simulated == observed on every summary -> unchanged
        rows = np.flatnonzero(fin)
        for j, r0 in enumerate(rows):
            if np.all(S[r0] == O) and got[j] != thetas[i][r0]:
                return 'parameter %d: draw %d has simulated == observed summaries but %.17g was returned for theta = %.17g' % (i, r0, got[j], thetas[i][r0])
    af = inp.get('affine')
    if af:
        A = np.array(af['A'], float)
        c = np.array(af['c'], float)
        with np.errstate(all='ignore'):
            S2, O2 = S @ A + c, O @ A + c
            try:
                r2 = run(S2, O2)
            except Exception as e2:
                return 'adjust_posterior on re-expressed summaries raised %s: %s' % (type(e2).__name__, e2)
        for i in range(p):
            a, b = np.asarray(r.outputs[pn[i]], float), np.asarray(r2.outputs[pn[i]], float)
            if a.shape != b.shape or not np.allclose(a, b, rtol=0, atol=1e-6 * (1.0 + np.abs(a).max() if a.size else 1.0)):
                return 'parameter %d: result changes under an invertible affine re-expression of the summaries' % i
    return None


def _gen_adjust(rng, kind):
    m = int(rng.integers(1, 4))
    p = int(rng.integers(1, 3))
    n = int(rng.integers(m + 4, m + 11))
    O = np.round(rng.normal(size=m) * 2, 3)
    thetas = [rng.normal(size=n) for _ in range(p)]
    S = O[None, :] + rng.normal(size=(n, m))
    for i in range(p):
        thetas[i] = thetas[i] + S @ rng.normal(size=m) * 0.7
    nontrivial = False
    if kind in ('nonfinite', 'all'):
        bad = [np.inf, -np.inf, np.nan]
        for _ in range(int(rng.integers(1, 3))):
            S[int(rng.integers(0, 2)), int(rng.integers(0, m))] = bad[int(rng.integers(0, 3))]      # rows 0..1 only: enough finite rows remain
        for i in range(p):
            if rng.random() < 0.8:
                thetas[i][int(rng.integers(2, 4))] = bad[int(rng.integers(0, 3))]
        nontrivial = True
    if kind in ('zero', 'all'):
        S[n - 1] = O
        nontrivial = True
    inp = dict(kind='adjust', S=[[_f(v) for v in r] for r in S], O=[_f(v) for v in O], thetas=[[_f(v) for v in t] for t in thetas],
               names_given=bool(rng.random() < 0.5))
    if kind == 'refit':
        n0 = int(rng.integers(m + 4, m + 11))
        S0 = O[None, :] + rng.normal(size=(n0, m))
        inp['refit'] = dict(S=[[_f(v) for v in r] for r in S0], thetas=[[_f(v) for v in (rng.normal(size=n0) - 2.0 * S0.sum(axis=1))] for _ in range(p)])
        nontrivial = True
    if kind in ('affine', 'all'):
        A = rng.normal(size=(m, m)) + 2.5 * np.eye(m) * rng.choice([-1.0, 1.0])
        inp['affine'] = dict(A=A.tolist(), c=np.round(rng.normal(size=m) * 3, 3).tolist())
        nontrivial = True
    return inp, nontrivial


def _rejection_case(mods, seed):
    """one sample produced by the real sampler (elfi.Rejection on a 2-summary Gaussian toy)"""
    elfi, pp, ms, res = mods
    m = elfi.new_model()
    mu = elfi.Prior('uniform', -2, 4, model=m, name='mu')
    y0 = np.array([[0.3, -0.1, 0.8, 0.2, 0.5]])
    sim = elfi.Simulator(lambda mu_, batch_size=1, random_state=None: mu_[:, None] + (random_state or np.random).normal(size=(batch_size, 5)),
                         mu, observed=y0, name='sim')
    s0 = elfi.Summary(lambda y: y.mean(axis=1), sim, name='s0')
    s1 = elfi.Summary(lambda y: y.var(axis=1), sim, name='s1')
    d = elfi.Distance('euclidean', s0, s1, name='d')
    with native.time_limit(60):
        smp = elfi.Rejection(d, batch_size=50, output_names=['s0', 's1'], seed=seed).sample(20, n_sim=200, bar=False)
        adj = pp.adjust_posterior(smp, m, ['s0', 's1'], ['mu'])
    S = np.column_stack([smp.outputs['s0'], smp.outputs['s1']])
    O = np.array([m['s0'].observed[0], m['s1'].observed[0]])
    fin, e = adjust_oracle(S, O, [np.asarray(smp.outputs['mu'], float)])[0]
    got = np.asarray(adj.outputs['mu'], float)
    if got.shape != e.shape or not np.allclose(got, e, rtol=0, atol=TOL * (1 + np.abs(e).max())):
        return 'Rejection sample (seed %d): adjusted values differ from theta - (sim - obs).slope(lstsq)' % seed
    return None


def run_adjust(tier='quick', seed=0, first_failure_only=True):
    mods = _mods()
    rng = np.random.default_rng(1000 + seed)
    N = 42 if tier == 'quick' else 300
    cases = nontrivial = 0
    failures = []
    kinds = ['plain', 'nonfinite', 'zero', 'affine', 'all', 'refit']
    for t in range(N):
        inp, nt = _gen_adjust(rng, kinds[t % len(kinds)])
        cases += 1
        nontrivial += nt
        f = check_adjust(inp, mods)
        if f:
            failures.append(dict(signature='c17:adjust:' + ('re-used adjustment object' if inp.get('refit') else ''.join(ch for ch in f.split(':')[0] if not ch.isdigit())[:40]), what=f, input=inp))
            if first_failure_only:
                break
    if not failures:
        for sd in range(1 if tier == 'quick' else 3):
            cases += 1
            nontrivial += 1
            try:
                f = _rejection_case(mods, seed + sd)
            except Exception as e:
                f = 'Rejection-based case raised %s: %s' % (type(e).__name__, e)
            if f:
                failures.append(dict(signature='c17:adjust:rejection', what=f, input=dict(kind='adjust-rejection', seed=seed + sd)))
                break
    return dict(name='adjust_posterior-vs-lstsq', bound='%d random constructed samples (n <= 13, 1-3 summaries, 1-2 parameters; inf/-inf/nan entries, '
                'zero rows, affine re-expressions, re-used adjustment objects) from seed %d + Rejection-produced samples' % (N, seed),
                rule='non-trivial = the case has a non-finite entry, a row with simulated == observed, an affine re-expression, or re-uses an adjustment object that was fitted before',
                cases=cases, nontrivial=nontrivial, failures=failures)


# ------------------------------------------------------------------------------------------------ compare_models
def _samples(res, discs, n_sims):
    out = []
    for dvec, ns in zip(discs, n_sims):
        dvec = np.asarray(dvec, float)
        out.append(res.Sample(method_name='constructed', outputs={'t': np.zeros(len(dvec)), 'd': dvec}, parameter_names=['t'],
                              discrepancy_name='d', n_sim=int(ns)))
    return out


def admissible(discs, n_sims, priors):
    """every result vector the statement allows (one per admissible choice among ties at the cut); also: is there a tie at the cut"""
    M = len(discs)
    n_min = min(len(d) for d in discs)
    allv = sorted(v for d in discs for v in d)
    tau = allv[n_min - 1]
    a = [sum(1 for v in d if v < tau) for d in discs]
    b = [sum(1 for v in d if v == tau) for d in discs]
    need = n_min - sum(a)
    outs = []
    for extra in itertools.product(*[range(bi + 1) for bi in b]):
        if sum(extra) != need:
            continue
        k = [ai + ei for ai, ei in zip(a, extra)]
        pvec = [Fraction(k[i]) / Fraction(int(n_sims[i])) * (Fraction(priors[i]).limit_denominator(10 ** 9) if priors is not None else 1) for i in range(M)]
        tot = sum(pvec)
        if tot == 0:
            continue
        outs.append([float(q / tot) for q in pvec])
    tie = len(allv) > n_min and allv[n_min] == tau
    return outs, tie


def check_compare(inp, mods=None):
    """inp: dict(discrepancies=[[..]..], n_sim=[..], priors=None|[..], perm=None|[..]) -> None | failure text"""
    elfi, pp, ms, res = mods or _mods()
    discs = [[float(Fraction(str(v))) for v in d] for d in inp['discrepancies']]
    n_sims = [int(v) for v in inp['n_sim']]
    pri = None if inp.get('priors') is None else [float(Fraction(str(v))) for v in inp['priors']]
    M = len(discs)
    try:
        with native.time_limit(10):
            r = ms.compare_models(_samples(res, discs, n_sims), model_priors=None if pri is None else list(pri))
    except native.NativeTimeout as e:
        return 'compare_models: %s' % e
    except Exception as e:
        return 'compare_models raised %s: %s' % (type(e).__name__, e)
    r = np.asarray(r, float)
    if r.shape != (M,):
        return 'result shape %r for %d models' % (r.shape, M)
    if not np.isfinite(r).all() or abs(r.sum() - 1) > 1e-9:
        return 'probabilities %r do not sum to one' % (r.tolist(),)
    adm, tie = admissible(discs, n_sims, pri)
    if not any(np.allclose(r, a, rtol=0, atol=1e-9) for a in adm):
        return 'probabilities %r are not p/sum(p) with p_i = share_i / n_sim_i * prior_i for any admissible choice among ties (allowed: %r)' % (
            [round(float(v), 6) for v in r], [[round(v, 6) for v in a] for a in adm[:4]])
    perm = inp.get('perm')
    if perm is not None and not tie:
        try:
            with native.time_limit(10):
                r2 = np.asarray(ms.compare_models(_samples(res, [discs[j] for j in perm], [n_sims[j] for j in perm]),
                                                  model_priors=None if pri is None else [pri[j] for j in perm]), float)
        except Exception as e:
            return 'compare_models on the permuted list raised %s: %s' % (type(e).__name__, e)
        if not np.allclose(r2, r[list(perm)], rtol=0, atol=1e-9):
            return 'no tie at the cut, but permuting the model list does not permute the probabilities: %r vs %r' % (r2.tolist(), r[list(perm)].tolist())
    return None


def _gen_compare(rng):
    M = int(rng.integers(2, 4))
    sizes = [int(rng.integers(1, 6)) for _ in range(M)]
    grid = int(rng.integers(2, 7))
    discs = [[float(v) for v in rng.integers(0, grid, size=n)] for n in sizes]
    n_sims = [int(rng.integers(1, 50)) for _ in range(M)]
    pri = None if rng.random() < 0.4 else [float(v) for v in rng.integers(1, 9, size=M) / 8.0]
    perm = [int(v) for v in rng.permutation(M)]
    return dict(kind='compare', discrepancies=discs, n_sim=n_sims, priors=pri, perm=perm)


def run_compare(tier='quick', seed=0, first_failure_only=True):
    mods = _mods()
    rng = np.random.default_rng(2000 + seed)
    N = 400 if tier == 'quick' else 4000
    cases = nontrivial = ties = order_dependent = 0
    failures = []
    for t in range(N):
        inp = _gen_compare(rng)
        cases += 1
        adm, tie = admissible(inp['discrepancies'], inp['n_sim'], inp['priors'])
        ties += tie
        order_dependent += len({tuple(np.round(a, 12)) for a in adm}) > 1
        nontrivial += 1 if (tie or len(set(map(len, inp['discrepancies']))) > 1) else 0
        f = check_compare(inp, mods)
        if f:
            failures.append(dict(signature='c17:compare:' + f.split(':')[0][:40], what=f, input=inp))
            if first_failure_only:
                break
    return dict(name='compare_models-vs-recomputation', bound='%d random cases (2-3 models, 1-5 draws each on a grid of 2-6 values, n_sim < 50, prior weights k/8) from seed %d'
                % (N, seed), rule='non-trivial = a tie at the cut or unequal sample sizes (%d cases with a tie at the cut, %d of them with more than one admissible '
                'result: there the outcome depends on the tie-breaking of argsort, i.e. not on the multiset alone)' % (ties, order_dependent),
                cases=cases, nontrivial=nontrivial, failures=failures)


def run(tier='quick', seed=0, first_failure_only=True):
    return [run_adjust(tier, seed, first_failure_only), run_compare(tier, seed, first_failure_only)]


def replay_input(inp):
    """True iff the property HOLDS on this input (accepts the bare input or the failure record that wraps it)"""
    if 'kind' not in inp and isinstance(inp.get('input'), dict):
        inp = inp['input']
    if inp.get('kind') == 'compare':
        return check_compare(inp) is None
    if inp.get('kind') == 'adjust-rejection':
        return _rejection_case(_mods(), int(inp['seed'])) is None
    return check_adjust(inp) is None
