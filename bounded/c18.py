"""Bounded stand-in / replay vehicle for C18 on the REAL code (native numpy, real subprocesses).

Part 'rv'  : elfi.tools.vectorize on every kind word of length 0..3 over
             {A 1-D array, M 2-D array, C declared-constant array, c declared-constant scalar, S python scalar, Z 0-d array}
             x dtype {None, float, False} x batch length 1..3 x batch_size {absent, equal, off-by-one} x meta {yes, no}
             x output kind {scalar, vector; for dtype=False also ragged list}, plus unequal array lengths;
             oracle = direct per-row application written here (never np.array of the outputs of the code).
Part 'ext' : external_operation with echo-style templates alone (substitution, meta/explicit precedence, seed oracle =
             (index+1)-th distinct value of RandomState(word).randint(2**31) from bounded/c15.py, dtype/sep/callable handlers,
             stdout flag, subprocess options, prepare_inputs, KeyError) and inside a model run with batch_size > 1.
"""
import itertools

import numpy as np

from pyvc import native

BOUND = 'rv: arity<=3, 6 input kinds, 3 dtypes, batch 1..3, 3 batch_size modes, meta yes/no; ext: 20 echo templates/options + model runs batch_size 1..3, 3 seeds'
KINDS = 'AMCcSZ'


def _tools():
    return native.import_module('elfi.model.tools')


# ---------------------------------------------------------------- part rv
def _mk_input(kind, pos, B):
    if kind == 'A':
        return np.arange(B, dtype=float) + 10 * (pos + 1)
    if kind == 'M':
        return (np.arange(2 * B, dtype=float) + 100 * (pos + 1)).reshape(B, 2)
    if kind == 'C':
        return np.arange(5, dtype=float) + 1000 * (pos + 1)        # length 5: never a batch length of the grid
    if kind == 'c':
        return 7.5 + pos
    if kind == 'S':
        return 3.25 + pos
    if kind == 'Z':
        return np.array(2.5 + pos)
    raise ValueError(kind)


def _pure(outkind, args, iib, kwx):
    v = float(sum((p + 1) * float(np.sum(a)) for p, a in enumerate(args))) + (1000.0 * iib if iib is not None else 0.0) + kwx
    if outkind == 'scalar':
        return v
    if outkind == 'vector':
        return np.array([v, v + 1.0])
    if outkind in ('mixed-int-first', 'mixed-intvec-first', 'mixed-str'):
        # rows of DIFFERENT python / numpy types: the row computed for the first input row is the narrowest one (an integer, an integer array,
        # a short string).  "identical to applying the operation to each row": np.array over the list of per-row results, no row cast to row 0's type
        first = not bool(iib) if iib is not None else (v == float(int(v)) and int(v) % 2 == 0)
        if outkind == 'mixed-int-first':
            return int(v) if first else v + 0.25
        if outkind == 'mixed-intvec-first':
            return np.array([int(v), int(v) + 1]) if first else np.array([v + 0.25, v + 1.5])
        return 'n' if first else 'positive-%d' % int(v)
    return [v] * (1 + (int(iib or 0) % 2))      # ragged python list (dtype=False only)


def _eq(a, b):
    if isinstance(a, list) or isinstance(b, list):
        return isinstance(a, list) and isinstance(b, list) and a == b
    return np.shape(a) == np.shape(b) and bool(np.all(np.asarray(a) == np.asarray(b)))


def rv_case(tools, kinds, dtype_name, B, bs_mode, meta, outkind, ragged=False, container='auto', prior=None):
    """-> None or dict(what, input).  container: how the constants mask is handed to vectorize ('auto' = list or None,
    'list', 'tuple'); prior: kinds word of an EARLIER call made on the same vectorised callable (same declared constants)."""
    inp = dict(part='rv', kinds=kinds, dtype=dtype_name, B=B, bs_mode=bs_mode, meta=meta, outkind=outkind, ragged=ragged,
               container=container, prior=prior)
    ins = [_mk_input(k, p, B) for p, k in enumerate(kinds)]
    arr_pos = [p for p, k in enumerate(kinds) if k in 'AM']
    if ragged and len(arr_pos) >= 2:
        ins[arr_pos[-1]] = _mk_input(kinds[arr_pos[-1]], arr_pos[-1], B + 1)
    consts = [p for p, k in enumerate(kinds) if k in 'Cc']
    dtype = {'none': None, 'float': float, 'false': False}[dtype_name]
    calls = []
    KWX = 0.125

    def op(*args, **kw):
        m = kw.get('meta')
        calls.append((args, kw.get('kwx'), m, None if m is None else m.get('index_in_batch')))
        return _pure(outkind, args, None if m is None else m['index_in_batch'], kw['kwx'])
    kwargs = dict(kwx=KWX)
    mobj = dict(batch_index=4, submission_index=2) if meta else None
    if meta:
        kwargs['meta'] = mobj
    bs = None if bs_mode == 'absent' else (B if bs_mode == 'equal' else B + 1)
    if bs is not None:
        kwargs['batch_size'] = bs
    # oracle: batch length
    lens = [len(ins[p]) for p in arr_pos] + ([bs] if bs is not None else [])
    expect_raise = len(set(lens)) > 1
    Bexp = lens[0] if lens else 1
    mask = (consts if consts else None) if container == 'auto' else (list(consts) if container == 'list' else tuple(consts))
    mask0 = None if mask is None else list(mask)
    try:
        with native.time_limit(10):
            f = tools.vectorize(op, constants=mask, dtype=dtype)
            if prior is not None:
                f(*[_mk_input(k, p, B) for p, k in enumerate(prior)], **dict(kwargs, meta=dict(mobj)) if meta else kwargs)
                del calls[:]
            res = f(*ins, **kwargs)
    except ValueError as e:
        return None if expect_raise else dict(what='ValueError although all lengths agree: %s' % str(e)[:60], input=inp)
    except Exception as e:
        return dict(what='%s: %s' % (type(e).__name__, str(e)[:80]), input=inp)
    if expect_raise:
        return dict(what='no ValueError although lengths disagree (%s)' % lens, input=inp)
    if mask0 is not None and (type(mask) not in (list, tuple) or list(mask) != mask0):
        return dict(what="constants: the caller's mask %r was modified to %r" % (mask0, mask), input=inp)
    if not isinstance(res, np.ndarray):
        return dict(what='result is not an array', input=inp)
    if len(res) != Bexp:
        return dict(what='batch length: result has %d rows, expected %d' % (len(res), Bexp), input=inp)
    if dtype is False and (res.dtype != object or res.shape != (Bexp,)):
        return dict(what='dtype=False: result is not a 1-d object array', input=inp)
    if dtype is float and res.dtype != np.float64:
        return dict(what='dtype=float: result dtype %s' % res.dtype, input=inp)
    if len(calls) != Bexp:
        return dict(what='operation called %d times for %d rows' % (len(calls), Bexp), input=inp)
    for j in range(Bexp):
        args_j = [ins[p] if k not in 'AM' else ins[p][j] for p, k in enumerate(kinds)]
        want = _pure(outkind, args_j, j if meta else None, KWX)
        if outkind.startswith('mixed') and dtype is None:
            # the reference result is numpy's own conversion of the LIST of per-row results (common type of all rows)
            ref_all = np.array([_pure(outkind, [ins[p] if k not in 'AM' else ins[p][jj] for p, k in enumerate(kinds)], jj if meta else None, KWX) for jj in range(Bexp)])
            if res.dtype != ref_all.dtype or not _eq(res[j], ref_all[j]):
                return dict(what='row %d of the result (%r, dtype %s) is not row %d of np.array(per-row results) (%r, dtype %s): rows were cast to another row\'s type' % (
                    j, res[j].tolist() if hasattr(res[j], 'tolist') else res[j], res.dtype, j, ref_all[j].tolist() if hasattr(ref_all[j], 'tolist') else ref_all[j], ref_all.dtype), input=inp)
        elif not _eq(res[j], want):
            return dict(what='row %d of the result is not the operation applied to row %d of the inputs' % (j, j), input=inp)
        cargs, ckwx, cmeta, ciib = calls[j]
        if len(cargs) != len(args_j):
            return dict(what='call %d: arity' % j, input=inp)
        for p, k in enumerate(kinds):
            if k not in 'AM' and cargs[p] is not ins[p]:
                return dict(what='call %d: constant input %d not passed through unchanged' % (j, p), input=inp)
            if k in 'AM' and not _eq(cargs[p], ins[p][j]):
                return dict(what='call %d: input %d is not its row %d' % (j, p, j), input=inp)
        if ckwx is not KWX:
            return dict(what='call %d: keyword argument not passed through' % j, input=inp)
        if meta and (cmeta is not mobj or ciib != j):
            return dict(what='call %d: meta[index_in_batch] = %r' % (j, ciib), input=inp)
        if not meta and cmeta is not None:
            return dict(what='call %d: meta invented' % j, input=inp)
    return None


def rv_cases(tier):
    for k in range(0, 4):
        for kinds in itertools.product(KINDS, repeat=k):
            kinds = ''.join(kinds)
            narr = sum(1 for c in kinds if c in 'AM')
            for dtype_name in ('none', 'float', 'false'):
                outkinds = ('scalar', 'vector', 'ragged') if dtype_name == 'false' else ('scalar', 'vector')
                for B in (1, 2, 3):
                    for bs_mode in ('absent', 'equal', 'off'):
                        for meta in (True, False):
                            if k == 3 and tier == 'quick' and (B == 2 or (bs_mode == 'off' and not meta)):
                                continue
                            for outkind in outkinds:
                                yield kinds, dtype_name, B, bs_mode, meta, outkind, False
                    if narr >= 2:
                        yield kinds, dtype_name, B, 'absent', True, 'scalar', True
    # outputs whose TYPE differs between rows (the first row's result being the narrowest): meta on, so that the operation knows its row
    for kinds in ('A', 'AS', 'CA', 'AZA'):
        for outkind in ('mixed-int-first', 'mixed-intvec-first', 'mixed-str'):
            for B in (2, 3):
                yield kinds, 'none', B, 'absent', True, outkind, False
                yield kinds, 'false', B, 'absent', True, outkind, False
    # arities 4..6: a deterministic pseudo-random sample of kind words (the proof tier has arity 4 exhaustively in the thorough tier and a spread of
    # arity-4 / arity-5 words in the quick tier; this is the bounded complement for larger arities)
    import random as _random
    rnd = _random.Random(1804)
    for k, nwords in ((4, 40), (5, 30), (6, 20)):
        for _ in range(nwords if tier == 'quick' else 4 * nwords):
            kinds = ''.join(rnd.choice(KINDS) for _ in range(k))
            narr = sum(1 for c in kinds if c in 'AM')
            for dtype_name in ('none', 'false'):
                for B in (1, 3):
                    for meta in (True, False):
                        yield kinds, dtype_name, B, rnd.choice(('absent', 'equal', 'off')), meta, rnd.choice(('scalar', 'vector')), False
            if narr >= 2:
                yield kinds, 'none', 3, 'absent', True, 'scalar', True
    # the mask object bound by vectorize: list / tuple, and REUSE of one vectorised callable with another pattern of scalars / arrays
    n = 0
    for k in range(0, 4):
        words = [''.join(w) for w in itertools.product(KINDS, repeat=k)]
        for kinds in words:
            for container in ('list', 'tuple'):
                yield kinds, 'none', 2, 'absent', False, 'scalar', False, container, None
        for prior in words:
            cp = [c in 'Cc' for c in prior]
            for kinds in words:
                if [c in 'Cc' for c in kinds] != cp:
                    continue
                n += 1
                if k == 3 and tier == 'quick' and n % 9:
                    continue
                for container in ('list', 'tuple'):
                    for B in (1, 3):
                        yield kinds, 'none', B, 'absent', (n % 2 == 0), 'scalar', False, container, prior


def run_rv(tier, first_failure_only=True):
    tools = _tools()
    cases = nontrivial = 0
    failures = []
    for c in rv_cases(tier):
        cases += 1
        kinds, B = c[0], c[2]
        nontrivial += 1 if (B > 1 and any(x in 'AM' for x in kinds) and (any(x in 'CcSZ' for x in kinds) or len(c) > 8 and c[8])) else 0
        f = rv_case(tools, *c)
        if f:
            f['signature'] = 'c18-rv:' + f['what'].split(':')[0][:50]
            failures.append(f)
            if first_failure_only:
                break
    return dict(name='vectorize-grid', bound='arity<=3 exhaustively (and 90 / 360 sampled kind words of arity 4-6) over kinds %s, dtype None/float/False, batch 1..3, batch_size absent/equal/off-by-one, meta yes/no; '
                'mask as list/tuple; two consecutive calls of one vectorised callable over all pairs of kind words with the same declared constants' % KINDS,
                rule='non-trivial = batch > 1 with at least one array and one constant/scalar input', cases=cases, nontrivial=nontrivial, failures=failures)


# ---------------------------------------------------------------- part ext
def sub_seed_oracle(word, index):
    from bounded import c15
    return c15.oracle(int(word), 2 ** 31, n=index + 8)[index]


def _ext_alone(tools):
    """yield (name, thunk) ; thunk() -> None or failure text"""
    E = tools.external_operation

    def expect(name, got, want):
        ok = isinstance(got, np.ndarray) and got.shape == np.shape(want) and bool(np.all(got == np.asarray(want)))
        return None if ok else '%s: got %r, expected %r' % (name, got, want)

    yield 'positional', lambda: expect('positional substitution', E('echo {0} {1}')(3, 4.5), [3, 4.5])
    yield 'positional-reordered', lambda: expect('positional substitution', E('echo {1} {0} {1}')(3, 4), [4, 3, 4])
    yield 'keyword', lambda: expect('keyword substitution', E('echo {0} {k}')(3, k=9), [3, 9])
    yield 'meta-keyword', lambda: expect('meta entry substituted', E('echo {0} {k}')(3, meta=dict(k=8)), [3, 8])
    yield 'explicit-wins', lambda: expect('precedence: explicit keyword over meta entry', E('echo {0} {k}')(3, k=9, meta=dict(k=8)), [3, 9])
    yield 'dtype-str', lambda: (lambda r: expect('dtype', r, [1, 123]) or (None if r.dtype == np.int8 else 'dtype: result dtype %s' % r.dtype))(E('echo 1 {0}', process_result='int8')(123))
    yield 'dtype-obj', lambda: (lambda r: expect('dtype', r, [1, 5]) or (None if r.dtype == np.int32 else 'dtype: result dtype %s' % r.dtype))(E('echo 1 {0}', process_result=np.dtype('int32'))(5))
    yield 'sep', lambda: expect('separator', E('echo {0},{1},7', sep=',')(1, 2), [1, 2, 7])

    def handler(stdout_flag):
        got = {}

        def h(res, *a, **k):
            got.update(res=res, a=a, k=k)
            return 'handled'
        r = E('echo {0} {k}' + ('' if stdout_flag else ' >/dev/null'), process_result=h, stdout=stdout_flag)(5, k=6)
        if r != 'handled':
            return 'handler: result of process_result not returned'
        if got['a'] != (5,) or got['k'] != dict(k=6):
            return 'handler: inputs not passed to process_result'
        if stdout_flag:
            return None if got['res'] == b'5 6\n' else 'stdout: process_result received %r instead of the stdout' % (got['res'],)
        import subprocess
        return None if isinstance(got['res'], subprocess.CompletedProcess) and got['res'].stdout is None else 'stdout: stdout=False but process_result received %r' % (got['res'],)
    yield 'handler-stdout', lambda: handler(True)
    yield 'handler-completed-process', lambda: handler(False)
    yield 'subprocess-kwargs', lambda: (lambda r: None if r == b'/var/tmp\n' else 'subprocess_kwargs: cwd not honoured (%r)' % (r,))(
        E('pwd', process_result=lambda res, *a, **k: res, subprocess_kwargs=dict(cwd='/var/tmp'))())
    yield 'prepare-inputs', lambda: expect('prepare_inputs', E('echo {0} {z}', prepare_inputs=lambda *a, **k: ((a[0] + 1,), dict(z=k['k'] * 2)))(3, k=4), [4, 8])

    def keyerr():
        try:
            E('echo {0} {nokey}')(1, k=2)
        except KeyError:
            return None
        except Exception as e:
            return 'KeyError: %s raised for a missing keyword' % type(e).__name__
        return 'KeyError: missing keyword placeholder not reported'
    yield 'keyerror', keyerr

    for sd in (0, 7):
        for idx in (None, 0, 1, 2):
            def seedcase(sd=sd, idx=idx):
                rs = np.random.RandomState(sd)
                rs.rand(3)      # a used generator: the state word is no longer the seed
                word = rs.get_state()[1][0]
                meta = dict(batch_index=0) if idx is None else dict(batch_index=0, index_in_batch=idx)
                op = E('echo {seed}', process_result='int64')
                r1 = op(random_state=rs, meta=meta)
                r2 = op(random_state=rs, meta=meta)
                want = sub_seed_oracle(word, idx or 0)
                if not (r1.shape == (1,) and int(r1[0]) == want):
                    return 'seed: row index %r got seed %r, the sub-seed of the generator word is %d' % (idx, r1, want)
                return None if int(r2[0]) == want else 'seed: not deterministic'
            yield 'seed-%d-%s' % (sd, idx), seedcase

    # request sequences over TWO batch generators: the derived seed depends only on (state word, index), whatever was requested before
    def sequence(name, seq):
        def case():
            gens = dict(A=np.random.RandomState(11), B=np.random.RandomState(22))
            words = {k: int(g.get_state()[1][0]) for k, g in gens.items()}
            for pos, (g, idx) in enumerate(seq):
                kw = dict(random_state=gens[g])
                if idx is not None:
                    kw['index_in_batch'] = idx
                _, out = tools.prepare_seed(**kw)
                want = sub_seed_oracle(words[g], idx or 0)
                if int(out['seed']) != want:
                    return 'seed: request %d of %s (generator %s, row %r) got %d; sub-seed (word, row) computed from scratch is %d' % (pos, name, g, idx, int(out['seed']), want)
            return None
        return case
    A, B = 'A', 'B'
    seqs = {'A0..3-then-B2': [(A, 0), (A, 1), (A, 2), (A, 3), (B, 2)],
            'A0..2-then-B1-B3': [(A, 0), (A, 1), (A, 2), (B, 1), (B, 3)],
            'interleaved': [(A, 0), (B, 0), (A, 1), (B, 1), (A, 2), (B, 2)],
            'interleaved-no-B0': [(A, 0), (A, 1), (B, 1), (A, 2), (B, 2), (A, 3)],
            'backwards': [(A, 3), (A, 1), (B, 2), (A, 0), (B, 0), (B, 3)],
            'rowless-between': [(A, 0), (A, 1), (B, None), (A, 2), (B, 1)]}
    for nm, sq in seqs.items():
        yield 'seed-sequence-%s' % nm, sequence(nm, sq)

    # the SAME generator object used again after its state changed: the seed follows the state, not the object
    def reused_generator(how):
        def case():
            op = E('echo {0} {seed}', process_result='int64')
            vop = tools.vectorize(E('echo {seed} {index_in_batch}', process_result='int64'))
            rs = np.random.RandomState(101)
            for step in range(3):
                word = rs.get_state()[1][0]
                r = op(7, random_state=rs)
                if [int(v) for v in r] != [7, sub_seed_oracle(word, 0)]:
                    return 'seed: generator object reused after %s (step %d): got %r, the sub-seed of its CURRENT state word is %d' % (how, step, r.tolist(), sub_seed_oracle(word, 0))
                g = vop(meta=dict(batch_index=0, submission_index=0, master_seed=1, model_name='m'), random_state=rs, batch_size=3)
                if [int(v) for v in g[:, 0]] != [sub_seed_oracle(word, j) for j in range(3)]:
                    return 'seed: vectorised call on a generator object reused after %s (step %d) does not use its current state' % (how, step)
                if how == 're-seeding':
                    rs.seed(202 + step)
                elif how == 'advancing':
                    rs.rand(700)            # more than 624 draws: the state vector is regenerated
                else:
                    rs.set_state(np.random.RandomState(900 + step).get_state())
            return None
        return case
    for how in ('re-seeding', 'advancing', 'set_state'):
        yield 'seed-reused-generator-%s' % how, reused_generator(how)

    # the way the executor calls a vectorised external operation in batch k: full run metadata, one generator per batch
    for k in (0, 1, 2, 3):
        def batchcase(k=k):
            BATCH = 4
            op = tools.vectorize(E('echo {seed} {index_in_batch} {batch_index} {0}', process_result='int64'))
            x = np.arange(BATCH) + 100
            rs = np.random.RandomState(1000 + k)
            rs.rand(2)
            word = rs.get_state()[1][0]
            meta = dict(batch_index=k, submission_index=k + 1, master_seed=123, model_name='m')
            g = op(x, meta=meta, random_state=rs, batch_size=BATCH)
            if g.shape != (BATCH, 4) or not np.array_equal(g[:, 1], np.arange(BATCH)) or not np.array_equal(g[:, 3], x) or not np.all(g[:, 2] == k):
                return 'batch: substitution wrong in batch %d: %r' % (k, g.tolist())
            want = [sub_seed_oracle(word, j) for j in range(BATCH)]
            if [int(v) for v in g[:, 0]] != want:
                return 'seed: batch %d rows got seeds %r, the sub-seeds of the generator word are %r' % (k, g[:, 0].tolist(), want)
            return None if len(set(g[:, 0].tolist())) == BATCH else 'seed: batch %d rows share a seed' % k
        yield 'seed-batch-%d' % k, batchcase

        def rowless(k=k):
            rs = np.random.RandomState(50 + k)
            word = rs.get_state()[1][0]
            r = E('echo {seed}', process_result='int64')(random_state=rs, meta=dict(batch_index=k, submission_index=0, master_seed=5, model_name='m'))
            return None if int(r[0]) == sub_seed_oracle(word, 0) else 'seed: without a row index in batch %d the seed is not sub-seed 0 of the generator' % k
        yield 'seed-norow-batch-%d' % k, rowless


def _model_case(elfi, tools, bsz, seed, batch_index=0):
    """external op under vectorize inside a model, batch `batch_index` computed the way ElfiModel.generate computes batch 0:
    rows = [prior_j, seed_j, j]"""
    m = elfi.ElfiModel()
    p = elfi.Prior('uniform', 0, 1, model=m, name='p')
    ext = tools.external_operation('echo {0} {seed} {index_in_batch}', process_result='float64')
    rec = []

    def wrap(*a, **kw):
        rec.append((int(kw['random_state'].get_state()[1][0]), kw['meta'].get('index_in_batch'), float(a[0])))
        return ext(*a, **kw)
    sim = elfi.Simulator(tools.vectorize(wrap), p, model=m, name='s')
    sim.uses_meta = True
    if batch_index == 0:
        return m.generate(bsz, outputs=['p', 's'], seed=seed), rec
    from elfi.model.elfi_model import ComputationContext
    import elfi.client
    client = elfi.client.get_client()
    context = ComputationContext(bsz, seed=seed)
    loaded = client.load_data(client.compile(m.source_net, ['p', 's']), context, batch_index=batch_index)
    return client.compute(loaded), rec


def _ext_model(elfi, tools):
    for bsz, seed, bi in [(b, sd, 0) for b in (1, 2, 3) for sd in (1, 2, 3)] + [(b, 1, k) for b in (2, 4) for k in (1, 2, 3)]:
        if True:
            def case(bsz=bsz, seed=seed, bi=bi):
                out, rec = _model_case(elfi, tools, bsz, seed, bi)
                s, p = np.asarray(out['s']), np.asarray(out['p']).reshape(-1)
                if s.shape != (bsz, 3):
                    return 'model: output shape %s for batch_size %d' % (s.shape, bsz)
                if len(rec) != bsz:
                    return 'model: %d calls for batch_size %d' % (len(rec), bsz)
                for j in range(bsz):
                    word, iib, x = rec[j]
                    if iib != j:
                        return 'model: row %d ran with index_in_batch %r' % (j, iib)
                    if abs(s[j, 0] - p[j]) > 1e-6 * max(1.0, abs(p[j])) or int(s[j, 2]) != j:
                        return 'model: row %d of the output is not the command applied to row %d' % (j, j)
                    if int(s[j, 1]) != sub_seed_oracle(word, j):
                        return 'model seed: row %d got %d, sub-seed of the generator word is %d' % (j, int(s[j, 1]), sub_seed_oracle(word, j))
                if len(set(int(v) for v in s[:, 1])) != bsz:
                    return 'model seed: seeds of the rows of one batch are not distinct'
                out2, _ = _model_case(elfi, tools, bsz, seed, bi)
                if not np.array_equal(np.asarray(out2['s']), s):
                    return 'model seed: not deterministic in the model seed'
                out3, _ = _model_case(elfi, tools, bsz, seed + 100, bi)
                if np.array_equal(np.asarray(out3['s'])[:, 1], s[:, 1]):
                    return 'model seed: does not depend on the model seed'
                return None
            yield 'model-b%d-s%d-batch%d' % (bsz, seed, bi), case

    def global_seed():
        """generate() with the default 'global' seed draws from numpy's global generator: it must follow np.random.seed"""
        saved = np.random.get_state()
        try:
            outs = []
            for sd in (1, 2, 1):
                np.random.seed(sd)
                m = elfi.ElfiModel()
                p = elfi.Prior('uniform', 0, 1, model=m, name='p')
                ext = tools.external_operation('echo {0} {seed} {index_in_batch}', process_result='float64')
                rec = []

                def wrap(*a, ext=ext, rec=rec, **kw):
                    rec.append(int(kw['random_state'].get_state()[1][0]))
                    return ext(*a, **kw)
                sim = elfi.Simulator(tools.vectorize(wrap), p, model=m, name='s')
                sim.uses_meta = True
                s_ = np.asarray(m.generate(3, outputs=['s'])['s'])
                want = [sub_seed_oracle(rec[j], j) for j in range(3)]
                if s_.shape != (3, 3) or [int(v) for v in s_[:, 1]] != want:
                    return "model seed: generate() with the global seed after np.random.seed(%d): seeds %r, sub-seeds of the generator's current state %r" % (sd, s_[:, 1].tolist(), want)
                outs.append(s_)
            if not np.array_equal(outs[0], outs[2]):
                return 'model seed: not deterministic in np.random.seed'
            if np.array_equal(outs[0][:, 1], outs[1][:, 1]):
                return 'model seed: generate() ignores np.random.seed (same seeds after seed 1 and seed 2)'
            return None
        finally:
            np.random.set_state(saved)
    yield 'model-global-seed', global_seed

    def doc_example():
        m = elfi.ElfiModel()
        c = elfi.Constant(123, model=m, name='c')
        sim = elfi.Simulator(tools.external_operation('echo 1 {0}', process_result='int8'), c, model=m, name='s')
        r = sim.generate()
        return None if (isinstance(r, np.ndarray) and r.tolist() == [1, 123] and r.dtype == np.int8) else 'model: docstring example gives %r' % (r,)
    yield 'model-doc-example', doc_example


def ext_cases():
    tools = _tools()
    elfi = native.import_elfi()
    for name, th in _ext_alone(tools):
        yield 'alone', name, th
    for name, th in _ext_model(elfi, tools):
        yield 'model', name, th


def _run_thunk(th):
    try:
        with native.time_limit(20):
            return th()
    except native.NativeTimeout as e:
        return 'timeout: %s' % e
    except Exception as e:
        return '%s: %s' % (type(e).__name__, str(e)[:100])


def run_ext(tier, first_failure_only=True):
    res = {'alone': dict(name='external-echo', bound='echo-style templates / option combinations, seeds {0,7} x index {None,0,1,2}, vectorised batches 0..3 of 4 rows with the full run metadata, one generator object reused after re-seeding / advancing / set_state, 6 request sequences over two batch generators', cases=0, nontrivial=0, failures=[],
                         rule='non-trivial = the seed cases (used generator, row index given)'),
           'model': dict(name='external-in-model', bound='model Prior -> Simulator(vectorize(external_operation)), batch_size 1..3 x seeds 1..3 in batch 0, batch_size 2,4 in batches 1..3, generate() with the global seed after np.random.seed(1/2/1), + docstring example',
                         cases=0, nontrivial=0, failures=[], rule='non-trivial = batch_size > 1')}
    for grp, name, th in ext_cases():
        r = res[grp]
        r['cases'] += 1
        r['nontrivial'] += 1 if (name.startswith('seed-') or name == 'model-global-seed' or (name.startswith('model-b') and not name.startswith('model-b1'))) else 0
        w = _run_thunk(th)
        if w:
            r['failures'].append(dict(what=w, input=dict(part='ext', case=name), signature='c18-ext:' + w.split(':')[0][:50]))
            if first_failure_only:
                break
    return [res['alone'], res['model']]


def run(tier='quick', seed=0):
    return [run_rv(tier)] + run_ext(tier)


def first_failure(part):
    rs = [run_rv('quick')] if part == 'rv' else run_ext('quick')
    for r in rs:
        if r['failures']:
            return r['failures'][0]
    return None


def replay_input(inp):
    """True iff the property HOLDS on this input"""
    if 'part' not in inp and isinstance(inp.get('input'), dict):      # a bounded failure record {what, input, signature}
        inp = inp['input']
    if inp.get('part') == 'rv':
        return rv_case(_tools(), inp['kinds'], inp['dtype'], inp['B'], inp['bs_mode'], inp['meta'], inp['outkind'], inp.get('ragged', False),
                       inp.get('container', 'auto'), inp.get('prior')) is None
    for grp, name, th in ext_cases():
        if name == inp.get('case'):
            return _run_thunk(th) is None
    raise ValueError('unknown replay input %r' % (inp,))
