"""Bounded stand-in / replay vehicle for C19 on the REAL classes (elfi imported from the tree under analysis).

Bound: dimensions 1..4; orthonormal rotations = Q of the QR factorisation of seeded Gaussian matrices (plus the identity); centres and limits
drawn from a seeded generator, every case with at least one degenerate dimension in a third of the cases ([0,0], [-1e-5,0], [0,5e-4]);
line_search with step objectives on dyadic grids (exact float arithmetic) and every (K, rep_lim) in a small grid; RomcPosterior constructed
directly from chosen regions / objectives / a real ModelPrior (dims 1..3), both counting modes, sequential sample and the per-region worker.
Oracles are independent of the code under test: membership by numpy.linalg.solve on R (not the stored inverse), counts by direct evaluation.
Floats: membership comparisons with tolerance 1e-9 (a draw within rounding distance of a face is not counted as a failure)."""
import itertools

import numpy as np

from pyvc import native

TOL = 1e-9
_mods = {}


def romc():
    if 'romc' not in _mods:
        _mods['romc'] = native.import_module('elfi.methods.inference.romc')
    return _mods['romc']


def posteriors():
    if 'post' not in _mods:
        _mods['post'] = native.import_module('elfi.methods.posteriors')
    return _mods['post']


def _fail(sig, what, inp):
    return dict(signature='c19:' + sig, what=what, input=inp)


def _call(f, *a, **kw):
    """-> (value, None) or (None, 'ExcName: text')"""
    import contextlib
    import io
    try:
        with native.time_limit(10), contextlib.redirect_stdout(io.StringIO()):       # the progress bar of RomcPosterior.sample prints
            return f(*a, **kw), None
    except native.NativeTimeout as e:
        return None, 'Timeout: %s' % e
    except Exception as e:
        return None, '%s: %s' % (type(e).__name__, str(e)[:120])


# ---------------------------------------------------------------- regions
def rotation(D, seed):
    if seed % 5 == 0:
        return np.eye(D)
    q, r = np.linalg.qr(np.random.RandomState(seed).normal(size=(D, D)))
    return q * np.sign(np.diag(r))


def limits_for(D, seed):
    rs = np.random.RandomState(1000 + seed)
    lim = np.column_stack([-rs.uniform(0.05, 2.0, D), rs.uniform(0.05, 2.0, D)])
    if seed % 3 == 0:
        lim[rs.randint(D)] = [[0.0, 0.0], [-1e-5, 0.0], [0.0, 5e-4]][(seed // 3) % 3]
    return lim


def member(R, c, lim, p, tol=0.0):
    """independent membership oracle: p = R y + c with lo <= y <= hi (y from a linear solve on R)"""
    y = np.linalg.solve(R, np.asarray(p, float) - c)
    return bool(np.all(y >= lim[:, 0] - tol) and np.all(y <= lim[:, 1] + tol)), y


def check_box(inp):
    """-> None or failure dict;  inp = dict(function='box', D, seed, n2)  or explicit R / c / limits / point"""
    m = romc()
    D, seed = inp['D'], inp.get('seed', 0)
    R = np.asarray(inp['R'], float) if 'R' in inp else rotation(D, seed)
    c = np.asarray(inp['c'], float) if 'c' in inp else np.random.RandomState(2000 + seed).uniform(-3, 3, D)
    lim0 = np.asarray(inp['limits'], float) if 'limits' in inp else limits_for(D, seed)
    arr = lim0.copy()
    box, err = _call(m.NDimBoundingBox, R, c, arr)
    if err:
        return _fail('box-constructor', 'NDimBoundingBox(...) raised %s' % err, inp)
    if inp.get('reuse'):
        # the caller's limits array is used again for a second box (RegionConstructor-style callers may keep one array): the first box must
        # not change - its limits, volume, membership and density are checked below AFTER the second construction
        _, err = _call(m.NDimBoundingBox, R, c + 1.0, arr)
        if err:
            return _fail('box-constructor', 'second NDimBoundingBox(...) over the same limits array raised %s' % err, inp)
        if not np.array_equal(arr, lim0):
            return _fail('limits-argument-modified', 'the limits array handed to NDimBoundingBox was modified: %r -> %r' % (lim0.tolist(), arr.tolist()), inp)
    lim = np.asarray(box.limits, float)
    w0, w = lim0[:, 1] - lim0[:, 0], lim[:, 1] - lim[:, 0]
    if lim.shape != (D, 2) or np.any(w < 0.001 - 1e-12) or np.any(lim[:, 0] > lim0[:, 0]) or np.any(lim[:, 1] < lim0[:, 1]):
        return _fail('secure-limits', 'secured limits %r from %r: narrower than 0.001 or not containing the given interval' % (lim.tolist(), lim0.tolist()), inp)
    for d in range(D):
        exp = lim0[d] if w0[d] > 0.001 else lim0[d] + [-0.0005, 0.0005]
        if np.max(np.abs(lim[d] - exp)) > 1e-12:
            return _fail('secure-limits', 'dimension %d: limits %r, expected %r' % (d, lim[d].tolist(), list(exp)), inp)
    vol = float(np.prod(w))
    if not (box.volume > 0 and abs(box.volume - vol) <= 1e-9 * vol):
        return _fail('volume', 'volume %r, product of widths %r' % (box.volume, vol), inp)
    n2 = inp.get('n2', 8)
    pts, err = _call(box.sample, n2, seed=inp.get('sample_seed', seed))
    if err:
        return _fail('sample', 'sample raised %s' % err, inp)
    pts = np.asarray(pts)
    if pts.shape != (n2, D):
        return _fail('sample', 'sample shape %r' % (pts.shape,), inp)
    for r in range(n2):
        ok, y = member(R, c, lim, pts[r], TOL)
        if not ok:
            return _fail('sample-outside', 'sampled point %r is not in the region (box coordinates %r, limits %r)' % (pts[r].tolist(), y.tolist(), lim.tolist()), inp)
        strict, _ = member(R, c, lim, pts[r], -TOL)
        got, err = _call(box.contains, pts[r])
        if err:
            return _fail('contains', 'contains raised %s' % err, inp)
        if strict and not got:
            return _fail('contains-sample', 'contains(sample()[%d]) is False for the interior point %r (box coordinates %r)' % (r, pts[r].tolist(), y.tolist()), inp)
        if strict:
            q, err = _call(box.pdf, pts[r])
            if err or abs(q - 1.0 / vol) > 1e-9 / vol:
                return _fail('pdf-inside', 'pdf at an interior point is %r, expected 1/volume = %r' % (err or q, 1.0 / vol), inp)
    # probe points: inside and outside by a margin, generated from box coordinates
    rs = np.random.RandomState(3000 + seed)
    probes = [np.asarray(p, float) for p in inp['points']] if 'points' in inp else []
    if not probes:
        for _ in range(inp.get('n_probe', 8)):
            y = rs.uniform(lim[:, 0], lim[:, 1])
            if rs.rand() < 0.6:
                d = rs.randint(D)
                y[d] = lim[d, 1] + rs.uniform(0.01, 1.0) if rs.rand() < 0.5 else lim[d, 0] - rs.uniform(0.01, 1.0)
            probes.append(R @ y + c)
    for p in probes:
        inside_lo, y = member(R, c, lim, p, -TOL)
        inside_hi, _ = member(R, c, lim, p, TOL)
        if inside_lo != inside_hi:
            continue            # within rounding distance of a face: not decided in floats
        got, err = _call(box.contains, p)
        if err or bool(got) != inside_lo:
            return _fail('contains', 'contains(%r) = %r, the point %s the region (box coordinates %r, limits %r)' % (p.tolist(), err or got, 'is in' if inside_lo else 'is outside', y.tolist(), lim.tolist()), inp)
        q, err = _call(box.pdf, p)
        exp = 1.0 / vol if inside_lo else 0.0
        if err or abs(q - exp) > 1e-9 * max(exp, 1.0):
            return _fail('pdf', 'pdf(%r) = %r, expected %r (%s)' % (p.tolist(), err or q, exp, 'inside' if inside_lo else 'outside'), inp)
    return None


def run_box(tier, seed, first=True):
    seeds = 12 if tier == 'quick' else 60
    cases = nontriv = 0
    fails = []
    for D in (1, 2, 3, 4):
        for sd in range(seed, seed + seeds):
            inp = dict(function='box', D=D, seed=sd, n2=6, reuse=(sd % 2 == 1 or sd % 3 == 0))
            cases += 1
            nontriv += 1 if (D > 1 and sd % 5 != 0) else 0
            f = check_box(inp)
            if f:
                fails.append(f)
                if first:
                    break
        if fails and first:
            break
    return dict(name='regions', bound='dims 1-4, %d seeded orthonormal rotations / centres / limits each (one third with a degenerate dimension), 6 draws + 8 probe points' % seeds,
                rule='non-trivial = dimension > 1 with a non-identity rotation', cases=cases, nontrivial=nontriv, failures=fails)


# ---------------------------------------------------------------- line_search
def check_line_search(inp):
    """inp = dict(function='line_search', D, axis, sign, T, eps, eta, K, rep_lim): f(x) = 0 if |x - x0| along the direction < T else 1  (step objective)"""
    m = romc()
    D = inp['D']
    x0 = np.asarray(inp.get('x0', [0.25 * (k + 1) for k in range(D)]), float)
    vd = np.zeros(D)
    vd[inp.get('axis', 0)] = inp.get('sign', 1) * inp.get('scale', 1.0)
    T_, eps, eta, K, rep_lim = inp['T'], inp.get('eps', 0.5), inp['eta'], inp['K'], inp['rep_lim']
    vv = float(vd @ vd)
    probes = []

    def off(x):
        return float((np.asarray(x) - x0) @ vd) / vv

    def f(x):
        o = off(x)
        v = 0.0 if (inp.get('low', -np.inf) < o < T_) else 1.0
        probes.append((o, v))
        return v
    res, err = _call(m.line_search, f, x0.copy(), vd.copy(), eps, K, eta, rep_lim)
    if err:
        return _fail('line-search-raise', 'line_search raised %s' % err, inp)
    res = float(res)
    if not res > 0:
        return _fail('line-search-positive', 'returned offset %r is not positive' % res, inp)
    start_below = (inp.get('low', -np.inf) < 0 < T_)
    if start_below and rep_lim >= 0:
        etas = [eta / 2 ** k for k in range(0, max(K, 0) + 1)]
        degenerate = any(res == e for e in etas)
        bad_upto = [o for o, v in probes if o <= res and v >= eps]
        at_res = 0.0 if (inp.get('low', -np.inf) < res < T_) else 1.0
        probed_res = any(o == res for o, v in probes)
        if not ((at_res < eps and probed_res and not bad_upto) or degenerate):
            return _fail('line-search-clause', 'returned offset %r: f there is %r (probed: %s), probes with f >= eps at or below it: %r, not a step size either' % (res, at_res, probed_res, bad_upto[:4]), inp)
    return None


def run_line_search(tier, seed, first=True):
    cases = nontriv = 0
    fails = []
    Ts = [0.125, 0.75, 1.0, 2.375, 5.0] if tier == 'quick' else [0.0625, 0.125, 0.75, 1.0, 1.5, 2.375, 5.0, 40.0]
    for D, T_, eta, K, rep_lim, sign in itertools.product((1, 2, 4), Ts, (1.0, 0.5, 2.0), (0, 1, 3, 10), (0, 1, 2, 300), (1, -1)):
        for low in (-np.inf, 0.5):          # low = 0.5: the start point is NOT below the threshold (only positivity is checked)
            inp = dict(function='line_search', D=D, axis=D - 1, sign=sign, T=T_, eta=eta, K=K, rep_lim=rep_lim, low=low)
            cases += 1
            nontriv += 1 if (K >= 1 and low < 0 and T_ > eta / 2 ** K) else 0
            f = check_line_search(inp)
            if f:
                fails.append(f)
                if first:
                    return dict(name='line_search', bound='step objectives, %d thresholds x eta {1, .5, 2} x K {0,1,3,10} x rep_lim {0,1,2,300}, dims 1,2,4' % len(Ts),
                                rule='non-trivial = K >= 1, start below the threshold, the step boundary above the finest step', cases=cases, nontrivial=nontriv, failures=fails)
    return dict(name='line_search', bound='step objectives, %d thresholds x eta {1, .5, 2} x K {0,1,3,10} x rep_lim {0,1,2,300}, dims 1,2,4' % len(Ts),
                rule='non-trivial = K >= 1, start below the threshold, the step boundary above the finest step', cases=cases, nontrivial=nontriv, failures=fails)


# ---------------------------------------------------------------- posterior
_priors = {}


def model_prior(D):
    if D not in _priors:
        elfi = native.import_elfi()
        from elfi.model.extensions import ModelPrior
        m = elfi.ElfiModel()
        for k in range(D):
            if k % 2 == 0:
                elfi.Prior('uniform', -4, 8, model=m, name='t%d' % k)
            else:
                elfi.Prior('norm', 0.5, 2.0, model=m, name='t%d' % k)
        _priors[D] = ModelPrior(m)
    return _priors[D]


def prior_density(D, x):
    import scipy.stats as ss
    v = 1.0
    for k in range(D):
        v *= ss.uniform(-4, 8).pdf(x[k]) if k % 2 == 0 else ss.norm(0.5, 2.0).pdf(x[k])
    return float(v)


def build_posterior(inp):
    m, pm = romc(), posteriors()
    D, seed, N = inp['D'], inp.get('seed', 0), inp.get('N', 3)
    rs = np.random.RandomState(4000 + seed)
    regions, funcs, meta = [], [], []
    for i in range(N):
        R = rotation(D, seed * 7 + i + 1)
        c = rs.uniform(-1, 1, D)
        lim = np.column_stack([-rs.uniform(0.3, 1.5, D), rs.uniform(0.3, 1.5, D)])
        regions.append(m.NDimBoundingBox(R, c, lim))
        centre, scale = c + rs.uniform(-0.3, 0.3, D), rs.uniform(0.5, 1.5)
        funcs.append(lambda x, centre=centre, scale=scale: float(scale * np.linalg.norm(np.asarray(x) - centre)))
        meta.append((R, c, np.asarray(regions[-1].limits, float)))
    # optimisation bounds as handed to ROMC: None, or a box TIGHTER than the prior support and than the acceptance areas, so that
    # evaluation points outside the bounds have positive prior density and accepted problems within the cut-off
    bounds = inp.get('bounds', 'tight')
    left, right = (None, None) if bounds == 'none' else (np.full(D, -1.0), np.full(D, 1.0)) if bounds == 'tight' else (np.full(D, -4.0), np.full(D, 4.0))
    post = pm.RomcPosterior(regions, funcs, funcs, funcs, funcs, list(range(N)), bool(inp.get('surrogate_used', False)), model_prior(D),
                            left, right, inp.get('eps', 0.8), inp.get('eps', 0.8), inp.get('eps', 0.8), False)
    return post, regions, funcs, meta


stats = dict(outside_nonzero=0, history_changed=0)      # evaluation points outside the optimisation bounds with a non-zero expected density (non-vacuity of that case)


def check_posterior(inp):
    """inp = dict(function=..., D, seed, N, surrogate_used, eps, n2, bounds='tight'|'none'|'wide')"""
    D, eps = inp['D'], inp.get('eps', 0.8)
    try:
        with native.time_limit(60):
            post, regions, funcs, meta = build_posterior(inp)
    except Exception as e:
        return _fail('posterior-setup', 'could not construct the posterior: %s: %s' % (type(e).__name__, str(e)[:120]), inp)
    rs = np.random.RandomState(5000 + inp.get('seed', 0))
    which = inp.get('function', 'posterior')
    if which in ('posterior', 'history', '_pdf_unnorm_single_point', '_sum_over_indicators', '_sum_over_regions', '_sum_over_regions_indicators'):
        pts = [np.asarray(p, float) for p in inp['points']] if 'points' in inp else [rs.uniform(-1.9, 1.9, D) for _ in range(inp.get('n_points', 16))]
        for th in pts:
            ins = [member(R, c, lim, th)[0] for (R, c, lim) in meta]
            near = any(member(R, c, lim, th, TOL)[0] != member(R, c, lim, th, -TOL)[0] for (R, c, lim) in meta)
            dist = [f(th) for f in funcs]
            if near or any(abs(d - eps) < TOL for d in dist):
                continue
            cnt_i = sum(1 for d in dist if d <= eps)
            cnt_r = sum(1 for a in ins if a)
            cnt_ri = sum(1 for a, d in zip(ins, dist) if a and d <= eps)
            for name, exp in (('_sum_over_indicators', cnt_i), ('_sum_over_regions', cnt_r), ('_sum_over_regions_indicators', cnt_ri)):
                got, err = _call(getattr(post, name), th)
                if err or got != exp:
                    return _fail('count', '%s(%r) = %r, expected %d' % (name, th.tolist(), err or got, exp), inp)
            exp = prior_density(D, th) * (cnt_ri if inp.get('surrogate_used') else cnt_i)
            got, err = _call(post._pdf_unnorm_single_point, th)
            if err:
                return _fail('F6-float-of-1d-array' if err.startswith('TypeError') else 'density-raise', '_pdf_unnorm_single_point raised %s' % err, inp)
            outside = post.left_lim is not None and bool(np.any(th < post.left_lim) or np.any(th > post.right_lim))
            stats['outside_nonzero'] += 1 if (outside and exp > 0) else 0
            if abs(float(got) - exp) > 1e-9 * max(1.0, abs(exp)):
                return _fail('density', '_pdf_unnorm_single_point(%r) = %r, expected prior x count = %r (point %s the optimisation bounds)' % (
                    th.tolist(), got, exp, 'outside' if outside else 'inside / no'), inp)
            gotb, err = _call(post.pdf_unnorm_batched, th[None, :])
            if err or abs(float(np.asarray(gotb).ravel()[0]) - exp) > 1e-9 * max(1.0, abs(exp)):
                return _fail('density-batched', 'pdf_unnorm_batched([%r]) = %r, expected prior x count = %r' % (th.tolist(), err or gotb, exp), inp)
    if which in ('posterior', 'history', '_pdf_unnorm_single_point', 'reset_eps_cutoff'):
        f = check_history(inp, post, meta, funcs, rs)
        if f:
            return f
    if which in ('posterior', 'RomcPosterior.sample', '_worker_compute_weight'):
        n2 = inp.get('n2', 4)
        if which == '_worker_compute_weight':       # the per-region worker alone, on draws taken from the regions directly
            theta = np.array([r.sample(n2, seed=inp.get('seed', 0)) for r in regions])
            w = None
        else:
            out, err = _call(post.sample, n2, seed=inp.get('seed', 0))
            if err:
                return _fail('F6-float-of-1d-array' if err.startswith('TypeError') else 'sample-raise', 'RomcPosterior.sample raised %s' % err, inp)
            theta, w, dist = out
            theta, w = np.asarray(theta), np.asarray(w)
            if theta.shape != (len(regions), n2, D) or w.shape != (len(regions), n2):
                return _fail('sample-shape', 'sample shapes %r %r' % (theta.shape, w.shape), inp)
        for i, (R, c, lim) in enumerate(meta):
            vol = float(np.prod(lim[:, 1] - lim[:, 0]))
            ww, err = _call(post._worker_compute_weight, (i, theta[i], regions[i], post.prior, funcs[i], eps, n2))
            if err:
                return _fail('F6-float-of-1d-array' if err.startswith('TypeError') else 'worker-raise', '_worker_compute_weight raised %s' % err, inp)
            for j in range(n2):
                th = theta[i, j]
                if not member(R, c, lim, th, TOL)[0]:
                    return _fail('sample-outside', 'draw %d of region %d is outside its region' % (j, i), inp)
                if member(R, c, lim, th, -TOL)[0] is False or abs(funcs[i](th) - eps) < TOL:
                    continue
                exp = (1.0 if funcs[i](th) < eps else 0.0) * prior_density(D, th) * vol
                for nm, got in ((('sample', w[i, j]),) if w is not None else ()) + (('_worker_compute_weight', ww[0][j]),):
                    if abs(float(got) - exp) > 1e-9 * max(1.0, abs(exp)):
                        return _fail('weight', '%s: weight[%d][%d] = %r, expected [f < eps] * prior / q = %r' % (nm, i, j, got, exp), inp)
    return None


def check_history(inp, post, meta, funcs, rs):
    """history on ONE posterior object: evaluate the unnormalised density (and pdf, dims <= 2 with bounds) at some points, reset_eps_cutoff(new),
    evaluate at the bit-identical points again; the second answers must be those of a FRESH object constructed with the new cut-off
    and must equal prior x count under the NEW cut-off (independent oracle)"""
    D, eps = inp['D'], inp.get('eps', 0.8)
    P = np.array([rs.uniform(-1.9, 1.9, D) for _ in range(inp.get('n_history', 10))])
    first, err = _call(post.pdf_unnorm_batched, P.copy())
    if err:
        return _fail('F6-float-of-1d-array' if err.startswith('TypeError') else 'density-raise', 'pdf_unnorm_batched raised %s' % err, inp)
    want_pdf = post.left_lim is not None and (D == 1 or (D == 2 and inp.get('pdf_history_2d', False)))
    if want_pdf:
        _, err = _call(post.pdf, P.copy())
        if err:
            return _fail('pdf-raise', 'pdf raised %s' % err, inp)
    for new_eps in inp.get('new_eps', [0.45 * eps, 1.7 * eps]):
        _, err = _call(post.reset_eps_cutoff, new_eps)
        if err:
            return _fail('reset-raise', 'reset_eps_cutoff raised %s' % err, inp)
        if post.eps_cutoff != new_eps or post.partition is not None:
            return _fail('reset-state', 'after reset_eps_cutoff(%r): eps_cutoff = %r, partition = %r' % (new_eps, post.eps_cutoff, post.partition), inp)
        again, err = _call(post.pdf_unnorm_batched, P.copy())
        if err:
            return _fail('density-raise', 'pdf_unnorm_batched after reset_eps_cutoff raised %s' % err, inp)
        fresh = build_posterior(dict(inp, eps=new_eps))[0]
        ref, err = _call(fresh.pdf_unnorm_batched, P.copy())
        if err:
            return _fail('density-raise', 'pdf_unnorm_batched on a fresh object raised %s' % err, inp)
        for k in range(len(P)):
            th = P[k]
            ins = [member(R, c, lim, th)[0] for (R, c, lim) in meta]
            dist = [f(th) for f in funcs]
            if any(abs(d - new_eps) < TOL or abs(d - eps) < TOL for d in dist) or any(member(R, c, lim, th, TOL)[0] != member(R, c, lim, th, -TOL)[0] for (R, c, lim) in meta):
                continue
            cnt = sum(1 for a, d in zip(ins, dist) if d <= new_eps and (a or not inp.get('surrogate_used')))
            exp = prior_density(D, th) * cnt
            stats['history_changed'] += 1 if abs(exp - float(first[k])) > 1e-12 else 0
            for nm, got in (('the fresh object', float(ref[k])), ('prior x count under the new cut-off', exp)):
                if abs(float(again[k]) - got) > 1e-9 * max(1.0, abs(got)):
                    return _fail('history-density', 'after reset_eps_cutoff(%r) the unnormalised density at the previously evaluated point %r is %r; %s gives %r '
                                 '(value before the reset, cut-off %r: %r)' % (new_eps, th.tolist(), float(again[k]), nm, got, eps, float(first[k])), inp)
        if want_pdf:
            a, err = _call(post.pdf, P.copy())
            b, err2 = _call(fresh.pdf, P.copy())
            if err or err2:
                return _fail('pdf-raise', 'pdf after reset_eps_cutoff raised %s' % (err or err2), inp)
            a, b = np.asarray(a, float), np.asarray(b, float)
            ok = np.isfinite(b)
            if np.any(np.abs(a[ok] - b[ok]) > 1e-9 * np.maximum(1.0, np.abs(b[ok]))) or np.any(np.isfinite(a) != ok):
                k = int(np.argmax(np.where(ok, np.abs(a - b), 0)))
                return _fail('history-pdf', 'after reset_eps_cutoff(%r) pdf(%r) = %r, a fresh object with that cut-off gives %r' % (new_eps, P[k].tolist(), a[k], b[k]), inp)
        eps = new_eps
    post.reset_eps_cutoff(inp.get('eps', 0.8))          # leave the object at the cut-off of the case for the checks that follow
    return None


def run_posterior(tier, seed, first=True):
    seeds = 2 if tier == 'quick' else 6
    cases = nontriv = 0
    fails = []
    for D in (1, 2, 3):
        for sd in range(seed, seed + seeds):
            for surr, bounds in ((False, 'tight'), (True, 'tight'), (False, 'none'), (True, 'wide')):
                inp = dict(function='posterior', D=D, seed=sd, N=3, surrogate_used=surr, eps=0.8, n2=3, bounds=bounds, pdf_history_2d=(tier != 'quick'))
                cases += 1
                nontriv += 1 if D > 1 else 0
                f = check_posterior(inp)
                if f:
                    fails.append(f)
                    if first:
                        break
            if fails and first:
                break
        if fails and first:
            break
    if not fails and stats['history_changed'] == 0:
        fails.append(_fail('harness-vacuous', 'no previously evaluated point changed its density after reset_eps_cutoff', dict(function='posterior')))
    if not fails and stats['outside_nonzero'] == 0:
        fails.append(_fail('harness-vacuous', 'no evaluation point outside the optimisation bounds had a non-zero expected density', dict(function='posterior')))
    return dict(name='posterior', bound='dims 1-3, %d seeds x {actual, surrogate} counting mode x optimisation bounds {tight [-1,1]^D, none, wide}, 3 regions, '
                                         '16 evaluation points in [-1.9,1.9]^D (%d outside the bounds with non-zero density), 3 draws per region; history on one object: 10 points, '
                                         'reset_eps_cutoff to 0.45x and then 1.7x, same points again vs a fresh object and the oracle (%d changed values), pdf for D = 1' % (seeds, stats['outside_nonzero'], stats['history_changed']),
                rule='non-trivial = dimension > 1', cases=cases, nontrivial=nontriv, failures=fails)


def run(tier='quick', seed=0):
    return [run_box(tier, seed), run_line_search(tier, seed), run_posterior(tier, seed)]


def replay_input(inp):
    """True iff the property HOLDS on this input"""
    if 'function' not in inp and isinstance(inp.get('input'), dict):
        inp = inp['input']              # a failure record of the bounded stand-in (signature / what / input)
    fn = inp.get('function', 'box')
    if fn in ('box', 'contains', 'sample', 'pdf', '_secure_limits', '_compute_volume'):
        return check_box(inp) is None
    if fn == 'line_search':
        return check_line_search(inp) is None
    return check_posterior(inp) is None
