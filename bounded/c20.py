"""Bounded stand-in / replay vehicle for C20: the REAL functions of the tree under analysis, run natively in floats
against the independent oracle (contracts/c20_formulas.py, scipy's MVN, numeric Jacobians of the real back-transform).

Bounds (seeded, see `run`): random non-singular summary matrices n in d+4..d+9, d in 1..3; the four bound types and mixed
vectors of length <= 4; chain scenarios of length <= 6 on a constructed sampler state (stub prior / likelihood returning
scalars, real RandomState).  Every failure carries a JSON input that `replay_input` re-runs."""
import math

import numpy as np

from pyvc import native
from contracts import c20_formulas as F

TOL = 1e-7
INF = float('inf')


def _mods():
    import warnings
    warnings.filterwarnings('ignore')
    bsl = native.import_module('elfi.methods.inference.bsl')
    pm = native.import_module('elfi.methods.bsl.pdf_methods')
    cw = native.import_module('elfi.methods.bsl.cov_warton')
    return bsl.BSL, pm, cw


def _close(a, b, tol=TOL):
    a, b = float(a), float(b)
    if math.isinf(a) or math.isinf(b) or math.isnan(a) or math.isnan(b):
        return a == b
    return abs(a - b) <= tol * max(1.0, abs(a), abs(b))


def _bounds(types, vals):
    """bound array for the given bound types: 0 two-sided, 1 upper only, 2 lower only, 3 unbounded"""
    out = []
    for t, (lo, w) in zip(types, vals):
        out.append([lo if t in (0, 2) else -INF, (lo + w) if t in (0, 1) else INF])
    return np.array(out, dtype=float)


def _call(f, *a, **k):
    """-> ('ok', value) | ('raise', 'Type: msg')"""
    try:
        with native.time_limit(10):
            return 'ok', f(*a, **k)
    except native.NativeTimeout as e:
        return 'raise', 'Timeout: %s' % e
    except Exception as e:
        return 'raise', '%s: %s' % (type(e).__name__, str(e)[:120])


def _scalar(v):
    a = np.asarray(v, dtype=float)
    if a.size != 1:
        raise ValueError('result of size %d where a single log-density is expected' % a.size)
    return float(a.reshape(-1)[0])


# ------------------------------------------------------------------------------------------ single checks (-> None | what)
def chk_roundtrip(inp):
    BSL, _, _ = _mods()
    b = np.array(inp['bound'], dtype=float)
    th = np.array(inp['theta'], dtype=float)
    st, y = _call(BSL._para_logit_transform, th, b)
    if st != 'ok':
        return 'transform raised %s' % y
    st, x = _call(BSL._para_logit_back_transform, np.asarray(y), b)
    if st != 'ok':
        return 'back-transform raised %s' % x
    x = np.asarray(x, dtype=float)
    if x.shape != th.shape or not all(_close(u, v, 1e-8) for u, v in zip(x, th)):
        return 'back(fwd(theta)) = %s for theta = %s' % (x.tolist(), th.tolist())
    if 'y' in inp:
        y0 = np.array(inp['y'], dtype=float)
        st, x2 = _call(BSL._para_logit_back_transform, y0, b)
        st2, y2 = _call(BSL._para_logit_transform, np.asarray(x2), b) if st == 'ok' else ('raise', x2)
        if st != 'ok' or st2 != 'ok':
            return 'fwd(back(y)) raised %s' % (y2,)
        if not all(_close(u, v, 1e-7) for u, v in zip(np.asarray(y2, dtype=float), y0)):
            return 'fwd(back(y)) = %s for y = %s' % (np.asarray(y2).tolist(), y0.tolist())
    return None


def num_logjac(BSL, y, b, h=1e-6):
    """log|det d back/dy| of the REAL back-transform by central differences (full matrix)"""
    y = np.asarray(y, dtype=float)
    p = y.size
    J = np.zeros((p, p))
    for j in range(p):
        e = np.zeros(p)
        e[j] = h
        J[:, j] = (np.asarray(BSL._para_logit_back_transform(y + e, b), dtype=float) - np.asarray(BSL._para_logit_back_transform(y - e, b), dtype=float)) / (2 * h)
    return float(np.linalg.slogdet(J)[1])


def chk_jacobian(inp):
    BSL, _, _ = _mods()
    b = np.array(inp['bound'], dtype=float)
    y = np.array(inp['y'], dtype=float)
    st, got = _call(BSL._jacobian_logit_transform, y, b)
    if st != 'ok':
        return '_jacobian_logit_transform raised %s' % got
    want = num_logjac(BSL, y, b)
    if not _close(got, want, 1e-5):
        return 'logJ = %.6g, log|det d back/dy| = %.6g (central differences of the real back-transform)' % (float(got), want)
    return None


_BASE = {}


def make_sampler(n_rows, p, bound=None, misspec=False, seed=0):
    BSL, pm, _ = _mods()
    # a REAL object (every attribute BSL.__init__ sets, also those an edit adds), shallow-copied, with a constructed state
    if 'base' not in _BASE:
        elfi = native.import_elfi()
        _BASE['base'] = elfi.BSL(_toy_model(elfi), 5, ['S1', 'S2'], seed=0)
    import copy
    me = copy.copy(_BASE['base'])
    me.gamma_sampler_state = {}
    me.state = dict(n_samples=0, params=np.zeros((n_rows, p)), logprior=np.zeros(n_rows), logposterior=np.zeros(n_rows),
                    n_sim_round=0, n_sim=0, n_batches=0, round=0)
    me.objective = dict(round=n_rows, n_batches=n_rows)
    me.n_sim_round = 5
    me.computation_context = type('Ctx', (), dict(batch_size=5))()
    me.logit_transform_bound = None if bound is None else np.array(bound, dtype=float)
    me.is_misspec = misspec
    me.burn_in, me.num_accepted = 0, 0
    me.random_state = np.random.RandomState(seed)
    me.sigma_proposals = 0.25 * np.eye(p)
    me.observed = np.zeros((1, 2))
    me.simulated = np.zeros((5, 2))
    me.param_names = ['t%d' % i for i in range(p)]
    return me


def ratio_oracle(BSL, bound, th_new, th_cur, post_new, post_cur):
    r = post_new - post_cur
    if bound is not None:
        b = np.array(bound, dtype=float)
        r += num_logjac(BSL, BSL._para_logit_transform(np.asarray(th_new, dtype=float), b), b) - \
            num_logjac(BSL, BSL._para_logit_transform(np.asarray(th_cur, dtype=float), b), b)
    return math.exp(min(700.0, max(-700.0, r)))


def chk_mh_ratio(inp, via_propagate=False):
    """_get_mh_ratio on a constructed state.  The state is first written directly (row n = the given proposal); if that call
    raises, the same step is driven through the REAL call sequence (_propagate_state produces the proposal, as _init_round
    does) - an implementation that keeps the proposal in an attribute of its own is reachable only that way."""
    BSL, _, _ = _mods()
    th_new, th_cur = inp['theta_new'], inp['theta_cur']
    me = make_sampler(3, len(th_new), inp.get('bound'), seed=inp.get('seed', 0))
    me.state['n_samples'] = 1
    me.state['params'][0] = th_cur
    if via_propagate:
        st, prop = _call(me._propagate_state)
        if st != 'ok':
            return '_propagate_state raised %s' % prop
        th_new = np.asarray(prop, dtype=float).reshape(-1).tolist()
    me.state['params'][1] = th_new
    me.state['logposterior'][0], me.state['logposterior'][1] = inp['post_cur'], inp['post_new']
    st, got = _call(me._get_mh_ratio)
    if st != 'ok':
        return chk_mh_ratio(inp, True) if not via_propagate else '_get_mh_ratio raised %s' % got
    want = ratio_oracle(BSL, inp.get('bound'), th_new, th_cur, inp['post_new'], inp['post_cur'])
    if not _close(math.log(float(got)), math.log(want), 1e-5):
        return 'ratio = %.6g, posterior ratio x Jacobian ratio (at the transformed points) = %.6g%s' % (
            float(got), want, ' (proposal %s drawn by _propagate_state)' % th_new if via_propagate else '')
    return None


def _gsl_oracle(X, y, W, shrinkage, penalty, standardise=False):
    import scipy.stats as ss
    X, y = np.asarray(X, dtype=float), np.asarray(y, dtype=float).reshape(-1)
    Xl, yl = X.tolist(), y.tolist()
    if W is not None:
        Wl = np.asarray(W, dtype=float).tolist()
        Xl, yl = F.whiten_rows(Xl, Wl), F.matvec(Wl, yl)
    m, S = F.sample_mean(Xl), F.sample_cov(Xl)
    if shrinkage == 'warton':
        S = F.warton(S, 1 - penalty, float(F.WARTON_EPS))
    if shrinkage == 'glasso':
        # sklearn's graphical lasso (assumed library) on the covariance, or on the correlation with the estimate rescaled
        from sklearn.covariance import graphical_lasso
        S = np.array(S, dtype=float).reshape(len(m), len(m))
        sd = np.sqrt(np.diag(S)) if standardise else np.ones(len(m))
        S = np.outer(sd, sd) * graphical_lasso(S / np.outer(sd, sd), alpha=penalty, max_iter=200)[0]
    return float(ss.multivariate_normal.logpdf(np.array(yl), mean=np.array(m), cov=np.array(S).reshape(len(m), len(m))))


def chk_likelihood(inp):
    """kinds gsl / go / misspec; X (n, d), y (1, d) as the sampler passes them"""
    import scipy.stats as ss
    _, pm, _ = _mods()
    X = np.array(inp['X'], dtype=float)
    y = np.array(inp['y'], dtype=float)
    yobs = y.reshape(1, -1) if inp.get('y_2d', True) else y.reshape(-1)
    which = inp['which']
    if which == 'gsl':
        W = None if inp.get('W') is None else np.array(inp['W'], dtype=float)
        st, got = _call(pm.gaussian_syn_likelihood, X.copy(), yobs.copy(), shrinkage=inp.get('shrinkage'), penalty=inp.get('penalty'), whitening=W,
                        standardise=bool(inp.get('standardise', False)))
        want = _gsl_oracle(X, y, W, inp.get('shrinkage'), inp.get('penalty'), bool(inp.get('standardise', False)))
    elif which == 'go':
        st, got = _call(pm.gaussian_syn_likelihood_ghurye_olkin, X.copy(), yobs.copy())
        want = F.go_loglik_float(X, y)
    else:
        g = np.array(inp['gamma'], dtype=float)
        st, got = _call(pm.syn_likelihood_misspec, X.copy(), yobs.copy(), g, inp['adjustment'])
        m, S = F.misspec_moments(X.tolist(), g.tolist(), inp['adjustment'], math.sqrt)
        want = float(ss.multivariate_normal.logpdf(y.reshape(-1), mean=np.array(m), cov=np.array(S).reshape(len(m), len(m))))
    if st != 'ok':
        return '%s raised %s (n=%d, d=%d); the stated value is %.6g' % (which, got, X.shape[0], X.shape[1], want)
    try:
        got = _scalar(got)
    except ValueError as e:
        return '%s: %s' % (which, e)
    if not _close(got, want, 1e-6):
        return '%s = %.8g, stated formula = %.8g (difference %.6g; n=%d, d=%d)' % (which, got, want, got - want, X.shape[0], X.shape[1])
    return None


def chk_warton(inp):
    _, _, cw = _mods()
    S = np.array(inp['S'], dtype=float)
    g = float(inp['gamma'])
    st, got = _call(cw.cov_warton, S.copy(), g)
    if not (0 <= g <= 1):
        return None if (st == 'raise' and got.startswith('ValueError')) else 'gamma = %r outside [0, 1] is not rejected with ValueError (%s)' % (g, st)
    if st != 'ok':
        return 'cov_warton raised %s' % got
    want = np.array(F.warton(S.tolist(), g, float(F.WARTON_EPS)))
    if np.asarray(got).shape != want.shape or not np.allclose(got, want, rtol=1e-9, atol=1e-12):
        return 'cov_warton = %s, ridge formula = %s' % (np.asarray(got).tolist(), want.tolist())
    return None


def chk_wcon(inp):
    _, pm, _ = _mods()
    k, nu = int(inp['k']), int(inp['nu'])
    st, got = _call(pm.wcon, k, nu)
    if st != 'ok':
        return 'wcon raised %s' % got
    want = F.log_c(k, nu, math.log, math.lgamma, math.pi, 0.5)
    return None if _close(got, want, 1e-10) else 'wcon(%d, %d) = %.10g, log c(k, nu) = %.10g' % (k, nu, float(got), want)


def chk_process(inp, via_propagate=False):
    """one _process_simulated step on a constructed state: accept iff u < min(1, ratio); rejected state restored
    (direct state first; if the call raises, through the real call sequence - see chk_mh_ratio)"""
    BSL, _, _ = _mods()
    th_new, th_cur = inp['theta_new'], inp['theta_cur']
    n = int(inp.get('n', 1))
    me = make_sampler(n + 2, len(th_new), inp.get('bound'), seed=inp.get('seed', 0))
    ll = float(inp['loglik'])
    me.likelihood = lambda sim, obs, **kw: np.array([ll])       # what gaussian_syn_likelihood returns: a shape-(1,) array
    if inp.get('sim_nonfinite'):
        me.simulated[0, 0] = INF
    st_ = me.state
    st_['n_samples'] = n
    if n >= 1:
        st_['params'][n - 1], st_['logprior'][n - 1], st_['logposterior'][n - 1] = th_cur, inp['lprior_cur'], inp['post_cur']
    if via_propagate and n >= 1:
        st, prop = _call(me._propagate_state)
        if st != 'ok':
            return '_propagate_state raised %s' % prop
        th_new = np.asarray(prop, dtype=float).reshape(-1).tolist()
    st_['params'][n], st_['logprior'][n] = th_new, inp['lprior_new']
    before = {k: np.array(st_[k], copy=True) for k in ('params', 'logprior', 'logposterior')}
    import copy
    u = float(copy.deepcopy(me.random_state).uniform())          # the next uniform draw of the sampler's stream
    st, got = _call(me._process_simulated)
    if st != 'ok' and not via_propagate and n >= 1:
        return chk_process(inp, True)
    eff_ll = -INF if inp.get('sim_nonfinite') else ll
    if n == 0 and not math.isfinite(eff_ll):
        return None if (st == 'raise' and got.startswith('RuntimeError')) else 'non-finite likelihood on the initialisation round: %s %s' % (st, got)
    if st != 'ok':
        return '_process_simulated raised %s' % got
    post_new = eff_ll + inp['lprior_new']
    if n == 0:
        accept = True
    elif not math.isfinite(post_new):
        accept = False
    else:
        accept = u < min(1.0, ratio_oracle(BSL, inp.get('bound'), th_new, th_cur, post_new, inp['post_cur']))
    want = dict(before)
    want = {k: v.copy() for k, v in before.items()}
    if accept:
        want['logposterior'][n] = post_new
    else:
        for k in want:
            want[k][n] = before[k][n - 1]
    for k in want:
        if not np.allclose(st_[k], want[k], rtol=1e-12, atol=0, equal_nan=True):
            return 'u = %.6g, accept = %s by the stated rule, but state[%s] = %s (stated %s)' % (u, accept, k, st_[k].tolist(), want[k].tolist())
    if st_['n_samples'] != n + 1:
        return 'n_samples = %r after the step, %d stated' % (st_['n_samples'], n + 1)
    if me.num_accepted != (1 if accept else 0):
        return 'num_accepted = %r, accept = %s' % (me.num_accepted, accept)
    return None


def chk_init_round(inp):
    """_init_round with a prior whose support is an interval box: proposals outside are rejected without simulating"""
    BSL, _, _ = _mods()
    p = len(inp['theta_cur'])
    N, n0 = int(inp['chain_len']), int(inp['n0'])
    me = make_sampler(N, p, inp.get('bound'), seed=inp.get('seed', 0))
    lo, hi = np.array(inp['support_lo'], dtype=float), np.array(inp['support_hi'], dtype=float)
    calls = []

    class Prior:
        def logpdf(self, x):
            x = np.asarray(x, dtype=float).reshape(-1)
            calls.append(x.copy())
            return np.array([0.0 if (np.all(x > lo) and np.all(x < hi)) else -INF])     # ModelPrior.logpdf of a (1, d) point: shape (1,)
    me.prior = Prior()
    me.sigma_proposals = float(inp.get('sigma', 1.0)) * np.eye(p)
    st_ = me.state
    st_['n_samples'] = n0
    rs = np.random.RandomState(5)
    st_['params'][:], st_['logprior'][:], st_['logposterior'][:] = rs.randn(N, p), rs.randn(N), rs.randn(N)
    st_['params'][n0 - 1] = inp['theta_cur']
    st_['n_sim_round'], st_['n_sim'], st_['n_batches'] = 5, 35, 7
    me.objective = dict(round=int(inp.get('objective', N)), n_batches=int(inp.get('objective', N)))
    before = {k: np.array(st_[k], copy=True) for k in ('params', 'logprior', 'logposterior')}
    obj0 = me.objective['round']
    st, got = _call(me._init_round)
    if st != 'ok':
        return '_init_round raised %s' % got
    n1 = st_['n_samples']
    if not (n0 <= n1 <= N) or len(calls) != (n1 - n0) + (1 if n1 < N else 0):
        return 'n_samples %d -> %r with %d proposals' % (n0, n1, len(calls))
    for k in range(n0, n1):
        inside = bool(np.all(calls[k - n0] > lo) and np.all(calls[k - n0] < hi))
        if inside:
            return 'proposal %s inside the support was rejected' % calls[k - n0].tolist()
        for f in before:
            if not np.array_equal(st_[f][k], before[f][n0 - 1]):
                return 'rejected row %d of %s = %s, current state = %s' % (k, f, np.asarray(st_[f][k]).tolist(), np.asarray(before[f][n0 - 1]).tolist())
    if n1 < N:
        x = calls[-1]
        if not (np.all(x > lo) and np.all(x < hi)):
            return 'a proposal outside the prior support (%s) starts a simulation round' % x.tolist()
        if not np.allclose(st_['params'][n1], x) or st_['logprior'][n1] != 0.0 or st_['n_sim_round'] != 0:
            return 'round start: row %d = %s, proposal = %s, n_sim_round = %r' % (n1, st_['params'][n1].tolist(), x.tolist(), st_['n_sim_round'])
    elif st_['n_sim_round'] != 5:
        return 'n_sim_round changed to %r although no round starts' % st_['n_sim_round']
    for f in before:
        keep = [k for k in range(N) if k < n0 or k > n1 or (k == n1 and f == 'logposterior')]
        if not np.array_equal(st_[f][keep], before[f][keep]):
            return 'rows of %s outside n0..n were modified' % f
    if st_['n_sim'] != 35 or st_['n_batches'] != 7:
        return 'simulation counters changed: n_sim=%r n_batches=%r' % (st_['n_sim'], st_['n_batches'])
    if me.objective['round'] != obj0 - (n1 - n0):
        return 'objective round = %r, stated %d' % (me.objective['round'], obj0 - (n1 - n0))
    return None


def chk_propagate(inp):
    """proposal = back-transform of a Gaussian step around the transformed current state (same RandomState stream)"""
    BSL, _, _ = _mods()
    th = np.array(inp['theta_cur'], dtype=float)
    p = th.size
    me = make_sampler(3, p, inp.get('bound'), seed=inp.get('seed', 0))
    me.state['n_samples'] = 1
    me.state['params'][0] = th
    st, got = _call(me._propagate_state)
    if st != 'ok':
        return '_propagate_state raised %s' % got
    rs = np.random.RandomState(inp.get('seed', 0))
    if inp.get('bound') is None:
        want = rs.multivariate_normal(th, me.sigma_proposals)
    else:
        b = np.array(inp['bound'], dtype=float)
        want = BSL._para_logit_back_transform(rs.multivariate_normal(BSL._para_logit_transform(th, b), me.sigma_proposals), b)
    got = np.asarray(got, dtype=float)
    if got.shape != (1, p) or not np.allclose(got[0], want, rtol=1e-10, atol=1e-12):
        return 'proposal %s, stated %s' % (got.tolist(), np.asarray(want).tolist())
    return None


# ------------------------------------------------------------------------------------------ end-to-end BSL.sample
SUPPORT_LO, SUPPORT_W = np.array([-2.0, 0.2]), np.array([4.0, 3.0])
Y_OBS = np.array([[0.3, -0.1, 0.5, 0.9, 0.2, 0.0, 0.4, 0.6]])


def _toy_sim(t1, t2, batch_size=1, random_state=None):
    rs = random_state or np.random
    t1, t2 = np.asarray(t1, dtype=float).reshape(-1, 1), np.asarray(t2, dtype=float).reshape(-1, 1)
    return t1 + 0.5 * np.abs(t2) * rs.randn(len(t1), 8)


def _toy_s1(x):
    return x.mean(axis=1)


def _toy_s2(x):
    return x.std(axis=1)


def _toy_sim1(t1, batch_size=1, random_state=None):
    return _toy_sim(t1, np.ones_like(np.asarray(t1, dtype=float)), batch_size, random_state)


def _toy_model(elfi, dim=2):
    m = elfi.ElfiModel()
    t1 = elfi.Prior('uniform', SUPPORT_LO[0], SUPPORT_W[0], model=m, name='t1')
    if dim == 1:
        y = elfi.Simulator(_toy_sim1, t1, observed=Y_OBS, name='y')
    else:
        t2 = elfi.Prior('uniform', SUPPORT_LO[1], SUPPORT_W[1], model=m, name='t2')
        y = elfi.Simulator(_toy_sim, t1, t2, observed=Y_OBS, name='y')
    elfi.Summary(_toy_s1, y, name='S1')
    elfi.Summary(_toy_s2, y, name='S2')
    return m


def _toy_logprior(x):
    """independent oracle of the joint prior: product of the two uniforms"""
    x = np.asarray(x, dtype=float).reshape(-1)
    lo, w = SUPPORT_LO[:x.size], SUPPORT_W[:x.size]
    if np.all(x >= lo) and np.all(x <= lo + w):
        return float(-np.log(w).sum())
    return -INF


class _RSRec:
    """RandomState that records the Gaussian proposal draws and the argument-free uniform draws (accept tests)"""

    def __init__(self, rs, owner, events):
        self._rs, self._owner, self._ev = rs, owner, events

    def uniform(self, *a, **k):
        v = self._rs.uniform(*a, **k)
        if not a and not k:
            self._ev.append(('u', float(v)))
        return v

    def multivariate_normal(self, mean, cov, *a, **k):
        v = self._rs.multivariate_normal(mean, cov, *a, **k)
        self._ev.append(('mvn', np.array(mean, dtype=float, copy=True), np.array(v, dtype=float, copy=True)))
        return v

    def __getattr__(self, k):
        return getattr(self._rs, k)


class _LikRec:
    def __init__(self, f, events):
        self._f, self._ev = f, events
        self.keywords = getattr(f, 'keywords', {})
        self.func = getattr(f, 'func', f)

    def __call__(self, *a, **k):
        v = self._f(*a, **k)
        self._ev.append(('lik', v))
        return v


def _instrument_sampler(b, events):
    """recording wrappers on ONE real BSL object (the real methods run; nothing is replaced)"""
    from functools import partial
    b.random_state = _RSRec(b.random_state, b, events)
    lik = b.likelihood
    if isinstance(lik, partial):
        rec = _LikRec(lik, events)
        b.likelihood = partial(lambda *a, **k: rec(*a, **k), **lik.keywords) if False else lik
        # a partial must stay a partial (is_misspec / _resolve_gamma_sampler read .keywords): wrap the inner function
        b.likelihood = partial(_LikRec(lik.func, events), *lik.args, **lik.keywords)
    else:
        b.likelihood = _LikRec(lik, events)
    orig_ps, orig_rg = b._process_simulated, b._resolve_gamma_sampler

    def ps():
        n = b.state['n_samples']
        events.append(('ps_begin', n))
        orig_ps()
        events.append(('ps_end', n, np.array(b.state['params'][n], copy=True)))
    b._process_simulated = ps

    def rg(*a, **k):
        sampler, g0 = orig_rg(*a, **k)

        def gs(*a2, **k2):
            g, ll = sampler(*a2, **k2)
            events.append(('gamma', float(np.squeeze(ll))))
            return g, ll
        return gs, g0
    b._resolve_gamma_sampler = rg


def _verify_chain(BSL, b, events, run, bound):
    """re-derive the whole chain from the recorded draws / likelihood values with the stated rule -> None | what"""
    bd = None if bound is None else np.array(bound, dtype=float)
    fwd = (lambda x: np.asarray(BSL._para_logit_transform(np.asarray(x, dtype=float), bd), dtype=float)) if bd is not None else (lambda x: np.asarray(x, dtype=float))
    back = (lambda y: np.asarray(BSL._para_logit_back_transform(np.asarray(y, dtype=float), bd), dtype=float)) if bd is not None else (lambda y: np.asarray(y, dtype=float))
    P, Q = np.asarray(b.state['params'], dtype=float), np.asarray(b.state['logposterior'], dtype=float)
    cur, post_cur, pending, n = P[0].copy(), None, None, 0
    if run.get('params0') is not None and not np.allclose(cur, run['params0']):
        return 'chain starts at %s, params0 = %s' % (cur.tolist(), run['params0'])
    chain_p, chain_q, in_ps, liks, us, decided = [], [], False, [], [], 0
    for ev in events:
        k = ev[0]
        if k == 'ps_begin':
            in_ps, liks, us = True, [], []
        elif k == 'lik' and in_ps:
            liks.append(float(np.squeeze(np.asarray(ev[1], dtype=float))))
        elif k == 'u' and in_ps:
            us.append(ev[1])
        elif k == 'u':
            return 'a uniform accept draw outside _process_simulated'
        elif k == 'gamma':
            post_cur = ev[1] + _toy_logprior(cur)
            if chain_q:
                chain_q[-1] = post_cur
        elif k == 'mvn':
            if pending is not None:
                return 'a new proposal is drawn while the proposal %s has not been processed' % pending.tolist()
            if not np.allclose(ev[1], fwd(cur), rtol=1e-9, atol=1e-12):
                return 'iteration %d: proposal centred at %s but the current state %s transforms to %s' % (n, ev[1].tolist(), cur.tolist(), fwd(cur).tolist())
            prop = back(ev[2])
            if _toy_logprior(prop) == -INF:
                chain_p.append(cur.copy()); chain_q.append(post_cur); n += 1       # rejected without simulating
            else:
                pending = prop
        elif k == 'ps_end':
            in_ps = False
            if len(liks) != 1:
                return 'iteration %d: %d likelihood evaluations in one round' % (n, len(liks))
            if n == 0:
                if us:
                    return 'a uniform draw on the initialisation round'
                post_cur = liks[0] + _toy_logprior(cur)
                chain_p.append(cur.copy()); chain_q.append(post_cur); n = 1
                continue
            if pending is None:
                return 'iteration %d: a round was simulated without a pending proposal inside the prior support' % n
            if len(us) != 1:
                return 'iteration %d: %d uniform draws for one accept test' % (n, len(us))
            post_new = liks[0] + _toy_logprior(pending)
            if math.isfinite(post_new):
                prob = min(1.0, ratio_oracle(BSL, bound, pending, cur, post_new, post_cur))
            else:
                prob = 0.0
            actual = bool(np.allclose(ev[2], pending, rtol=1e-12, atol=0) and not np.allclose(pending, cur, rtol=1e-12, atol=0))
            if abs(us[0] - prob) > 1e-4 * max(prob, 1e-12) + 1e-12:
                stated = us[0] < prob
                decided += 1
                if stated != actual:
                    return 'iteration %d: u = %.6g, min(1, posterior ratio x Jacobian ratio) = %.6g: stated %s, sampler %s (proposal %s, current %s)' % (
                        n, us[0], prob, 'accept' if stated else 'reject', 'accepted' if actual else 'rejected', pending.tolist(), cur.tolist())
            if actual:
                cur, post_cur = pending.copy(), post_new
            chain_p.append(cur.copy()); chain_q.append(post_cur); n += 1
            pending = None
    if n != run['n'] or b.state['n_samples'] != run['n']:
        return 'chain length %d (state n_samples %r), %d requested' % (n, b.state['n_samples'], run['n'])
    if not np.allclose(P[:n], np.array(chain_p), rtol=1e-10, atol=1e-12):
        k = int(np.argmax(np.abs(P[:n] - np.array(chain_p)).sum(axis=1) > 0))
        return 'row %d of the chain is %s, the stated rule gives %s' % (k, P[k].tolist(), chain_p[k].tolist())
    if not np.allclose(Q[:n], np.array(chain_q, dtype=float), rtol=1e-8, atol=1e-10, equal_nan=True):
        k = int(np.argmax(~np.isclose(Q[:n], np.array(chain_q, dtype=float), rtol=1e-8, atol=1e-10)))
        return 'log-posterior of row %d is %.8g, recomputed %.8g' % (k, Q[k], chain_q[k])
    run['_decided'] = decided
    return None


def chk_sample(inp):
    """real BSL.sample on a two-parameter toy model; one or more consecutive sample() calls on ONE object"""
    BSL, pm, _ = _mods()
    elfi = native.import_elfi()
    lik = dict(standard=pm.standard_likelihood, unbiased=pm.unbiased_likelihood, rbslm=lambda: pm.robust_likelihood('mean'),
               rbslv=lambda: pm.robust_likelihood('variance'))[inp['likelihood']]()
    try:
        with native.time_limit(120):
            dim = int(inp.get('dim', 2))
            b = elfi.BSL(_toy_model(elfi, dim), int(inp['n_sim_round']), ['S1', 'S2'], likelihood=lik, seed=int(inp.get('seed', 1)))
            events = []
            _instrument_sampler(b, events)
            for k, run in enumerate(inp['runs']):
                del events[:]
                try:
                    b.sample(int(run['n']), sigma_proposals=float(run.get('sigma', 0.05)) * np.eye(dim),
                             params0=(None if run.get('params0') is None else np.array(run['params0'], dtype=float)),
                             logit_transform_bound=run.get('bound'), bar=False)
                except native.NativeTimeout:
                    raise
                except Exception as e:
                    import traceback
                    where = [l.strip() for l in traceback.format_exc().splitlines() if 'bsl.py' in l]
                    return 'sample() call %d raised %s: %s%s' % (k + 1, type(e).__name__, str(e)[:100], (' at ' + where[-1].split(', in ')[-1]) if where else '')
                what = _verify_chain(BSL, b, list(events), run, run.get('bound'))
                if what:
                    return 'sample() call %d, %s' % (k + 1, what)
    except native.NativeTimeout as e:
        return 'BSL.sample: %s' % e
    return None


CHECKS = dict(sample=chk_sample, propagate=chk_propagate, roundtrip=chk_roundtrip, jacobian=chk_jacobian, mh_ratio=chk_mh_ratio, likelihood=chk_likelihood, warton=chk_warton,
              wcon=chk_wcon, process=chk_process, init_round=chk_init_round)


def check(inp):
    """-> None when the property holds on this input, else a description"""
    try:
        return CHECKS[inp['kind']](inp)
    except native.NativeTimeout as e:
        return str(e)


def replay_input(inp):
    return check(inp) is None


# ------------------------------------------------------------------------------------------ generators
def gen_cases(tier, seed):
    rs = np.random.RandomState(1000 + seed)
    k = 1 if tier == 'quick' else 4
    # transforms / Jacobians: single types and mixed vectors
    type_lists = [(0,), (1,), (2,), (3,), (0, 1), (2, 0, 3), (1, 2, 0), (3, 1, 0, 2)]
    for types in type_lists:
        for _ in range(4 * k):
            vals = [(float(rs.uniform(-3, 3)), float(rs.uniform(0.5, 4))) for _ in types]
            b = _bounds(types, vals)
            th = []
            for t, (lo, w) in zip(types, vals):
                th.append(lo + w * rs.uniform(0.05, 0.95) if t == 0 else (lo + w - rs.uniform(0.1, 3) if t == 1 else (lo + rs.uniform(0.1, 3) if t == 2 else rs.uniform(-3, 3))))
            y = rs.uniform(-2.5, 2.5, size=len(types)).tolist()
            yield 'transform', dict(kind='roundtrip', types=list(types), bound=b.tolist(), theta=[float(v) for v in th], y=y), len(types) > 1
            yield 'jacobian', dict(kind='jacobian', types=list(types), bound=b.tolist(), y=y), True
            th2 = []
            for t, (lo, w) in zip(types, vals):
                th2.append(lo + w * rs.uniform(0.05, 0.95) if t == 0 else (lo + w - rs.uniform(0.1, 3) if t == 1 else (lo + rs.uniform(0.1, 3) if t == 2 else rs.uniform(-3, 3))))
            yield 'mh_ratio', dict(kind='mh_ratio', types=list(types), bound=b.tolist(), theta_new=[float(v) for v in th], theta_cur=[float(v) for v in th2],
                                   post_new=float(rs.uniform(-5, 0)), post_cur=float(rs.uniform(-5, 0))), True
            yield 'propagate', dict(kind='propagate', types=list(types), bound=b.tolist(), theta_cur=[float(v) for v in th2], seed=int(rs.randint(1000))), True
            yield 'process', dict(kind='process', types=list(types), bound=b.tolist(), theta_new=[float(v) for v in th], theta_cur=[float(v) for v in th2],
                                  loglik=float(rs.uniform(-4, 0)), lprior_new=float(rs.uniform(-2, 0)), lprior_cur=float(rs.uniform(-2, 0)),
                                  post_cur=float(rs.uniform(-6, 0)), seed=int(rs.randint(1000)), n=1), True
    for _ in range(4 * k):
        th, th2 = rs.randn(2).tolist(), rs.randn(2).tolist()
        yield 'mh_ratio', dict(kind='mh_ratio', bound=None, theta_new=th, theta_cur=th2, post_new=float(rs.uniform(-5, 0)), post_cur=float(rs.uniform(-5, 0))), False
        yield 'mh_ratio', dict(kind='mh_ratio', bound=None, theta_new=th, theta_cur=th2, post_new=float(rs.uniform(800, 900)), post_cur=0.0), True
        for big in (30.0, 100.0, 650.0, 699.0, 701.0):
            yield 'mh_ratio', dict(kind='mh_ratio', bound=None, theta_new=th, theta_cur=th2, post_new=big, post_cur=0.0), True
            yield 'mh_ratio', dict(kind='mh_ratio', bound=None, theta_new=th, theta_cur=th2, post_new=-big, post_cur=0.0), True
        yield 'propagate', dict(kind='propagate', bound=None, theta_cur=th2, seed=int(rs.randint(1000))), False
        yield 'process', dict(kind='process', bound=None, theta_new=th, theta_cur=th2, loglik=float(rs.uniform(-4, 0)), lprior_new=-1.0, lprior_cur=-1.5,
                              post_cur=float(rs.uniform(-6, 0)), seed=int(rs.randint(1000)), n=1), True
    yield 'process', dict(kind='process', bound=None, theta_new=[0.1], theta_cur=[0.2], loglik=-1.0, lprior_new=-1.0, lprior_cur=0.0, post_cur=0.0, seed=1, n=0), False
    yield 'process', dict(kind='process', bound=None, theta_new=[0.1], theta_cur=[0.2], loglik=-1.0, lprior_new=-1.0, lprior_cur=0.0, post_cur=0.0, seed=1, n=0,
                          sim_nonfinite=True), True
    yield 'process', dict(kind='process', bound=None, theta_new=[0.1], theta_cur=[0.2], loglik=-1.0, lprior_new=-1.0, lprior_cur=0.0, post_cur=-3.0, seed=2, n=1,
                          sim_nonfinite=True), True
    # _init_round: narrow support so that rejections happen
    for j in range(6 * k):
        p = 1 + j % 2
        yield 'init_round', dict(kind='init_round', bound=None, theta_cur=[0.0] * p, support_lo=[-0.4] * p, support_hi=[0.4] * p, sigma=float(rs.uniform(0.3, 3)),
                                 chain_len=int(rs.randint(3, 7)), n0=int(rs.randint(1, 3)), seed=int(rs.randint(1000))), True
    yield 'init_round', dict(kind='init_round', bound=[[-1.0, 1.0]], theta_cur=[0.2], support_lo=[-0.5], support_hi=[0.5], sigma=4.0, chain_len=6, n0=1, seed=3), True
    # end-to-end sampler runs (one object; the last two are HISTORIES: a second sample() call with another start / other bounds)
    B1, B2 = [[-2.0, 2.0], [0.2, 3.2]], [[-3.0, 5.0], [0.0, 4.0]]
    for likn, nsim in (('standard', 60), ('unbiased', 200), ('rbslm', 60), ('rbslv', 60)):
        nn = int(rs.randint(10, 16)) if tier == 'quick' else int(rs.randint(20, 31))
        yield 'sample', dict(kind='sample', likelihood=likn, n_sim_round=nsim, seed=int(rs.randint(1000)),
                             runs=[dict(n=nn, params0=[0.5, 1.0], bound=None, sigma=0.8)]), True
        yield 'sample', dict(kind='sample', likelihood=likn, n_sim_round=nsim, seed=int(rs.randint(1000)),
                             runs=[dict(n=nn, params0=[0.5, 1.0], bound=B1, sigma=0.3)]), True
    yield 'sample', dict(kind='sample', likelihood='standard', n_sim_round=60, seed=7, runs=[dict(n=10, params0=None, bound=None, sigma=0.3)]), True
    yield 'sample', dict(kind='sample', likelihood='standard', n_sim_round=60, seed=5, dim=1, runs=[dict(n=10, params0=[0.5], bound=None, sigma=0.8)]), True
    yield 'sample', dict(kind='sample', likelihood='standard', n_sim_round=60, seed=6, dim=1, runs=[dict(n=10, params0=None, bound=[[-2.0, 2.0]], sigma=0.3)]), True
    yield 'sample', dict(kind='sample', likelihood='standard', n_sim_round=60, seed=11,
                         runs=[dict(n=10, params0=[0.5, 1.0], bound=B1, sigma=0.3), dict(n=10, params0=[-1.0, 2.5], bound=B2, sigma=0.3),
                               dict(n=8, params0=[1.5, 0.6], bound=None, sigma=0.5)]), True
    yield 'sample', dict(kind='sample', likelihood='rbslm', n_sim_round=60, seed=13,
                         runs=[dict(n=10, params0=[0.5, 1.0], bound=B1, sigma=0.3), dict(n=10, params0=[-1.0, 2.5], bound=B1, sigma=0.3)]), True
    # likelihoods
    for d in (1, 2, 3):
        for _ in range(3 * k):
            n = d + 4 + int(rs.randint(0, 6))
            A = rs.randn(d, d) + 1.5 * np.eye(d)
            X = rs.randn(n, d) @ A + rs.randn(d)
            y = X.mean(0) + 0.3 * rs.randn(d)
            base = dict(kind='likelihood', X=X.tolist(), y=y.tolist())
            yield 'gsl', dict(base, which='gsl'), d > 1
            yield 'gsl', dict(base, which='gsl', y_2d=False), d > 1
            yield 'gsl-whitening', dict(base, which='gsl', W=(rs.randn(d, d) + 1.5 * np.eye(d)).tolist()), True
            yield 'gsl-warton', dict(base, which='gsl', shrinkage='warton', penalty=float(rs.uniform(0.1, 0.9))), True
            yield 'gsl-whitening-warton', dict(base, which='gsl', W=(rs.randn(d, d) + 1.5 * np.eye(d)).tolist(), shrinkage='warton', penalty=float(rs.uniform(0.1, 0.9))), True
            if d >= 2:      # sklearn's graphical_lasso refuses a single feature
                yield 'gsl-glasso', dict(base, which='gsl', shrinkage='glasso', penalty=float(rs.uniform(0.01, 0.2))), True
                yield 'gsl-glasso-standardise', dict(base, which='gsl', shrinkage='glasso', penalty=float(rs.uniform(0.01, 0.2)), standardise=True), True
            yield 'ghurye-olkin', dict(base, which='go'), True
            far = X.mean(0) + 6.0 * np.sqrt(np.diag(np.atleast_2d(np.cov(X, rowvar=False)))) * np.sign(rs.randn(d))
            yield 'ghurye-olkin-far', dict(kind='likelihood', X=X.tolist(), y=far.tolist(), which='go'), True
            g = rs.uniform(0.1, 1.0, size=d).tolist()
            yield 'misspec-mean', dict(base, which='misspec', gamma=g, adjustment='mean'), True
            yield 'misspec-variance', dict(base, which='misspec', gamma=g, adjustment='variance'), True
            S = np.atleast_2d(np.cov(X, rowvar=False))
            yield 'cov_warton', dict(kind='warton', S=S.tolist(), gamma=float(rs.uniform(0, 1))), True
    for g in (-0.1, 1.2, 0.0, 1.0):
        yield 'cov_warton', dict(kind='warton', S=[[2.0, 0.3], [0.3, 1.0]], gamma=g), True
    for kk in (1, 2, 3):
        for nu in (kk + 1, kk + 4, kk + 9):
            yield 'wcon', dict(kind='wcon', k=kk, nu=nu), True


SIG = {'sample': 'c20:sample', 'propagate': 'c20:propagate', 'transform': 'c20:transform-roundtrip', 'jacobian': 'c20:jacobian', 'mh_ratio': 'c20:mh-ratio', 'process': 'c20:process-simulated',
       'init_round': 'c20:init-round', 'cov_warton': 'c20:cov-warton', 'wcon': 'c20:wcon'}


def run(tier='quick', seed=0):
    """-> list of bounded stand-in records (one per item group), first failure per (group, signature) kept"""
    groups = {}
    for name, inp, nontrivial in gen_cases(tier, seed):
        g = groups.setdefault(name, dict(name=name, cases=0, nontrivial=0, failures=[], _seen=set()))
        g['cases'] += 1
        g['nontrivial'] += 1 if nontrivial else 0
        what = check(inp)
        if what:
            sig = SIG.get(name, 'c20:' + name)
            if inp['kind'] == 'likelihood':
                d = len(inp['y'])
                sig += ':d=1' if d == 1 else ':d>=2'
                if inp['which'] == 'go' and d > 1:
                    sig += ':psi-not-positive-definite' if 'stated formula = -inf' in what else ':offset'
            elif inp['kind'] == 'process' and 'NINF' in what:
                sig += ':np.NINF'
            elif inp['kind'] == 'sample':
                sig += ':raises-' + what.split(' raised ')[1].split(':')[0] + (':params0=None' if inp['runs'][0].get('params0') is None else '') + \
                    (':p=1' if inp.get('dim') == 1 else '') if ' raised ' in what else \
                    (':later-call' if not what.startswith('sample() call 1,') else ':decision')
            if 'setting an array element' in what and inp['kind'] != 'sample':
                sig += ':array-into-scalar-slot'
            elif 'types' in inp and name in ('jacobian', 'mh_ratio', 'process'):
                sig += ':upper-only' if 1 in inp['types'] else ':other'
            if sig not in g['_seen']:
                g['_seen'].add(sig)
                g['failures'].append(dict(signature=sig, what=what, input=inp))
    out = []
    for g in groups.values():
        g.pop('_seen')
        g['bound'] = 'seeded random cases (seed %d, tier %s): n in d+4..d+9, d in 1..3; bound-type vectors of length <= 4; chains of length <= 6' % (seed, tier)
        g['rule'] = 'non-trivial = more than one parameter / summary, a transform or shrinkage in effect, or a clipped / rejected step'
        out.append(g)
    return out
