"""C01 - Rejection ABC returns exactly the best simulated draws, row-consistent.

Abstract view of state['samples'] (a dict of columns of length L = n_samples + batch_size):
ghost provenance  src : [0,L) -> draw id or -1 (placeholder),  ghost inverse  pos : draw id -> row or -1,
spec function  val(key, id) = value of output `key` of the consumed draw `id` (ids are consumption
order: batch t holds ids t*b .. t*b+b-1).  buffer_ok (A-I below) is the representation invariant;
the property clauses at extraction are lemmas over it.
"""
MANIFEST = {
    'category': 'proof',
    'text': 'The rejection sample buffer is verified against a representation invariant (ghost provenance src/pos over consumed draw ids; clauses A-H = injective provenance, '
            'row consistency of every output, placeholders at +inf, ascending order, threshold, exclusion) on the real source, for all n_samples, batch_size, accepted counts and tie patterns: '
            '_init_samples_lazy establishes it, _merge_batch preserves it (loops over the samples dict cut at visited-set invariants, pigeonhole instance for the n-th smallest), '
            '_update_state_meta reports the n-th held discrepancy, extract_result returns rows [0,n) of every column, _update_distances re-sorts row-consistently, update runs the transformers in order, '
            'set_objective gives ceil(budget/batch_size) batches and _update_objective_n_batches leaves it alone without a threshold / finishes exactly when n_samples held draws satisfy the threshold; '
            'the property clauses at extraction are a lemma over the invariant. A bounded end-to-end run against an OutputPool record of every consumed batch is the labelled stand-in and replay vehicle.',
    'note': 'Trusted: pyvc engine and numpy spec table (argsort = sorting permutation, mask select, slices as views), pigeonhole lemma L1 (Lean), +inf as a real constant bounding every discrepancy, '
            'no NaN discrepancies, 1-D discrepancy. Known finding C01-F9 (a +inf draw ties with placeholder rows) is split off by the finiteness premise. '
            'That exactly N batches are consumed in a run is the conjunction of set_objective / _update_objective_n_batches here and the iterate/infer contracts of C04 (paper step). '
            '_init_samples_lazy is proved for three outputs (discrepancy, scalar, vector-valued).',
    'technique': 'deductive: representation-invariant VCs from the real AST (pyvc) with ghost provenance, z3/cvc5; bounded: end-to-end vs pool record, n,b<=3-4',
}

import z3

from pyvc.core import cur, forall_range, exists_range, forall2_range, forall_sort, OutOfSubset
from pyvc.engine import Contract, Loop, NS, make_object, inline, Stub
from pyvc.values import SInt, SReal, SBool, SKey, SOpt, Sym, lift, term as T
from pyvc.sarray import SArr, Cell
from pyvc.sdict import SDictArr, Key, key_const
from pyvc.npspec import INF

R, I, B = z3.RealSort(), z3.IntSort(), z3.BoolSort()
DKEY = key_const('discrepancy')
K1, K2 = key_const('param'), key_const('summary')
val = z3.Function('val', Key, I, R)
DOM = z3.Function('out_dom', Key, B)              # the requested output names


def fa_key(body):
    vc = cur()
    return forall_sort(Key, body, 'key', universe=[DKEY, K1, K2] if vc.fin is not None else None)


def key_axioms(vc):
    ax = [DOM(DKEY), z3.Distinct(DKEY, K1, K2)]
    if vc.fin is not None:
        k = z3.Const('kq', Key)
        ax.append(z3.ForAll([k], z3.Or(k == DKEY, k == K1, k == K2)))
    return ax


# ---------------------------------------------------------------- set_objective
class SetObjective(Contract):
    target = 'elfi/methods/inference/samplers.py::Rejection.set_objective'
    prop = 'C01'
    fin = 6

    def __init__(self, form):
        self.form = form            # threshold | quantile | n_sim | default
        self.label = form

    def setup(self, vc):
        n, b, mp, nsim = z3.Ints('n_samples batch_size max_parallel_batches n_sim')
        thr, q = z3.Reals('threshold quantile')
        vc.fin_bounds.extend([n, b, mp, nsim])
        s = NS(n=n, b=b, mp=mp, nsim=nsim, thr=thr, q=q, reset_calls=[])
        batches = make_object('BatchHandlerStub', methods=dict(reset=lambda self_: s.reset_calls.append(1)))
        # the object may have been used before: it carries the state and objective of an earlier run (a sampler can be asked to
        # sample again); everything the class sets in __init__ / an earlier set_objective is present
        old_state = dict(samples='BUFFERS-OF-AN-EARLIER-RUN', threshold=SReal(z3.Real('old_threshold')), n_sim=SInt(z3.Int('old_n_sim')), accept_rate=1,
                         n_batches=SInt(z3.Int('old_n_batches')))
        old_objective = dict(n_samples=SInt(z3.Int('old_n_samples')), threshold=None, n_batches=SInt(z3.Int('old_objective_n_batches')))
        s.self = make_object('RejectionStub', attrs=dict(batch_size=SInt(b), max_parallel_batches=SInt(mp), batches=batches, state=old_state, objective=old_objective,
                                                         discrepancy_name='d', adaptive=False, output_names=['d', 't']))
        kw = {}
        if self.form == 'threshold':
            kw['threshold'] = SReal(thr)
        elif self.form == 'quantile':
            kw['quantile'] = SReal(q)
        elif self.form == 'n_sim':
            kw['n_sim'] = SInt(nsim)
        return s, (s.self, SInt(n)), kw

    def requires(self, s):
        return [s.n >= 1, s.b >= 1, s.mp >= 1, s.nsim >= 1, s.q > 0, s.q <= 1]

    def ensures(self, s, result):
        o, st = s.self.objective, s.self.state
        out = [('state reset: no samples, n_sim = n_batches = 0, threshold +inf',
                z3.And(z3.BoolVal(st['samples'] is None), T(st['n_sim']) == 0, T(st['n_batches']) == 0, T(st['threshold']) == INF)),
               ('objective keeps n_samples and the threshold as given',
                z3.And(T(o['n_samples']) == s.n, z3.BoolVal(o['threshold'] is None) if self.form != 'threshold' else T(o['threshold']) == s.thr)),
               ('the batch handler is reset exactly once', z3.BoolVal(len(s.reset_calls) == 1))]
        N = T(o['n_batches'])
        if self.form in ('quantile', 'default', 'n_sim'):
            # budget = n_sim, or ceil(n_samples / quantile) (default quantile 0.01); exactly ceil(budget / batch_size) batches
            if self.form == 'n_sim':
                budget_lo = budget_hi = z3.ToReal(s.nsim)
                exact = [z3.ToReal(N) * z3.ToReal(s.b) >= z3.ToReal(s.nsim), (z3.ToReal(N) - 1) * z3.ToReal(s.b) < z3.ToReal(s.nsim)]
            else:
                qq = s.q if self.form == 'quantile' else z3.RealVal('0.01')
                Bt = z3.Int('budget')      # ceil(n_samples / quantile): the integer with  B-1 < n/q <= B
                exact = [z3.Exists([Bt], z3.And(z3.ToReal(Bt) >= z3.ToReal(s.n) / qq, z3.ToReal(Bt) - 1 < z3.ToReal(s.n) / qq,
                                                N * s.b >= Bt, (N - 1) * s.b < Bt))]
            out.append(('objective n_batches = ceil(budget / batch_size)', z3.And(*exact)))
        else:
            out.append(('threshold objective starts with max_parallel_batches', N == s.mp))
        return out

    def witness(self, vc, model, ob):
        return dict(form=self.form)



# ---------------------------------------------------------------- the representation invariant
def adm_fn(thr):
    """admissible(j): draw j satisfies the threshold (every draw when no threshold was given)"""
    return (lambda j: z3.BoolVal(True)) if thr is None else (lambda j: val(DKEY, j) <= thr)


def buffer_ok(buf, src, pos, base, n, L, adm):
    """buf(key, i) -> term.  A..H of the module docstring / DESIGN 5 C01 (I1-I6); returns named clauses"""
    return [
        ('A src is a draw id or the placeholder mark', forall_range(0, L, lambda i: z3.And(src(i) >= -1, src(i) < base), 'i')),
        ('B pos inverts src (I1 injective provenance)', forall_range(0, L, lambda i: z3.Implies(src(i) >= 0, pos(src(i)) == i), 'i')),
        ('C src inverts pos', forall_range(0, base, lambda j: z3.And(pos(j) >= -1, pos(j) < L, z3.Implies(pos(j) >= 0, src(pos(j)) == j)), 'j')),
        ('D row consistency of every output (I2)', fa_key(lambda key: z3.Implies(DOM(key), forall_range(0, L, lambda i: z3.Implies(src(i) >= 0, buf(key, i) == val(key, src(i))), 'i')))),
        ('E placeholders carry +inf (I3)', forall_range(0, L, lambda i: z3.Implies(src(i) < 0, buf(DKEY, i) == INF), 'i')),
        ('F ascending discrepancy (I4)', forall2_range(0, L, lambda i, j: z3.Implies(i <= j, buf(DKEY, i) <= buf(DKEY, j)))),
        ('G held draws satisfy the threshold (I5)', forall_range(0, L, lambda i: z3.Implies(src(i) >= 0, adm(src(i))), 'i')),
        ('H exclusion: an admissible consumed draw that is not held is >= the n-th held (I6)',
         forall_range(0, base, lambda j: z3.Implies(z3.And(adm(j), pos(j) < 0), val(DKEY, j) >= buf(DKEY, n - 1)), 'j')),
    ]


class MergeBatch(Contract):
    """_merge_batch preserves buffer_ok with consumed' = consumed ++ batch (1-D discrepancy, non-adaptive)."""
    target = 'elfi/methods/inference/samplers.py::Rejection._merge_batch'
    prop = 'C01'
    fin = 3
    fin_range = 7

    def __init__(self, thr):
        self.thr_given = thr
        self.label = 'threshold' if thr else 'no-threshold'

    def setup(self, vc):
        vc.axioms = key_axioms(vc)
        n, b, base = z3.Ints('n_samples batch_size base')
        vc.fin_bounds.extend([n, b, base])
        L = n + b
        thr = z3.Real('threshold') if self.thr_given else None
        buf0 = z3.Function('buf0', Key, I, R)
        src0, pos0 = z3.Function('src0', I, I), z3.Function('pos0', I, I)
        samples = SDictArr('samples', L, dom=lambda k: DOM(k), elt=lambda k, i: buf0(k, i))
        bat = z3.Function('bat', Key, I, R)          # the new batch; linked to the spec function by an axiom with a clean trigger
        batch = SDictArr('batch', b, dom=lambda k: DOM(k), elt=lambda k, j: bat(k, j))
        s = NS(n=n, b=b, base=base, L=L, thr=thr, buf0=buf0, src0=src0, pos0=pos0, samples=samples, batch=batch, adm=adm_fn(thr), bat=bat)
        s.self = make_object('RejectionStub', attrs=dict(
            state={'samples': samples}, adaptive=False, batch_size=SInt(b), discrepancy_name=SKey(DKEY),
            objective={'threshold': (SReal(thr) if thr is not None else None), 'n_samples': SInt(n)}))
        return s, (s.self, batch), {}

    def requires(self, s):
        return [s.n >= 1, s.b >= 1, s.base >= 0,
                ('no discrepancy exceeds +inf', z3.ForAll([z3.Int('jj')], val(DKEY, z3.Int('jj')) <= INF)),
                ('the batch holds the draws base .. base+b-1', fa_key(lambda key: forall_range(0, s.b, lambda j: s.bat(key, j) == val(key, s.base + j), 'j')))] + \
            buffer_ok(lambda k, i: s.buf0(k, i), s.src0, s.pos0, s.base, s.n, s.L, s.adm)

    # ---- the acceptance step, whichever branch ran: (k, sel, rank, acc)
    def _acc(self, s):
        vc = cur()
        if 'np.sum' in vc.libcalls:
            rec = vc.libcalls['np.sum'][0]
            m = rec['mask']
            k, sel, rank, msnap = m.select()
            return k, (lambda t: sel(t)), (lambda t: rank(t)), (lambda t: msnap.at(t))
        return s.b, (lambda t: t), (lambda t: t), (lambda t: z3.BoolVal(True))

    def _inv0(self, s, l):
        k, sel, rank, acc = self._acc(s)
        pre, cur_ = l.entry.samples, s.samples
        L = s.L
        return [('tail write done for the visited outputs, the others untouched',
                 fa_key(lambda key: z3.Implies(DOM(key), forall_range(0, L, lambda i: cur_.at(key, i) == z3.If(
                     z3.And(l.it.visited(key), i >= L - k), s.bat(key, sel(i - (L - k))), pre.at(key, i)), 'i'))))]

    def _inv1(self, s, l):
        p = cur().libcalls['np.argsort'][0]
        pre, cur_ = l.entry.samples, s.samples
        return [('visited outputs permuted by the sort order, the others untouched',
                 fa_key(lambda key: z3.Implies(DOM(key), forall_range(0, s.L, lambda i: cur_.at(key, i) == z3.If(
                     l.it.visited(key), pre.at(key, p.pi(i)), pre.at(key, i)), 'i'))))]

    @property
    def loops(self):
        snap = lambda s, l: dict(samples=s.samples.snapshot())
        return {0: Loop(inv=self._inv0, modifies=lambda s, l: [s.samples], snapshot=snap),
                1: Loop(inv=self._inv1, modifies=lambda s, l: [s.samples], snapshot=snap)}

    def ensures(self, s, result):
        vc = cur()
        k, sel, rank, acc = self._acc(s)
        if not (1 in s.rt.loopstate):
            return [('the sort loop ran', z3.BoolVal(False))]
        p = vc.libcalls['np.argsort'][0]
        n, b, base, L = s.n, s.b, s.base, s.L
        src, pos = s.src0, s.pos0
        srcm = lambda i: z3.If(i >= L - k, base + sel(i - (L - k)), src(i))
        posm = lambda j: z3.If(j >= base, z3.If(acc(j - base), L - k + rank(j - base), -1), z3.If(z3.And(pos(j) >= 0, pos(j) < L - k), pos(j), -1))
        src1 = lambda i: srcm(p.pi(i))
        pos1 = lambda j: z3.If(posm(j) >= 0, p.pinv(posm(j)), -1)
        buf1 = lambda key, i: s.samples.at(key, i)
        # facts of the acceptance step the solver should not have to rediscover
        vc.assume(k >= 0, k <= b)
        vc.cut('a zero count means no row was accepted', z3.Implies(k == 0, forall_range(0, b, lambda t: z3.Not(acc(t)), 't')))
        # L1 (pigeonhole, Lean-certified): the n old best rows survive the tail write and land at n distinct positions,
        # so they cannot all sit below position n-1  =>  the n-th smallest does not increase
        pigeon = z3.And(forall_range(0, n, lambda i: z3.And(0 <= p.pinv(i), p.pinv(i) < n - 1), 'i'),
                        forall2_range(0, n, lambda i, j: z3.Implies(i != j, p.pinv(i) != p.pinv(j))))
        vc.assume(z3.Implies(z3.And(n >= 1, pigeon), n <= n - 1))       # lemmas/SmtForms.lean: pigeonhole_c01_instance (guard n >= 1 explicit)
        vc.cut('the n-th smallest held discrepancy does not increase', buf1(DKEY, n - 1) <= s.buf0(DKEY, n - 1))
        out = buffer_ok(buf1, src1, pos1, base + b, n, L, s.adm)
        return [('buffer_ok preserved: ' + nm, f) for nm, f in out]



# ---------------------------------------------------------------- the small state functions
class InitSamplesLazy(Contract):
    """establishes buffer_ok for the empty history: every row a placeholder with discrepancy +inf
    (three requested outputs: the discrepancy, a scalar output, a vector-valued output of symbolic width)"""
    target = 'elfi/methods/inference/samplers.py::Rejection._init_samples_lazy'
    prop = 'C01'
    fin = 4
    fin_range = 8

    def setup(self, vc):
        n, b, w = z3.Ints('n_samples batch_size width')
        vc.fin_bounds.extend([n, b, w])
        kd, k1, k2 = SKey(DKEY), SKey(K1), SKey(K2)
        batch = {kd: SArr.fresh('bd', (b,), 'real'), k1: SArr.fresh('b1', (b,), 'real'), k2: SArr.fresh('b2', (b, w), 'real')}
        s = NS(n=n, b=b, w=w, keys=(kd, k1, k2), batch=batch)
        s.self = make_object('RejectionStub', attrs=dict(output_names=[kd, k1, k2], batch_size=SInt(b), discrepancy_name=kd,
                                                         objective={'n_samples': SInt(n)}, state={'samples': None}))
        return s, (s.self, batch), {}

    def env(self, vc):
        return dict(is_array=inline(vc, 'elfi/utils.py::is_array'))

    def requires(self, s):
        return [s.n >= 1, s.b >= 1, s.w >= 1]

    def ensures(self, s, result):
        smp = s.self.state['samples']
        kd, k1, k2 = s.keys
        L = s.n + s.b
        ok_keys = isinstance(smp, dict) and set(map(id, smp.keys())) == {id(kd), id(k1), id(k2)}
        if not ok_keys:
            return [('samples has exactly the requested outputs as keys', z3.BoolVal(False))]
        return [('every column has n_samples + batch_size rows (and the row shape of its batch)',
                 z3.And(smp[kd].shape[0] == L, smp[k1].shape[0] == L, smp[k2].shape[0] == L, z3.BoolVal(smp[k2].ndim == 2), smp[k2].shape[1] == s.w)),
                ('every discrepancy starts at +inf (placeholder rows: buffer_ok of the empty history)', forall_range(0, L, lambda i: smp[kd].at(i) == INF, 'i'))]


class BaseUpdate(Contract):
    target = 'elfi/methods/inference/parameter_inference.py::ParameterInference.update'
    prop = 'C01'
    fin = 4

    def setup(self, vc):
        nb, ns, b = z3.Ints('n_batches n_sim batch_size')
        vc.fin_bounds.extend([nb, ns, b])
        s = NS(nb=nb, ns=ns, b=b)
        s.self = make_object('PIStub', attrs=dict(state={'n_batches': SInt(nb), 'n_sim': SInt(ns)}, batch_size=SInt(b)))
        return s, (s.self, None, SInt(nb)), {}

    def requires(self, s):
        return [s.nb >= 0, s.b >= 1, s.ns == s.b * s.nb]

    def ensures(self, s, result):
        st = s.self.state
        return [('one more consumed batch', T(st['n_batches']) == s.nb + 1),
                ('n_sim = batch_size * consumed batches', T(st['n_sim']) == s.b * (s.nb + 1)),
                ('nothing else in the state changes', z3.BoolVal(set(st.keys()) == {'n_batches', 'n_sim'}))]


class UpdateStateMeta(Contract):
    target = 'elfi/methods/inference/samplers.py::Rejection._update_state_meta'
    prop = 'C01'
    fin = 3
    fin_range = 7

    def setup(self, vc):
        vc.axioms = key_axioms(vc)
        n, b, ns = z3.Ints('n_samples batch_size n_sim')
        vc.fin_bounds.extend([n, b, ns])
        samples = SDictArr('samples', n + b, dom=lambda k: DOM(k))
        s = NS(n=n, b=b, ns=ns, samples=samples)
        s.self = make_object('RejectionStub', attrs=dict(state={'samples': samples, 'n_sim': SInt(ns), 'threshold': SReal(INF), 'accept_rate': 1},
                                                         objective={'n_samples': SInt(n)}, discrepancy_name=SKey(DKEY)))
        return s, (s.self,), {}

    def requires(self, s):
        return [s.n >= 1, s.b >= 1, s.ns >= 1,
                forall2_range(0, s.n + s.b, lambda i, j: z3.Implies(i <= j, s.samples.at(DKEY, i) <= s.samples.at(DKEY, j)))]

    def snapshot(self, s):
        return dict(samples=s.samples.snapshot())

    def ensures(self, s, result):
        st = s.self.state
        thr = T(st['threshold'])
        return [('reported threshold = the n_samples-th held discrepancy', thr == s.samples.at(DKEY, s.n - 1)),
                ('... which is the largest returned discrepancy', forall_range(0, s.n, lambda i: s.samples.at(DKEY, i) <= thr, 'i')),
                ('the samples are not touched', fa_key(lambda key: forall_range(0, s.n + s.b, lambda i: s.samples.at(key, i) == s.old.samples.at(key, i), 'i')))]


class ExtractResult(Contract):
    """whole-view post: every output is the first n_samples rows of its column"""
    target = 'elfi/methods/inference/samplers.py::Rejection.extract_result'
    prop = 'C01'
    fin = 3
    fin_range = 7

    def setup(self, vc):
        vc.axioms = key_axioms(vc)
        n, b = z3.Ints('n_samples batch_size')
        vc.fin_bounds.extend([n, b])
        samples = SDictArr('samples', n + b, dom=lambda k: DOM(k))
        s = NS(n=n, b=b, samples=samples, made=[])

        def extract_kwargs(self_):
            return dict(method_name='Rejection')
        s.self = make_object('RejectionStub', attrs=dict(state={'samples': samples}, objective={'n_samples': SInt(n)}, adaptive=False),
                             methods=dict(_extract_result_kwargs=extract_kwargs))
        self._s = s
        return s, (s.self,), {}

    def env(self, vc):
        s = self._s

        def Sample(outputs=None, **kw):
            s.made.append((outputs, kw))
            return ('Sample', outputs)
        return dict(Sample=Sample, dict=lambda: OutDict(s))

    def requires(self, s):
        self._s = s
        return [s.n >= 1, s.b >= 1]

    def _inv(self, s, l):
        outs = l.outputs
        if not isinstance(outs, OutDict):
            return [('outputs is the result dict', z3.BoolVal(False))]
        return [('visited outputs hold the first n_samples rows of their column', outs.inv(l.it.visited))]

    @property
    def loops(self):
        return {0: Loop(inv=self._inv, modifies=lambda s, l: [l.outputs])}

    def ensures(self, s, result):
        if len(s.made) != 1 or not isinstance(s.made[0][0], OutDict):
            return [('exactly one Sample is built from the outputs dict', z3.BoolVal(False))]
        outs = s.made[0][0]
        return [('every requested output is returned as rows [0, n_samples) of its column',
                 fa_key(lambda key: z3.Implies(DOM(key), z3.And(outs.has(key), outs.length(key) == s.n,
                                                                forall_range(0, s.n, lambda i: outs.at(key, i) == s.samples.at(key, i), 'i')))))]


class OutDict(Sym):
    """the python dict `outputs` built in extract_result: key -> 1-D array (views of the columns)"""

    def __init__(self, s):
        vc = cur()
        self.s = s
        self._has = lambda k: z3.BoolVal(False)
        self._len = lambda k: z3.IntVal(0)
        self._elt = lambda k, i: z3.RealVal(0)
        self.t = None

    def __setitem__(self, key, value):
        k = key.t
        v = value.snapshot()
        if v.ndim != 1:
            raise OutOfSubset('non 1-d output')
        h, ln, el = self._has, self._len, self._elt
        self._has = lambda q: z3.Or(h(q), q == k)
        self._len = lambda q: z3.If(q == k, v.shape[0], ln(q))
        self._elt = lambda q, i: z3.If(q == k, v.at(i), el(q, i))

    def has(self, k):
        return self._has(k)

    def length(self, k):
        return self._len(k)

    def at(self, k, i):
        return self._elt(k, i)

    def _vc_havoc(self, name):
        vc = cur()
        h = vc.fresh_fn('out_has', Key, B)
        ln = vc.fresh_fn('out_len', Key, I)
        el = vc.fresh_fn('out_elt', Key, I, R)
        self._has, self._len, self._elt = (lambda q: h(q)), (lambda q: ln(q)), (lambda q, i: el(q, i))

    def inv(self, visited):
        s = self.s
        return fa_key(lambda key: z3.And(self.has(key) == visited(key),
                                         z3.Implies(visited(key), z3.And(self.length(key) == s.n, forall_range(0, s.n, lambda i: self.at(key, i) == s.samples.at(key, i), 'i')))))



# ---------------------------------------------------------------- Rejection.update: the order of the state transformers
class RejectionUpdate(Contract):
    """update = base update; lazy init iff no samples yet; merge; meta; objective - in this order, on the same batch.
    With the callee contracts: buffer_ok, n_sim = b * n_batches and threshold = n-th held discrepancy hold after every update."""
    target = 'elfi/methods/inference/samplers.py::Rejection.update'
    prop = 'C01'
    fin = 3

    def __init__(self, first):
        self.first = first
        self.label = 'first-batch' if first else 'later-batch'

    def setup(self, vc):
        s = NS(calls=[], batch=object(), idx=SInt(z3.Int('batch_index')))
        state = {'samples': None if self.first else 'SAMPLES'}

        def rec(name, effect=None):
            def f(self_, *a):
                s.calls.append((name, a))
                if effect:
                    effect()
            return f
        base = make_object('BaseStub', methods=dict(update=lambda self_, batch, i: s.calls.append(('ParameterInference.update', (batch, i)))))
        s.self = make_object('RejectionStub', attrs=dict(state=state), methods=dict(
            _vc_super=lambda self_: base,
            _init_samples_lazy=rec('_init_samples_lazy', lambda: state.__setitem__('samples', 'SAMPLES')),
            _merge_batch=rec('_merge_batch'), _update_state_meta=rec('_update_state_meta'),
            _update_objective_n_batches=rec('_update_objective_n_batches')))
        return s, (s.self, s.batch, s.idx), {}

    def env(self, vc):
        return dict(super=lambda cls, obj: obj._vc_super(), Rejection=object())

    def ensures(self, s, result):
        want = ['ParameterInference.update'] + (['_init_samples_lazy'] if self.first else []) + ['_merge_batch', '_update_state_meta', '_update_objective_n_batches']
        names = [c[0] for c in s.calls]
        same_batch = all(c[1][0] is s.batch for c in s.calls if c[0] in ('ParameterInference.update', '_init_samples_lazy', '_merge_batch'))
        return [('state transformers run once each in the contract order', z3.BoolVal(names == want)),
                ('every transformer receives the consumed batch itself', z3.BoolVal(same_batch))]


# ---------------------------------------------------------------- how many batches: _update_objective_n_batches
class UpdateObjective(Contract):
    """no threshold: the objective is not touched (so a budget of N batches stays N).  threshold: after the update the run is
    finished (objective n_batches <= consumed batches) exactly when at least n_samples held draws satisfy the threshold."""
    target = 'elfi/methods/inference/samplers.py::Rejection._update_objective_n_batches'
    prop = 'C01'
    fin = 3
    fin_range = 7

    def __init__(self, thr):
        self.thr_given = thr
        self.label = 'threshold' if thr else 'no-threshold'

    def setup(self, vc):
        vc.axioms = key_axioms(vc)
        n, b, nb, N0 = z3.Ints('n_samples batch_size n_batches objective_n_batches')
        vc.fin_bounds.extend([n, b, nb, N0])
        thr = z3.Real('threshold')
        samples = SDictArr('samples', n + b, dom=lambda k: DOM(k))
        samples.nonempty = True
        s = NS(n=n, b=b, nb=nb, N0=N0, thr=thr, samples=samples)
        s.objective = {'threshold': SReal(thr) if self.thr_given else None, 'n_samples': SInt(n), 'n_batches': SInt(N0)}
        s.self = make_object('RejectionStub', attrs=dict(objective=s.objective, state={'samples': samples, 'n_sim': SInt(b * nb), 'n_batches': SInt(nb)},
                                                         discrepancy_name=SKey(DKEY), batch_size=SInt(b)))
        return s, (s.self,), {}

    def requires(self, s):
        # call site: iterate() runs only while not finished (objective > consumed before this batch was counted)
        return [s.n >= 1, s.b >= 1, s.nb >= 1, s.N0 >= s.nb]

    def ensures(self, s, result):
        vc = cur()
        N1 = T(s.objective['n_batches'])
        if not self.thr_given:
            return [('without a threshold the objective is left as set_objective computed it', z3.And(N1 == s.N0, z3.BoolVal(s.objective['threshold'] is None)))]
        rec = vc.libcalls['np.sum'][0]
        n_acc = T(rec['res'])
        return [('finished after this update  <=>  at least n_samples held draws satisfy the threshold', (N1 <= s.nb) == (n_acc >= s.n)),
                ('n_acceptable counts the held rows with discrepancy <= threshold',
                 z3.And(rec['arr'].shape[0] == s.n + s.b, forall_range(0, s.n + s.b, lambda i: rec['arr'].at(i) == (s.samples.at(DKEY, i) <= s.thr), 'i')))]


# ---------------------------------------------------------------- the property clauses at extraction, as lemmas over buffer_ok
class ExtractionLemma(Contract):
    """buffer_ok  =>  the n_samples returned rows are consumed admissible draws (distinct, row-consistent), ascending, and every
    admissible consumed draw that is not returned is >= the largest returned one.  Under the finiteness premise also:
    a placeholder among the first n rows appears only after ALL admissible consumed draws (i.e. only when fewer than
    n_samples admissible draws were consumed).  Without finiteness that last clause is refuted: known finding C01-F9."""
    target = '@verif/lemmas/c01_lemmas.py::lemma_extraction'
    prop = 'C01'
    fin = 3
    fin_range = 7

    def __init__(self, finite, thr):
        self.finite, self.thr_given = finite, thr
        self.label = ('finite-draws' if finite else 'inf-draws') + ('-threshold' if thr else '')

    def setup(self, vc):
        vc.axioms = key_axioms(vc)
        n, b, base = z3.Ints('n_samples batch_size base')
        vc.fin_bounds.extend([n, b, base])
        thr = z3.Real('threshold') if self.thr_given else None
        s = NS(n=n, b=b, base=base, L=n + b, buf=z3.Function('buf', Key, I, R), src=z3.Function('src', I, I), pos=z3.Function('pos', I, I), adm=adm_fn(thr), thr=thr)
        return s, (), {}

    def requires(self, s):
        r = [s.n >= 1, s.b >= 1, s.base >= 0, z3.ForAll([z3.Int('jj')], val(DKEY, z3.Int('jj')) <= INF)]
        r += buffer_ok(lambda k, i: s.buf(k, i), s.src, s.pos, s.base, s.n, s.L, s.adm)
        if self.finite:
            r.append(('premise: every consumed discrepancy is finite', forall_range(0, s.base, lambda j: val(DKEY, j) < INF, 'j')))
        if self.thr_given:
            r.append(s.thr < INF)
        return r

    def ensures(self, s, result):
        n, buf, src, pos = s.n, s.buf, s.src, s.pos
        out = []
        if self.finite:
            out.append(('a placeholder among the first n rows only after all admissible consumed draws',
                        forall_range(0, n, lambda i: z3.Implies(src(i) < 0, forall_range(0, s.base, lambda j: z3.Implies(s.adm(j), z3.And(pos(j) >= 0, pos(j) < i)), 'j')), 'i')))
            return out + [
                ('returned real rows are distinct consumed admissible draws, row-consistent in every output',
                 forall_range(0, n, lambda i: z3.Implies(src(i) >= 0, z3.And(src(i) < s.base, s.adm(src(i)), pos(src(i)) == i,
                                                                          fa_key(lambda key: z3.Implies(DOM(key), buf(key, i) == val(key, src(i)))))), 'i')),
                ('ascending discrepancy', forall2_range(0, n, lambda i, j: z3.Implies(i <= j, buf(DKEY, i) <= buf(DKEY, j)))),
                ('every admissible consumed draw that is not returned is >= the largest returned discrepancy',
                 forall_range(0, s.base, lambda j: z3.Implies(z3.And(s.adm(j), z3.Or(pos(j) < 0, pos(j) >= n)), val(DKEY, j) >= buf(DKEY, n - 1)), 'j'))]
        return [('a placeholder among the first n rows only after all admissible consumed draws [fails for +inf draws: C01-F9]',
                 forall_range(0, n, lambda i: z3.Implies(src(i) < 0, forall_range(0, s.base, lambda j: z3.Implies(s.adm(j), z3.And(pos(j) >= 0, pos(j) < i)), 'j')), 'i'))]



# ---------------------------------------------------------------- adaptive distance: re-sorting by the newest distance at extraction
DNEW = z3.Function('new_distance', R, R)         # the updated distance as a function of the summary held in the row (uninterpreted)


class UpdateDistances(Contract):
    """after _update_distances the first n_samples rows are re-ordered by the recomputed distance: the discrepancy shown in row i
    is the new distance OF ROW i (row consistency) and ascending; every other output is permuted by the same permutation."""
    target = 'elfi/methods/inference/samplers.py::Rejection._update_distances'
    prop = 'C01'
    fin = 3
    fin_range = 7

    def setup(self, vc):
        n, b = z3.Ints('n_samples batch_size')
        vc.fin_bounds.extend([n, b])
        L = n + b
        cols = {'d': SArr.fresh('d0', (L,), 'real'), 't': SArr.fresh('t0', (L,), 'real'), 's': SArr.fresh('s0', (L,), 'real')}
        s = NS(n=n, b=b, L=L, cols=cols, calls=[])

        class Node:
            def update_distance(self_):
                s.calls.append('update_distance')

            def generate(self_, with_values=None):
                s.calls.append('generate')
                data = with_values['s'].snapshot()
                cur().oblige('call-pre[generate receives the first n_samples held summaries]', data.shape[0] == n)
                return SArr(Cell(lambda r: DNEW(data.at(r)), (n,), 'real'))
        s.self = make_object('RejectionStub', attrs=dict(model={'d': Node()}, discrepancy_name='d', sums=['s'], objective={'n_samples': SInt(n)},
                                                         state={'samples': cols}),
                             methods=dict(_update_state_meta=lambda self_: s.calls.append('_update_state_meta')))
        return s, (s.self,), {}

    def requires(self, s):
        return [s.n >= 1, s.b >= 1]

    def snapshot(self, s):
        return {k: v.snapshot() for k, v in s.cols.items()}

    def ensures(self, s, result):
        vc = cur()
        smp = s.self.state['samples']
        p = vc.libcalls['np.argsort'][0]
        n = s.n
        d1, t1, s1 = smp['d'], smp['t'], smp['s']
        old = s.old
        return [('the distance node is updated before the distances are recomputed, the state meta afterwards', z3.BoolVal(s.calls == ['update_distance', 'generate', '_update_state_meta'])),
                ('all outputs other than the discrepancy are permuted by one permutation of the first n_samples rows',
                 forall_range(0, n, lambda i: z3.And(0 <= p.pi(i), p.pi(i) < n, t1.at(i) == old.t.at(p.pi(i)), s1.at(i) == old.s.at(p.pi(i))), 'i')),
                ('row consistency: the discrepancy in row i is the new distance of the summaries in row i', z3.And(d1.shape[0] >= n, forall_range(0, n, lambda i: d1.at(i) == DNEW(s1.at(i)), 'i'))),
                ('ascending in the new distance', forall2_range(0, n, lambda i, j: z3.Implies(i <= j, d1.at(i) <= d1.at(j))))]


CONTRACTS = [SetObjective('threshold'), SetObjective('quantile'), SetObjective('n_sim'), SetObjective('default'),
             MergeBatch(False), MergeBatch(True),
             InitSamplesLazy(), BaseUpdate(), UpdateStateMeta(), ExtractResult(),
             RejectionUpdate(True), RejectionUpdate(False), UpdateObjective(False), UpdateObjective(True),
             ExtractionLemma(True, False), ExtractionLemma(True, True), ExtractionLemma(False, False), UpdateDistances()]
TRUSTED_BASE = ['pyvc engine: proxies, loop cutting, dict-of-arrays proxy (pyvc/sdict.py), numpy spec table (argsort = a sorting permutation - nothing about ties; boolean-mask select = order-preserving bijection; basic slices are views; np.sum of a mask = count)',
                'L1 pigeonhole (Lean, lemmas/L1.lean) used as one instance in _merge_batch',
                '+inf modelled as a real constant INF with val(d, j) <= INF for every draw (no arithmetic on it)']
ASSUMPTIONS = ['A-REAL / no NaN discrepancies', 'A-INT', '1-D discrepancy column; non-adaptive distance in _merge_batch (the adaptive add_data call is C12)',
               'ids of consumed draws are consumption order: batch t holds ids t*b .. t*b+b-1 (ghost)',
               'Rejection.update composes the callee contracts (call order proved; the implication chain between callee posts and pres is read off the contracts, not machine-checked)']
NOT_PROVED = ['"exactly ceil(budget/batch_size) batches are consumed": set_objective and _update_objective_n_batches are proved here; that infer() consumes exactly objective-many batches is C04 (iterate/infer contracts); the conjunction is a paper step',
              'vector-valued discrepancies / nested adaptive distances in _merge_batch (bounded only)']


def sanity():
    import numpy as np
    out = []
    a = np.array([3.0, 1.0, 2.0])
    v = a[1:]
    v[:] = 9
    out.append(('basic slices are views', a.tolist() == [3.0, 9.0, 9.0]))
    b = np.array([5.0, 6.0, 7.0, 8.0])
    b[-2:] = np.array([1.0, 2.0])
    out.append(('negative slice assignment writes the tail', b.tolist() == [5.0, 6.0, 1.0, 2.0]))
    m = np.array([True, False, True])
    out.append(('mask select keeps order; sum(mask) counts', np.array([4.0, 5.0, 6.0])[m].tolist() == [4.0, 6.0] and int(np.sum(m)) == 2))
    out.append(('ones * inf is +inf', bool(np.all(np.ones(3) * np.inf == np.inf))))
    c = np.array([2.0, np.inf, 1.0, np.inf])
    o = np.argsort(c)
    out.append(('argsort sorts with inf last', c[o].tolist() == [1.0, 2.0, np.inf, np.inf]))
    return out


def bounded(tier, seed):
    from bounded import c01 as b
    return [b.run(tier, seed), b.run(tier, seed, stop_first=False, with_inf=True), b.run_adaptive(tier, seed), b.run_budget_grid(tier, seed)]


_replay_cache = {}


def replay_refuted(cname, rf):
    from bounded import c01 as b
    if cname.startswith('Rejection._update_distances'):
        r = b.run_adaptive('quick', 0)
        return dict(found=True, input=r['failures'][0]['input'], observed=r['failures'][0]['what']) if r['failures'] else dict(found=False, searched=r['bound'])
    if 'r' not in _replay_cache:
        r = b.run('quick', 0, stop_first=True)
        _replay_cache['r'] = dict(found=True, input=r['failures'][0]['input'], observed=r['failures'][0]['what']) if r['failures'] else \
            dict(found=False, searched=r['bound'], cases=r['cases'])
    return _replay_cache['r']


def replay_input(inp):
    from bounded import c01 as b
    return b.replay_input(inp)


USES_LEAN_LEMMAS = ['L1 pigeonhole']      # re-checked with lean (selftest/lean_check.sh, lemmas/SmtForms.lean) in the thorough tier
