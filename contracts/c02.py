"""C02 - Seeded runs are pure functions of (model, seed, configuration).

Purity ("two runs with equal (model, seed, batch index/size, outputs) give bit-identical results whatever happened
before") is a statement about TWO runs; it cannot be the postcondition of one call.  It is decomposed into the
per-function contracts below.  THE IMPLICATION `conjunction => purity` IS A PAPER ARGUMENT (this docstring); IT IS NOT
MACHINE-CHECKED.  Each numbered clause is checked on the real source as stated in brackets.

  (1) RandomStateLoader.load  [SMT, all graphs]: with an integer seed the `_random_state` node receives, under 'output',
      a NEW generator object RandomState(sub_seed(seed, batch_index)) at stream position 0 and nothing else in the net,
      the heap or the graph structure changes; sub_seed is get_sub_seed's result, which by C15 is a function of
      (seed, index) alone - the sub-seed cache is only handed to get_sub_seed (call-pre: index >= 0, cache_ok).
      `get_np_random` is stored only when seed == 'global' (SMT case + syntactic guard obligation).
  (2) RandomStateCompiler.compile  [SMT, visited-set invariant, hence for every iteration order of the node set]:
      stochastic(x) <=> edge(_random_state -> x) with param 'random_state'; `_random_state` exists iff some node is
      stochastic; everything else is unchanged.
  (3) Executor.execute / _run  [ASSUMED BY NAME from C03]: operations run once each in the order returned by
      get_execution_order and receive the parents' outputs by reference - so every stochastic operation of one batch is
      handed the ONE generator object of (1), in that order.
  (4) nx_constant_topological_sort, Executor.get_execution_order  [syntactic reads-frame over the real AST, fail closed;
      SMT for the DFS bookkeeping]: the graph is read only through is_directed(), sorted(G.nodes()), sorted(G[w]),
      membership (resp. G.graph['outputs'], 'operation' in G.nodes[n], G.edges as a set, nx.ancestors, sort_order) and
      no iteration order of a set / graph view reaches the result.  With sorted()'s contract (a function of the SET of
      its elements and their total order) the result is a function of (node set, edge set) - not of insertion order.
      [SMT, all graphs, nbunch=None, reverse=False and reverse=True: on every normal exit the result is a TOPOLOGICAL order of G - the
      inductive invariant is the post-order fact "every successor of an explored node is explored and was appended before it";
      bounded only: no spurious NetworkXUnfeasible on a DAG (all DAGs <= 5 nodes); termination is not proved.]
  (5) Global-RNG frame  [syntactic, over the functions the seeded path consists of, fail closed]: the only reference to
      numpy's random module reachable with an integer seed is the SEEDED constructor RandomState(<arg>); get_np_random
      and random_seed are guarded by seed == 'global' / seed is None.  ElfiModel.generate [SMT on the real body] hands
      its integer seed unchanged to the ComputationContext and loads batch 0 (seed 0 is an integer seed).
  (6) Executor cache  [SMT for the writers, syntactic for the reader, lemma for the hit]: ClientBase.load_data installs
      exactly context.caches['executor']; get_execution_order touches the cache only as `needed in cache`,
      cache['sort_order'], cache[needed]; a hit is sound when the set of nodes holding an output is a function of the key
      `needed` (cache_consistent).  PoolLoader.load [SMT] establishes it (a stored node is either loaded - output, no
      operation - or a requested output that still has its operation, so its status is readable from `needed`);
      BatchHandler.submit [SMT] establishes it under `override keys are requested outputs` (precondition; its single call
      site passes parameter names, which every inference method requests - checked natively in the bounded harness).

Paper argument.  Fix model M, integer seed s, batch index i, batch size b, outputs O.  compile(M, O) is C03's business;
its `_random_state` wiring is (2).  load_data copies the compiled net (nx.DiGraph(G): new dicts) and by (1) the only
seed-dependent datum in the loaded net is one fresh generator seeded by sub_seed(s, i), a function of (s, i) by C15.  By
(4)+(6) the execution order is a function of (node set, edge set, nodes holding outputs, O), none of which depends on
history, np.random, or insertion order.  By (3) the operations are applied in that order to that generator; user
operations are outside the frame and ASSUMED to draw only from the random_state they are handed.  By (5) nothing on the
path reads or writes the process-global generator.  numpy's RandomState(seed) stream is a function of the seed (assumed,
sanity-tested).  Hence the outputs are a function of (M, s, i, b, O).                                             [] (paper)

Refuted on the unchanged tree, WITH a small repair (reported as VIOLATION until the fix lands): nx.DiGraph(compiled_net) shares graph['outputs'] (a set)
between the compiled net and every loaded net; PoolLoader.load adds a stored-but-missing node to the set OF THE NET IT IS GIVEN, i.e. to the shared one: the
requested outputs of the BatchHandler's compiled net grow for good, and BatchHandler.compute(0) returns a different dict (an extra key) after compute(1)
than before (obligation ClientBase.load_data/post[frame: ... REQUESTED OUTPUTS ...], native replay bounded `pool-result-keys`).  Candidate repair, one line in
ClientBase.load_data after the shallow copy:   loaded_net.graph['outputs'] = set(loaded_net.graph['outputs'])   (check green on a scratch copy with it).

Refuted, no small repair (KNOWN FINDING C02-POOL-STOCHASTIC = C05-K1): a pool that stores a stochastic node while another stochastic node still runs.

Refuted on the unchanged tree (F14, KNOWN FINDING C02-F14): "node set" in (4) includes the RANDOMLY NAMED private
constants `_<owner>_<4 hex>`; the obligation "re-drawing the suffixes is an order isomorphism of the sort key" fails for
owners x, x_<c...>: the two constants change places, so do the two user nodes in the execution order, so do their draws.
"""
MANIFEST = {
    'category': 'proof',
    'text': 'Purity of seeded runs is decomposed into per-function contracts on the real source: RandomStateLoader.load (the only seed-dependent '
            'datum of a loaded net is a new RandomState(sub_seed(seed, batch_index)) at position 0; frame), RandomStateCompiler.compile '
            '(stochastic(x) <=> random_state edge, by a visited-set invariant), ElfiModel.generate / ClientBase.load_data / PoolLoader.load / '
            'BatchHandler.submit / BatchHandler.compute (seed hand-over, executor cache identity and consistency) are SMT obligations over a '
            'symbolic networkx graph and dict heap; the reads-frame of nx_constant_topological_sort and Executor.get_execution_order, the '
            'global-RNG frame of the seeded path and the cache-access frame are syntactic obligations over the real AST (allow-lists, fail closed); '
            'the explicit-stack DFS of the sort is an SMT contract with three nested loop invariants, for ALL graphs (nbunch=None, reverse=False and True): '
            'on every normal exit the result lists the node set, each node once, and is TOPOLOGICAL - every edge (u, v) of G has u before v '
            '(reverse=True: after v); inductive invariant: every successor of an explored node is explored and was appended before it. '
            'The conjunction implies purity by a paper argument that is NOT machine-checked. End-to-end bit-identity under perturbed histories is '
            'the labelled bounded stand-in and the replay vehicle.',
    'note': 'Trusted: pyvc engine, pyvc.nxspec, the syntactic analyses of this module (allow-lists), C15 (get_sub_seed) and C03 (Executor.execute/_run, '
            'other compilers) assumed by name, numpy RandomState(seed) is a function of the seed, user operations draw only from the random_state they are '
            'handed. Not decided: multiprocessing client, purity as one statement. Known finding C02-F14 (random suffixes of private constant names reach '
            'the execution order when one user name extends another). Bounded only: no NetworkXUnfeasible on a DAG; termination of the DFS is not proved.',
    'technique': 'deductive: SMT VCs from the real AST over a symbolic graph + dict heap (pyvc, z3/cvc5), z3 string theory for the name-order obligation, '
                 'syntactic frame obligations over the real AST; bounded stand-in: generated models <= 5 nodes x histories x insertion orders, all DAGs <= 5 nodes',
}

import ast
import json
import os
import time

import z3

from pyvc import instrument, nxspec, npspec
from pyvc.core import cur, OutOfSubset, program_exception, forall_range
from pyvc.engine import Contract, Loop, NS, Stub
from pyvc.nxspec import SDiGraph, SDict, SVal, SNodeName, SNodeSet, SList, SNameList, Heap, theory
from pyvc.values import SInt, SBool, Sym, lift

from contracts.c15 import CacheDict, RandomStateSpec, PrefixSet, cache_ok

I = z3.IntSort()
B = z3.BoolSort()
SUBSEED = z3.Function('sub_seed', I, I, I)      # get_sub_seed(seed, index): by C15 a function of (seed, index) only
HIGH = 2 ** 31                                  # default `high` of get_sub_seed

RS_NAME = '_random_state'
LITS = nxspec.DEFAULT_LITS + ('operation', 'outputs', '_executor_cache', 'name')
LITS = tuple(dict.fromkeys(LITS))


# ====================================================================== reserved (concrete) node names and strings
def name_const(th, s):
    """the Node constant that stands for the concrete name `s` written as a literal in the analysed code"""
    return z3.Const('name:' + s, th.Node)


def str_const(th, s):
    return z3.Const('str:' + s, th.Str)


def reserved_facts(th, names):
    out = []
    for i, a in enumerate(names):
        out.append(th.private(name_const(th, a)) if a.startswith('_') else z3.Not(th.private(name_const(th, a))))
        for b in names[i + 1:]:
            out.append(name_const(th, a) != name_const(th, b))
    return out


def _n(th, x):
    return SNodeName(name_const(th, x)) if isinstance(x, str) else x


class NGraph(SDiGraph):
    """SDiGraph that also accepts the reserved names the analysed code writes as string literals ('_random_state') and
    a literal str as edge param"""

    def has_node(self, n):
        return SDiGraph.has_node(self, _n(self.th, n))

    def __contains__(self, n):
        return bool(self.has_node(n))

    def node_data(self, n, why='G.nodes[n]'):
        return SDiGraph.node_data(self, _n(self.th, n), why)

    def add_node(self, n, **attr):
        return SDiGraph.add_node(self, _n(self.th, n), **attr)

    def add_edge(self, u, v, **attr):
        if isinstance(attr.get('param'), str):
            attr = dict(attr, param=str_const(self.th, attr['param']))
        return SDiGraph.add_edge(self, _n(self.th, u), _n(self.th, v), **attr)


def same_structure(th, g0, g1):
    return z3.And(th.forall_nodes(lambda x: z3.And(g1.node(x) == g0.node(x), g1.nattr(x) == g0.nattr(x))),
                  th.forall_nodes(lambda u, v: z3.And(g1.edge(u, v) == g0.edge(u, v), g1.param(u, v) == g0.param(u, v)), 2),
                  g1.gref == g0.gref)


def heap_same_except(th, h0, h1, changed):
    return z3.And(th.forall_ref_key(lambda r, k: z3.Implies(z3.Not(changed(r, k)), z3.And(h1.has(r, k) == h0.has(r, k), h1.val(r, k) == h0.val(r, k)))),
                  th.forall_refs(lambda r: h1.alloc(r) == h0.alloc(r)))


# ====================================================================== numpy.random.RandomState as a heap object
class RSObj:
    """a numpy RandomState OBJECT (identity matters: it is stored in the net and shared by the operations)"""

    def __init__(self, const):
        self.const = const


def rs_fns(th):
    return (z3.Function('is_rs', th.Obj, B), z3.Function('rs_seed', th.Obj, I), z3.Function('rs_pos', th.Obj, I))


def make_random_module(th, H):
    """what `np.random` is for the analysed code: RandomState(seed) = a NEW object, seeded, at stream position 0"""
    import numpy as np
    is_rs, rs_seed, rs_pos = rs_fns(th)

    class RandomState:
        _vc_models = np.random.RandomState

        def __new__(cls, seed=None):
            vc = cur()
            if seed is None:
                vc.oblige('call-pre[RandomState is constructed from a seed (RandomState() reads OS entropy)]', z3.BoolVal(False))
                raise OutOfSubset('RandomState() without a seed')
            o = RSObj(None)
            v = th.opaque(o)
            c = th.Val.obj_of(v)
            o.const = c
            sd = lift(seed)
            if not isinstance(sd, SInt):
                raise OutOfSubset('RandomState(%s)' % type(seed).__name__)
            vc.oblige('call-pre[RandomState seed in [0, 2**32)]', z3.And(sd.t >= 0, sd.t < 2 ** 32))
            # library contract: a new object (not stored anywhere yet), seeded, nothing drawn
            vc.assume(is_rs(c), rs_seed(c) == sd.t, rs_pos(c) == 0,
                      th.forall_ref_key(lambda r, k: H.val(r, k) != v))
            vc.libcall('RandomState', dict(obj=o, const=c, seed=sd.t))
            return o

    class _Global:
        """anything reached through np.random other than the RandomState class: the process-global generator"""

        def __init__(self, what):
            self.what = what

        def __getattr__(self, k):
            if k.startswith('_vc_') or k.startswith('__'):
                raise AttributeError(k)
            cur().oblige('frame[the process-global numpy generator (%s.%s) is not touched]' % (self.what, k), z3.BoolVal(False))
            return _Global(self.what + '.' + k)

        def __call__(self, *a, **k):
            return _Global(self.what + '()')

    class _Random(_Global):
        pass
    r = _Random('np.random')
    r.__dict__['RandomState'] = RandomState
    return r


def np_module(th, H):
    import numpy as np
    return npspec.module(extra={'random': make_random_module(th, H), 'int32': np.int32, 'uint32': np.uint32, 'int64': np.int64})


# ====================================================================== (1) RandomStateLoader.load
def stub_get_sub_seed(vc, seed, sub_seed_index, high=HIGH, cache=None):
    """callee under contract C15/get_sub_seed: call-pre index >= 0 (and the cache invariant), ValueError iff index >= high,
    result = the (index+1)-th distinct value of the stream of `seed` - a function of (seed, index) alone (C15 post + lemma
    unique_position); the cache is havocked within cache_ok"""
    sd, ix = lift(seed), lift(sub_seed_index)
    if not isinstance(sd, SInt) or not isinstance(ix, SInt):
        raise OutOfSubset('get_sub_seed(%s, %s)' % (type(seed).__name__, type(sub_seed_index).__name__))
    vc.oblige('call-pre[get_sub_seed: sub_seed_index >= 0]', ix.t >= 0)
    if cache is not None:
        if not isinstance(cache, CacheDict):
            raise OutOfSubset('get_sub_seed cache of type %s' % type(cache).__name__)
        vc.oblige('call-pre[get_sub_seed: cache is {} or a stream prefix of the same seed (cache_ok)]', cache_ok(cache))
    if vc.branch(ix.t >= high):
        raise program_exception(ValueError('Sub seed index is out of range'))
    if cache is not None:
        cache.nonempty = z3.BoolVal(True)
        p = vc.fresh_int('cache_pos')
        cache.rs.pos = p
        cache.seen.p = p
        vc.assume(p >= 0)
    r = SUBSEED(sd.t, ix.t)
    vc.assume(r >= 0, r < high)
    return SInt(r)


class C02Graph(Contract):
    prop = 'C02'
    fin = 3
    nodes, refs = 3, 8
    reserved = (RS_NAME,)

    def base(self, vc, graphs=('G',)):
        th = theory(vc, nodes=self.nodes, refs=self.refs, lits=LITS)
        H = Heap(th)
        th.default_heap = H
        s = NS(th=th, H=H, vc=vc)
        for g in graphs:
            setattr(s, g, NGraph(H, g, 'sym'))
            setattr(s, g + '0', getattr(s, g).snap())
        s.h0 = H.snap()
        s.RS = name_const(th, RS_NAME)
        return s

    def witness(self, vc, model, ob):
        return dict(note='counter-model is a symbolic graph over the finitised node universe; replayed by the bounded end-to-end harness')


class RSLoad(C02Graph):
    target = 'elfi/loader.py::RandomStateLoader.load'

    def __init__(self, case):
        self.case = self.label = case          # int-cache | int-nocache | global | unsupported

    def env(self, vc):
        s = vc._s
        s.gnr = _GetNpRandom()
        return {'np': np_module(s.th, s.H), 'get_sub_seed': Stub('get_sub_seed', stub_get_sub_seed, checked_by='C15/get_sub_seed'),
                'get_np_random': s.gnr}

    def setup(self, vc):
        s = self.base(vc)
        s.seed_t, s.idx = z3.Int('seed'), z3.Int('batch_index')
        vc.fin_bounds.extend([s.seed_t, s.idx])
        caches = {'executor': {}}
        s.cache = None
        if self.case == 'int-cache':
            P = z3.Int('cache_pos')
            s.cache = CacheDict(z3.Bool('cache_nonempty'), RandomStateSpec(P), PrefixSet(P))
            caches['sub_seed'] = s.cache
            vc.fin_bounds.append(P)
        seed = {'global': 'global', 'unsupported': 1.5}.get(self.case)
        if seed is None:
            seed = SInt(s.seed_t)
        s.context = _Context(seed, caches)
        return s, (None, s.context, s.G, SInt(s.idx)), {}

    def requires(self, s):
        return [s.G.wf(), s.idx >= 0, s.seed_t >= 0, cache_ok(s.cache)] + reserved_facts(s.th, list(self.reserved))

    def raises(self, s):
        if self.case == 'unsupported':
            return {'ValueError': z3.BoolVal(True)}
        if self.case.startswith('int'):
            return {'ValueError': s.idx >= HIGH}
        return {}

    def iff_raises(self, s):
        if self.case.startswith('int'):
            return [('normal return only for a servable batch index', s.idx < HIGH)]
        return []

    @property
    def cover(self):
        return self.case != 'unsupported'

    def ensures(self, s, result):
        th, g0, h0, g1, h1 = s.th, s.G0, s.h0, s.G.snap(), s.H.snap()
        V = th.Val
        is_rs, rs_seed, rs_pos = rs_fns(th)
        key = th.klit('output' if self.case.startswith('int') else 'operation')
        slot = lambda r, k: z3.And(g0.node(s.RS), r == g0.nattr(s.RS), k == key)
        v = h1.val(g0.nattr(s.RS), key)
        out = [('the net handed in is returned', z3.BoolVal(result is s.G)),
               ('frame: nodes, edges, params, data-dict identities and the graph dict are unchanged', same_structure(th, g0, g1)),
               ('frame: no dict slot other than the %s slot of _random_state is written; nothing is allocated' % ('output' if self.case.startswith('int') else 'operation'),
                heap_same_except(th, h0, h1, slot))]
        if self.case.startswith('int'):
            o = V.obj_of(v)
            out += [('the _random_state node outputs RandomState(get_sub_seed(seed, batch_index)) at stream position 0',
                     z3.Implies(g0.node(s.RS), z3.And(h1.has(g0.nattr(s.RS), key), V.is_vobj(v), is_rs(o),
                                                      rs_seed(o) == SUBSEED(s.seed_t, s.idx), rs_pos(o) == 0))),
                    ('the generator is a new object: no dict of the old heap holds it (no generator is shared between batches)',
                     z3.Implies(g0.node(s.RS), th.forall_ref_key(lambda r, k: z3.Implies(h0.has(r, k), h0.val(r, k) != v)))),
                    ('the sub-seed cache stays usable by any later request (cache_ok)', cache_ok(s.cache))]
        else:
            out += [('seed == "global": the getter (not a generator) is stored, to be evaluated in the worker',
                     z3.Implies(g0.node(s.RS), z3.And(h1.has(g0.nattr(s.RS), key), v == th.opaque(s.gnr))))]
        return out


class _GetNpRandom:
    """the function object elfi.loader.get_np_random (never called by the loader)"""

    def __call__(self):
        cur().oblige('frame[get_np_random is not CALLED while loading (the process-global generator stays out of the net)]', z3.BoolVal(False))
        return _Tok('the process-global generator')


class _Context:
    """ComputationContext as the loaders see it: seed, caches (a plain dict), batch_size, pool, num_submissions"""

    def __init__(self, seed, caches, pool=None):
        self.seed, self.caches, self.pool = seed, caches, pool


# ====================================================================== (2) RandomStateCompiler.compile
def stateref(th, g, h, n):
    return th.Val.ref_of(h.val(g.nattr(n), th.klit('attr_dict')))


def stochastic(th, g, h, n):
    """spec: node n of the source net is stochastic <=> its state dict carries the '_stochastic' flag (written only by
    elfi.model.elfi_model.StochasticMixin, always as True)"""
    return h.has(stateref(th, g, h, n), th.klit('_stochastic'))


def source_rep(th, g, h):
    """every source node's data dict holds its state dict under 'attr_dict' (GraphicalModel.add_node, C14)"""
    A = th.klit('attr_dict')
    return th.forall_nodes(lambda n: z3.Implies(g.node(n), z3.And(h.has(g.nattr(n), A), th.Val.is_vref(h.val(g.nattr(n), A)), h.alloc(stateref(th, g, h, n)))))


class RSCompile(C02Graph):
    target = 'elfi/compiler.py::RandomStateCompiler.compile'
    fin = 3

    def setup(self, vc):
        s = self.base(vc, graphs=('S', 'C'))
        return s, (None, s.S, s.C), {}

    def requires(self, s):
        th, S, C, RS = s.th, s.S0, s.C0, s.RS
        return [s.S.wf(), s.C.wf(), source_rep(th, S, s.h0),
                ('OutputCompiler ran first: every source node is a node of the compiled net', th.forall_nodes(lambda x: z3.Implies(S.node(x), C.node(x)))),
                ("'_random_state' is reserved: not a source node, not yet in the compiled net",
                 z3.And(z3.Not(S.node(RS)), z3.Not(C.node(RS)), th.forall_nodes(lambda x: z3.And(z3.Not(C.edge(RS, x)), z3.Not(C.edge(x, RS))))))] \
            + reserved_facts(th, list(self.reserved))

    def _inv(self, s, l):
        th, S, C0, C, h0, H, RS = s.th, s.S0, s.C0, s.C, s.h0, s.H, s.RS
        vis = l.it.visited
        P = th.Param
        st = lambda x: stochastic(th, S, h0, x)
        done = lambda x: z3.And(vis(x), st(x))
        rsp = P.pname(str_const(th, 'random_state'))
        return [('edges: old edges + (_random_state -> x) for the visited stochastic x',
                 th.forall_nodes(lambda u, v: C.edge(u, v) == z3.Or(C0.edge(u, v), z3.And(u == RS, done(v))), 2)),
                ('params: new edges carry random_state, old ones are untouched',
                 th.forall_nodes(lambda u, v: C.param(u, v) == z3.If(z3.And(u == RS, done(v)), rsp, C0.param(u, v)), 2)),
                ('nodes: old nodes, plus _random_state iff a visited node is stochastic',
                 z3.And(th.forall_nodes(lambda x: z3.Implies(x != RS, C.node(x) == C0.node(x))),
                        C.node(RS) == th.exists_nodes(lambda x: done(x)))),
                ('data dicts of the old nodes keep their identity', th.forall_nodes(lambda x: z3.Implies(C0.node(x), C.nattr(x) == C0.nattr(x)))),
                ('no dict of the old heap is written', th.forall_ref_key(lambda r, k: z3.Implies(h0.alloc(r), z3.And(H.has(r, k) == h0.has(r, k), H.val(r, k) == h0.val(r, k))))),
                ('allocation only grows; the new data dict is not an old one',
                 z3.And(th.forall_refs(lambda r: z3.Implies(h0.alloc(r), H.alloc(r))),
                        z3.Implies(C.node(RS), z3.And(H.alloc(C.nattr(RS)), z3.Not(h0.alloc(C.nattr(RS))), C.nattr(RS) != C.gref)))),
                ('the source net and the graph dicts are not touched', z3.And(same_structure(th, S, s.S.snap()), C.gref == C0.gref))]

    @property
    def loops(self):
        return {0: Loop(inv=self._inv, modifies=lambda s, l: [s.C, s.H])}

    def ensures(self, s, result):
        th, S, C0, C1, h0, h1, RS = s.th, s.S0, s.C0, s.C.snap(), s.h0, s.H.snap(), s.RS
        P = th.Param
        st = lambda x: z3.And(S.node(x), stochastic(th, S, h0, x))
        rsp = P.pname(str_const(th, 'random_state'))
        return [('the compiled net handed in is returned', z3.BoolVal(result is s.C)),
                ("forall x. stochastic(x) <=> edge(_random_state -> x) with param 'random_state'",
                 th.forall_nodes(lambda x: z3.And(C1.edge(RS, x) == st(x), z3.Implies(st(x), C1.param(RS, x) == rsp)))),
                ('_random_state exists iff some node is stochastic', C1.node(RS) == th.exists_nodes(lambda x: st(x))),
                ('frame: no other node or edge is added or removed, params of the other edges are kept',
                 z3.And(th.forall_nodes(lambda x: z3.Implies(x != RS, C1.node(x) == C0.node(x))),
                        th.forall_nodes(lambda u, v: z3.Implies(u != RS, z3.And(C1.edge(u, v) == C0.edge(u, v), C1.param(u, v) == C0.param(u, v))), 2))),
                ('frame: data dicts of the old nodes and every dict of the old heap are unchanged (the source net is only read)',
                 z3.And(th.forall_nodes(lambda x: z3.Implies(C0.node(x), C1.nattr(x) == C0.nattr(x))),
                        th.forall_ref_key(lambda r, k: z3.Implies(h0.alloc(r), z3.And(h1.has(r, k) == h0.has(r, k), h1.val(r, k) == h0.val(r, k)))),
                        same_structure(th, S, s.S.snap()))),
                ('networkx invariant kept', s.C.wf())]



# ====================================================================== (5) ElfiModel.generate: the seed hand-over
class _Rec:
    """records the calls the analysed body makes on its collaborators (ComputationContext, OutputPool, the client)"""

    def __init__(self):
        self.calls = []

    def add(self, what, **kw):
        self.calls.append((what, kw))
        return kw

    def of(self, what):
        return [kw for w, kw in self.calls if w == what]


class _Tok:
    def __init__(self, what):
        self.what = what

    def __repr__(self):
        return '<%s>' % self.what


def _generate_env(rec):
    class ComputationContext:
        def __init__(self, batch_size=None, seed=None, pool=None):
            self.batch_size, self.seed, self.pool = batch_size, seed, pool
            rec.add('context', ctx=self, batch_size=batch_size, seed=seed, pool=pool)

    class OutputPool:
        def __init__(self, outputs=None, name=None, prefix=None):
            rec.add('pool', pool=self, outputs=outputs)

        def add_batch(self, batch, batch_index):
            rec.add('add_batch', pool=self, batch=batch, batch_index=batch_index)

    class _Client:
        def compile(self, source_net, outputs=None):
            t = _Tok('compiled_net')
            rec.add('compile', source_net=source_net, outputs=outputs, result=t)
            return t

        def load_data(self, compiled_net, context, batch_index):
            t = _Tok('loaded_net')
            rec.add('load_data', compiled_net=compiled_net, context=context, batch_index=batch_index, result=t)
            return t

        def compute(self, loaded_net):
            t = _Tok('result')
            rec.add('compute', loaded_net=loaded_net, result=t)
            return t

    client = _Client()

    class _ClientModule:
        @staticmethod
        def get_client():
            rec.add('get_client')
            return client

    class _Elfi:
        client = _ClientModule
    return {'ComputationContext': ComputationContext, 'OutputPool': OutputPool, 'elfi': _Elfi}


class _WithValues:
    """the `with_values` dict of generate: only handed on"""

    def keys(self):
        return _Tok('with_values.keys()')


class Generate(C02Graph):
    target = 'elfi/model/elfi_model.py::ElfiModel.generate'
    fin = 3

    def __init__(self, case):
        self.case = self.label = case          # int-seed | int-seed,with_values | seed-None

    def env(self, vc):
        return _generate_env(vc._s.rec)

    def setup(self, vc):
        s = self.base(vc)
        s.rec = _Rec()
        s.seed_t, s.bs = z3.Int('seed'), z3.Int('batch_size')
        vc.fin_bounds.extend([s.seed_t, s.bs])
        s.seed = None if self.case == 'seed-None' else SInt(s.seed_t)
        s.bsz = SInt(s.bs)
        s.outputs = [SNodeName(z3.Const('out0', s.th.Node))]
        s.wv = _WithValues() if 'with_values' in self.case else None
        s.m = _Model(s.G)
        return s, (s.m, s.bsz, s.outputs), dict(with_values=s.wv, seed=s.seed)

    def requires(self, s):
        return [s.G.wf(), s.seed_t >= 0, s.bs >= 0]

    def ensures(self, s, result):
        rec = s.rec
        ctxs, loads, comps, compiles = rec.of('context'), rec.of('load_data'), rec.of('compute'), rec.of('compile')
        one = len(ctxs) == 1 and len(loads) == 1 and len(comps) == 1 and len(compiles) == 1
        out = [('one context, one compile, one load_data, one compute', z3.BoolVal(one))]
        if not one:
            return out
        c, l, k, cp = ctxs[0], loads[0], comps[0], compiles[0]
        if self.case == 'seed-None':
            out.append(("seed None -> the context is created with seed 'global' (documented default)", z3.BoolVal(isinstance(c['seed'], str) and c['seed'] == 'global')))
        else:
            sd = c['seed']
            out.append(('an INTEGER seed is handed to the ComputationContext unchanged (seed 0 is an integer seed, not "global")',
                        (sd.t == s.seed_t) if isinstance(sd, SInt) else z3.BoolVal(False)))
        out += [('the context gets the requested batch size', (c['batch_size'].t == s.bs) if isinstance(c['batch_size'], SInt) else z3.BoolVal(False)),
                ('the pool is given exactly when values are given', z3.BoolVal((c['pool'] is None) == (s.wv is None))),
                ('the net compiled from this model for the requested outputs is loaded with THAT context as batch 0',
                 z3.And(z3.BoolVal(cp['source_net'] is s.G and cp['outputs'] is s.outputs and l['compiled_net'] is cp['result'] and l['context'] is c['ctx']),
                        lift(l['batch_index']).t == 0)),
                ('the result is the computed loaded net', z3.BoolVal(k['loaded_net'] is l['result'] and result is k['result']))]
        return out


class _Model:
    def __init__(self, G):
        self.source_net = G


# ====================================================================== (6) executor cache: load_data, PoolLoader.load, BatchHandler.submit / compute
class HeapSet(Sym):
    """a python set of node names that lives on the heap (identity = ref; members = the knode keys of that heap object).
    Used for graph['outputs'], which nx.DiGraph(G) SHARES between the compiled net and every loaded net."""

    def __init__(self, heap, ref):
        self.heap, self.ref, self.t = heap, ref, None

    def mem(self, x):
        return self.heap.has(self.ref, self.heap.th.knode(x))

    def __contains__(self, x):
        return bool(SBool(self.mem(nxspec._name_t(x))))

    def add(self, x):
        self.heap.write(self.ref, self.heap.th.knode(nxspec._name_t(x)), self.heap.th.Val.vnone)

    def _vc_set(self):
        """set(s): a NEW set object with the same members"""
        return HeapSet(self.heap, self.heap.copy_dict(self.ref, name='setcopy').ref)

    copy = _vc_set

    __hash__ = Sym.__hash__


class _GraphDict(SDict):
    """G.graph: the entry 'outputs' is a set of names on the heap"""

    def __setitem__(self, k, v):
        if isinstance(v, HeapSet):
            self.heap.write(self.ref, self._k(k), self.heap.th.Val.vref(v.ref))
        else:
            SDict.__setitem__(self, k, v)

    def __getitem__(self, k):
        v = SDict.__getitem__(self, k)
        if k == 'outputs':
            th = self.heap.th
            nxspec._need("call-pre[graph['outputs'] is a set object]", th.Val.is_vref(v.t))
            return HeapSet(self.heap, th.Val.ref_of(v.t))
        return v

    __hash__ = Sym.__hash__


class OGraph(NGraph):
    @property
    def graph(self):
        return _GraphDict(self.heap, self.gref)


def outs_ref(th, g, h):
    return th.Val.ref_of(h.val(g.gref, th.klit('outputs')))


def is_output(th, g, h, x):
    return h.has(outs_ref(th, g, h), th.knode(x))


def has_op(th, g, h, x):
    return h.has(g.nattr(x), th.klit('operation'))


def has_out(th, g, h, x):
    return h.has(g.nattr(x), th.klit('output'))


def outputs_rep(th, g, h):
    """graph['outputs'] is a set object of its own (not one of the graph's dicts)"""
    O = th.klit('outputs')
    o = outs_ref(th, g, h)
    return z3.And(h.has(g.gref, O), th.Val.is_vref(h.val(g.gref, O)), h.alloc(o), o != g.gref,
                  th.forall_nodes(lambda x: z3.Implies(g.node(x), o != g.nattr(x))))


class _Batch:
    """pool.get_batch(i): a dict {node name: stored value} - membership `inb` and value `bval` are arbitrary"""

    def __init__(self, th, vc):
        f = vc.fresh_fn('in_batch', th.Node, B)
        v = vc.fresh_fn('batch_value', th.Node, th.Val)
        self.inb, self.bval, self.th = (lambda x: f(x)), (lambda x: v(x)), th

    def __contains__(self, x):
        return bool(SBool(self.inb(nxspec._name_t(x))))

    def __getitem__(self, x):
        x = nxspec._name_t(x)
        nxspec._need('call-pre[batch[node]: node in batch]', self.inb(x))
        return SVal(self.th.default_heap, self.bval(x))


class _Pool:
    def __init__(self, th, vc):
        f = vc.fresh_fn('pool_store', th.Node, B)
        self.st = lambda x: f(x)
        self.stores = SNodeSet(self.st)
        self.batch = _Batch(th, vc)
        self.requested = []

    def get_batch(self, batch_index, *a, **k):
        self.requested.append(batch_index)
        return self.batch


class PoolLoad(C02Graph):
    target = 'elfi/loader.py::PoolLoader.load'
    fin = 3

    def __init__(self, case):
        self.case = self.label = case          # pool | no-pool

    def setup(self, vc):
        th = theory(vc, nodes=self.nodes, refs=self.refs, lits=LITS)
        H = Heap(th)
        th.default_heap = H
        s = NS(th=th, H=H, vc=vc)
        s.G = OGraph(H, 'G', 'sym')
        s.G0, s.h0 = s.G.snap(), H.snap()
        s.idx = z3.Int('batch_index')
        vc.fin_bounds.append(s.idx)
        s.pool = _Pool(th, vc) if self.case == 'pool' else None
        s.RS = name_const(th, RS_NAME)
        s.context = _Context(SInt(z3.Int('seed')), {'executor': {}}, pool=s.pool)
        return s, (None, s.context, s.G, SInt(s.idx)), {}

    def requires(self, s):
        return [s.G.wf(), outputs_rep(s.th, s.G0, s.h0), s.idx >= 0]

    def _inv(self, s, l):
        th, g0, h0, G, H, p = s.th, s.G0, s.h0, s.G, s.H, s.pool
        vis = l.it.visited
        OUT, OP = th.klit('output'), th.klit('operation')
        o = outs_ref(th, g0, h0)
        loaded = lambda x: z3.And(vis(x), g0.node(x), p.batch.inb(x))
        missing = lambda x: z3.And(vis(x), g0.node(x), z3.Not(p.batch.inb(x)))
        return [('structure unchanged', same_structure(th, g0, G.snap())),
                ('visited stored nodes found in the batch: output = stored value, operation removed; other data-dict slots kept',
                 th.forall_nodes(lambda x: z3.Implies(loaded(x), z3.And(H.has(g0.nattr(x), OUT), H.val(g0.nattr(x), OUT) == p.batch.bval(x), z3.Not(H.has(g0.nattr(x), OP)))))),
                ('outputs = old outputs + visited stored nodes missing from the batch',
                 th.forall_nodes(lambda x: H.has(o, th.knode(x)) == z3.Or(h0.has(o, th.knode(x)), missing(x)))),
                ('every other dict slot is untouched',
                 th.forall_ref_key(lambda r, k: z3.Implies(z3.Not(z3.Or(z3.And(r == o, th.Key.is_knode(k)),
                                                                      th.exists_nodes(lambda x: z3.And(loaded(x), r == g0.nattr(x), z3.Or(k == OUT, k == OP))))),
                                                          z3.And(H.has(r, k) == h0.has(r, k), H.val(r, k) == h0.val(r, k))))),
                ('nothing allocated', th.forall_refs(lambda r: H.alloc(r) == h0.alloc(r)))]

    @property
    def loops(self):
        return {0: Loop(inv=self._inv, modifies=lambda s, l: [s.H])} if self.case == 'pool' else {}

    def ensures(self, s, result):
        th, g0, h0, g1, h1, p = s.th, s.G0, s.h0, s.G.snap(), s.H.snap(), s.pool
        out = [('the net handed in is returned', z3.BoolVal(result is s.G)),
               ('structure unchanged', same_structure(th, g0, g1))]
        if p is None:
            return out + [('no pool: nothing is written', heap_same_except(th, h0, h1, lambda r, k: z3.BoolVal(False)))]
        OUT, OP = th.klit('output'), th.klit('operation')
        stored = lambda x: z3.And(g0.node(x), p.st(x))
        inb = p.batch.inb
        return out + [
            ('the batch requested from the pool is the batch being loaded', z3.BoolVal(len(p.requested) == 1) if len(p.requested) != 1 else lift(p.requested[0]).t == s.idx),
            ('a stored node found in the batch is loaded: output = stored value, no operation',
             th.forall_nodes(lambda x: z3.Implies(z3.And(stored(x), inb(x)), z3.And(h1.has(g0.nattr(x), OUT), h1.val(g0.nattr(x), OUT) == p.batch.bval(x), z3.Not(has_op(th, g0, h1, x)))))),
            ('a stored node missing from the batch is a requested output afterwards and keeps its data dict',
             th.forall_nodes(lambda x: z3.Implies(z3.And(stored(x), z3.Not(inb(x))), z3.And(is_output(th, g0, h1, x), has_op(th, g0, h1, x) == has_op(th, g0, h0, x),
                                                                                             has_out(th, g0, h1, x) == has_out(th, g0, h0, x))))),
            ('cache_consistent: the status of every pool-managed node is readable from the key `needed` (it has its operation only if it is a requested output)',
             th.forall_nodes(lambda x: z3.Implies(z3.And(stored(x), has_op(th, g0, h1, x)), is_output(th, g0, h1, x)))),
            ('requested outputs only grow, by stored nodes that are missing from the batch',
             th.forall_nodes(lambda x: is_output(th, g0, h1, x) == z3.Or(is_output(th, g0, h0, x), z3.And(stored(x), z3.Not(inb(x)))))),
            ('pure reuse: no STOCHASTIC node is replaced by its stored output while another stochastic node still has to run (the operations that run '
             'are handed the generator at stream position 0, not behind the draws the loaded node took when the batch was first computed)',
             th.forall_nodes(lambda x, y: z3.Not(z3.And(stored(x), inb(x), g0.edge(s.RS, x), g0.node(y), y != x, g0.edge(s.RS, y), has_op(th, g0, h1, y))), 2)),
            ('nodes the pool does not manage keep their data dicts',
             th.forall_nodes(lambda x: z3.Implies(z3.And(g0.node(x), z3.Not(p.st(x))),
                                                  th.forall_keys(lambda k: z3.And(h1.has(g0.nattr(x), k) == h0.has(g0.nattr(x), k), h1.val(g0.nattr(x), k) == h0.val(g0.nattr(x), k))))))]


def module_literals(path, repo, heap):
    """module-level `NAME = <literal>` bindings of the analysed module, as the function sees them (a dict literal is a dict
    object of its own on the heap) - so that a body that reads a module global is analysed, not rejected"""
    src_, tree = instrument._parse(path, repo)
    out = {}
    for n in tree.body:
        if isinstance(n, ast.Assign) and len(n.targets) == 1 and isinstance(n.targets[0], ast.Name):
            try:
                v = ast.literal_eval(n.value)
            except Exception:
                continue
            if isinstance(v, dict) and not v:
                out[n.targets[0].id] = ('dict', n.targets[0].id)
            elif v is None or isinstance(v, (bool, int, str)):
                out[n.targets[0].id] = ('value', v)
    return out


class LoadData(C02Graph):
    target = 'elfi/client.py::ClientBase.load_data'
    fin = 3
    LOADERS = ('ObservedLoader', 'AdditionalNodesLoader', 'RandomStateLoader', 'PoolLoader')

    def env(self, vc):
        s = vc._s
        th, H = s.th, s.H
        class _Nx:
            @staticmethod
            def DiGraph(G=None, **kw):
                K = nxspec.DiGraph(G, **kw)
                if G is not None:
                    K.__class__ = OGraph
                return K
        e = {'nx': _Nx, 'networkx': _Nx}
        for nm, (kind, v) in module_literals('elfi/client.py', vc.repo, H).items():
            e[nm] = H.new_dict(name='module.' + nm) if kind == 'dict' else v
        for nm in self.LOADERS:
            e[nm] = _LoaderStub(nm, s)
        return e

    def setup(self, vc):
        s = self.base(vc)
        s.G.__class__ = OGraph
        s.idx = z3.Int('batch_index')
        vc.fin_bounds.append(s.idx)
        s.E = SDict(s.H, z3.Const('executor_cache', s.th.Ref))
        s.context = _Context(SInt(z3.Int('seed')), {'executor': s.E, 'sub_seed': {}})
        s.loads = []
        return s, (None, s.G, s.context, SInt(s.idx)), {}

    def requires(self, s):
        th, g, h = s.th, s.G0, s.h0
        return [s.G.wf(), outputs_rep(th, g, h), h.alloc(s.E.ref), s.E.ref != g.gref, s.E.ref != outs_ref(th, g, h),
                th.forall_nodes(lambda x: z3.Implies(g.node(x), g.nattr(x) != s.E.ref)), s.idx >= 0]

    def ensures(self, s, result):
        th, g0, h0, h1 = s.th, s.G0, s.h0, s.H.snap()
        V = th.Val
        if not isinstance(result, SDiGraph):
            raise OutOfSubset('load_data returned %s' % type(result).__name__)
        K = result.snap()
        names = [n for n, _ in s.loads]
        return [('the loaded net is a NEW graph object with its own graph dict and node data dicts (the compiled net is not loaded in place)',
                 z3.And(z3.BoolVal(result is not s.G), z3.Not(h0.alloc(K.gref)), th.forall_nodes(lambda x: z3.Implies(K.node(x), z3.Not(h0.alloc(K.nattr(x))))))),
                ('every loader ran exactly once, on the copy, with this context and batch index',
                 z3.And([z3.BoolVal(sorted(names) == sorted(self.LOADERS))] + [z3.And(z3.BoolVal(ok), bi == s.idx) for _, (ok, bi) in s.loads])),
                ("the executor cache installed in the loaded net IS context.caches['executor'] (one cache per context, by identity)",
                 z3.And(h1.has(K.gref, th.klit('_executor_cache')), h1.val(K.gref, th.klit('_executor_cache')) == V.vref(s.E.ref))),
                ('frame: the compiled net keeps its structure and no dict that existed before is written',
                 z3.And(same_structure(th, g0, s.G.snap()),
                        th.forall_ref_key(lambda r, k: z3.Implies(z3.And(h0.alloc(r), r != outs_ref(th, g0, h0)), z3.And(h1.has(r, k) == h0.has(r, k), h1.val(r, k) == h0.val(r, k)))))),
                ("frame: loading a batch does not change the REQUESTED OUTPUTS of the compiled net (graph['outputs'] is shared by nx.DiGraph(G); PoolLoader adds to the set of the net it is given)",
                 th.forall_nodes(lambda x: is_output(th, g0, h1, x) == is_output(th, g0, h0, x)))]


class _LoaderStub:
    """<X>Loader.load by name (RandomStateLoader, PoolLoader: contracts above; ObservedLoader, AdditionalNodesLoader: C03/C05): may write
    the dicts OF THE NET IT IS GIVEN (graph dict, node data dicts) - and the shared outputs set, which is not a dict of the net."""

    def __init__(self, name, s):
        self.name, self.s = name, s

    def load(self, context, net, batch_index):
        s = self.s
        th, H = s.th, s.H
        ok = isinstance(net, SDiGraph) and net is not s.G and context is s.context
        s.loads.append((self.name, (ok, lift(batch_index).t)))
        cur().oblige('call-pre[%s.load: batch_index >= 0]' % self.name, lift(batch_index).t >= 0)
        if not isinstance(net, SDiGraph):
            raise OutOfSubset('loader called with %s' % type(net).__name__)
        K = net.snap()
        vc = cur()
        fh = vc.fresh_fn(self.name + '.has', th.Ref, th.Key, B)
        fv = vc.fresh_fn(self.name + '.val', th.Ref, th.Key, th.Val)
        O = th.klit('outputs')
        # the dicts of the net it is given, except the slot graph['outputs'] (no loader re-binds it)
        own = lambda r, k: z3.Or(z3.And(r == K.gref, k != O), th.exists_nodes(lambda x: z3.And(K.node(x), K.nattr(x) == r)))
        has, val = H.has, H.val
        H.has = lambda r, k: z3.If(own(r, k), fh(r, k), has(r, k))
        H.val = lambda r, k: z3.If(own(r, k), fv(r, k), val(r, k))
        if self.name == 'PoolLoader':
            # contract PoolLoad: requested outputs of THE NET IT IS GIVEN grow by (arbitrary) stored nodes that are missing from the batch
            o = th.Val.ref_of(H.val(K.gref, O))
            added = vc.fresh_fn('pool.added', th.Node, B)
            has2 = H.has
            H.has = lambda r, k: z3.If(z3.And(r == o, th.Key.is_knode(k), added(th.Key.knode_of(k)), K.node(th.Key.knode_of(k))), z3.BoolVal(True), has2(r, k))
        return net


class _Handler:
    """`self` of BatchHandler.submit / compute"""

    def __init__(self, s, client):
        self.compiled_net, self.context, self.client = s.G, s.context, client
        self._next_batch_index = SInt(s.nbi)
        self._pending_batches = {}


class _SubmitClient:
    def __init__(self, s):
        self.s = s

    def load_data(self, compiled_net, context, batch_index):
        """ClientBase.load_data (contract LoadData): a new graph with the structure of the compiled net and fresh dicts; which nodes
        hold an operation / output afterwards is up to the loaders (arbitrary here)"""
        s = self.s
        s.rec.add('load_data', compiled_net=compiled_net, context=context, batch_index=batch_index)
        cur().oblige('call-pre[load_data: batch_index >= 0]', lift(batch_index).t >= 0)
        if compiled_net is not s.G:
            raise OutOfSubset('load_data on another net')
        K = nxspec.DiGraph(s.G)
        K.__class__ = OGraph
        th, H, vc = s.th, s.H, cur()
        ks = K.snap()
        fh = vc.fresh_fn('loaded.has', th.Ref, th.Key, B)
        fv = vc.fresh_fn('loaded.val', th.Ref, th.Key, th.Val)
        own = lambda r: th.exists_nodes(lambda x: z3.And(ks.node(x), ks.nattr(x) == r))
        has, val = H.has, H.val
        H.has = lambda r, k: z3.If(own(r), fh(r, k), has(r, k))
        H.val = lambda r, k: z3.If(own(r), fv(r, k), val(r, k))
        s.K, s.k0, s.hk0 = K, ks, H.snap()
        pre = s.get('pre_loaded')
        if pre is not None:
            vc.assume(pre(s))          # the part of the caller's `requires` that speaks about the loaded net
        return K

    def submit(self, loaded_net):
        t = _Tok('task_id')
        self.s.rec.add('submit', loaded_net=loaded_net, result=t, heap=self.s.H.snap())
        return t

    def compute(self, loaded_net):
        t = _Tok('result')
        self.s.rec.add('compute', loaded_net=loaded_net, result=t)
        return t


class _Overrides:
    """the `batch` argument of submit: {node name: value}; keys `ov`, values `oval` arbitrary"""

    def __init__(self, th, vc):
        f = vc.fresh_fn('override', th.Node, B)
        v = vc.fresh_fn('override_value', th.Node, th.Val)
        self.ov, self.oval, self.th = (lambda x: f(x)), (lambda x: v(x)), th

    def __bool__(self):
        return True            # a non-empty dict (the empty / None case is the contract case `no-override`)

    def items(self):
        return self

    def _vc_iter(self):
        from pyvc.engine import SetIter
        th = self.th
        return SetIter(th.Node, lambda q: self.ov(q), lambda q: (SNodeName(q), SVal(th.default_heap, self.oval(q))))


class Submit(C02Graph):
    target = 'elfi/client.py::BatchHandler.submit'
    fin = 3

    def __init__(self, case):
        self.case = self.label = case          # override | no-override

    def setup(self, vc):
        s = self.base(vc)
        s.G.__class__ = OGraph
        s.rec = _Rec()
        s.nbi, s.nsub = z3.Int('next_batch_index'), z3.Int('num_submissions')
        vc.fin_bounds.extend([s.nbi, s.nsub])
        s.context = _Context(SInt(z3.Int('seed')), {'executor': {}})
        s.context.num_submissions = SInt(s.nsub)
        s.client = _SubmitClient(s)
        s.h = _Handler(s, s.client)
        s.batch = _Overrides(s.th, vc) if self.case == 'override' else None
        s.pre_loaded = self._pre_overrides if s.batch is not None else None
        return s, (s.h,), dict(batch=s.batch)

    def requires(self, s):
        th, g, h = s.th, s.G0, s.h0
        r = [s.G.wf(), outputs_rep(th, g, h), s.nbi >= 0, s.nsub >= 0]
        return r

    def _pre_overrides(self, s):
        """requires (stated on the net load_data returns): every override key is a node that still has its operation after loading
        (else `del ...['operation']` raises KeyError) AND IS A REQUESTED OUTPUT (cache_consistent; the single call site,
        ParameterInference.iterate, passes parameter names, which every inference method requests)"""
        th = s.th
        return th.forall_nodes(lambda x: z3.Implies(s.batch.ov(x), z3.And(s.k0.node(x), has_op(th, s.k0, s.hk0, x), is_output(th, s.k0, s.hk0, x))))

    def _inv(self, s, l):
        th, H, k0, hk0, b = s.th, s.H, s.k0, s.hk0, s.batch
        vis = l.it.visited
        OUT, OP = th.klit('output'), th.klit('operation')
        return [('structure of the loaded net unchanged', same_structure(th, k0, s.K.snap())),
                ('visited override keys: output = the given value, operation removed',
                 th.forall_nodes(lambda x: z3.Implies(vis(x), z3.And(H.has(k0.nattr(x), OUT), H.val(k0.nattr(x), OUT) == b.oval(x), z3.Not(H.has(k0.nattr(x), OP)))))),
                ('every other dict slot is as load_data left it',
                 th.forall_ref_key(lambda r, k: z3.Implies(z3.Not(th.exists_nodes(lambda x: z3.And(vis(x), r == k0.nattr(x), z3.Or(k == OUT, k == OP)))),
                                                          z3.And(H.has(r, k) == hk0.has(r, k), H.val(r, k) == hk0.val(r, k))))),
                ('nothing allocated', th.forall_refs(lambda r: H.alloc(r) == hk0.alloc(r)))]

    @property
    def loops(self):
        if self.case != 'override':
            return {}
        L = Loop(inv=self._inv, modifies=lambda s, l: [s.H], on_head=None)
        return {0: L}

    def lemmas_at_exit(self, s, result):
        return []

    def ensures(self, s, result):
        th, rec = s.th, s.rec
        loads, subs = rec.of('load_data'), rec.of('submit')
        one = len(loads) == 1 and len(subs) == 1
        out = [('one load_data, one client.submit', z3.BoolVal(one))]
        if not one:
            return out
        l, sb = loads[0], subs[0]
        hs = sb['heap']
        k0, hk0 = s.k0, s.hk0
        out += [('the batch loaded is batch number next_index of THIS handler (its compiled net, its context)',
                 z3.And(z3.BoolVal(l['compiled_net'] is s.G and l['context'] is s.context), lift(l['batch_index']).t == s.nbi)),
                ('the submitted net is the loaded one', z3.BoolVal(sb['loaded_net'] is s.K)),
                ('counters: next_index + 1, num_submissions + 1', z3.And(lift(s.h._next_batch_index).t == s.nbi + 1, lift(s.context.num_submissions).t == s.nsub + 1)),
                ('frame: the compiled net and every dict that existed before the call are untouched',
                 z3.And(same_structure(th, s.G0, s.G.snap()),
                        th.forall_ref_key(lambda r, k: z3.Implies(s.h0.alloc(r), z3.And(hs.has(r, k) == s.h0.has(r, k), hs.val(r, k) == s.h0.val(r, k))))))]
        if s.batch is not None:
            OUT = th.klit('output')
            b = s.batch
            out += [('at submission every override key holds the given value as output and has no operation',
                     th.forall_nodes(lambda x: z3.Implies(b.ov(x), z3.And(hs.has(k0.nattr(x), OUT), hs.val(k0.nattr(x), OUT) == b.oval(x), z3.Not(has_op(th, k0, hs, x)))))),
                    ('cache_consistent: an overridden node is a requested output without operation - its status is readable from the key `needed`',
                     th.forall_nodes(lambda x: z3.Implies(b.ov(x), z3.And(is_output(th, k0, hs, x), z3.Not(has_op(th, k0, hs, x)))))),
                    ('nodes that are not overridden are submitted as loaded',
                     th.forall_nodes(lambda x: z3.Implies(z3.And(k0.node(x), z3.Not(b.ov(x))),
                                                          th.forall_keys(lambda k: z3.And(hs.has(k0.nattr(x), k) == hk0.has(k0.nattr(x), k), hs.val(k0.nattr(x), k) == hk0.val(k0.nattr(x), k))))))]
        return out


class Compute(C02Graph):
    target = 'elfi/client.py::BatchHandler.compute'
    fin = 3

    def setup(self, vc):
        s = self.base(vc)
        s.G.__class__ = OGraph
        s.rec = _Rec()
        s.nbi, s.nsub, s.idx = z3.Int('next_batch_index'), z3.Int('num_submissions'), z3.Int('batch_index')
        vc.fin_bounds.extend([s.nbi, s.nsub, s.idx])
        s.context = _Context(SInt(z3.Int('seed')), {'executor': {}})
        s.context.num_submissions = SInt(s.nsub)
        s.client = _SubmitClient(s)
        s.h = _Handler(s, s.client)
        return s, (s.h, SInt(s.idx)), {}

    def requires(self, s):
        return [s.G.wf(), s.idx >= 0]

    def ensures(self, s, result):
        rec = s.rec
        loads, comps = rec.of('load_data'), rec.of('compute')
        one = len(loads) == 1 and len(comps) == 1
        out = [('one load_data, one client.compute', z3.BoolVal(one))]
        if one:
            l, c = loads[0], comps[0]
            out += [('the requested batch of THIS handler (its compiled net, its context) is loaded', z3.And(z3.BoolVal(l['compiled_net'] is s.G and l['context'] is s.context), lift(l['batch_index']).t == s.idx)),
                    ('the result is the computed loaded net', z3.BoolVal(c['loaded_net'] is s.K and result is c['result'])),
                    ('no counter of the handler or the context moves (compute(i) leaves no trace that a later compute(j) could see)',
                     z3.And(lift(s.h._next_batch_index).t == s.nbi, lift(s.context.num_submissions).t == s.nsub, z3.BoolVal(s.h._pending_batches == {})))]
        return out


# ====================================================================== (4b) the explicit-stack DFS of nx_constant_topological_sort
class DList(SList):
    """python list used as a stack / accumulator: pop(), extend(), truth value"""

    def pop(self, *a):
        if a:
            raise OutOfSubset('list.pop(i)')
        nxspec._need('call-pre[pop from a non-empty list]', self.n > 0)
        n = self.n
        x = self.elt(n - 1)
        self.n = n - 1
        return x

    def extend(self, other):
        o = SList.of(other)
        n, elt, oe = self.n, self.elt, o.elt
        self.n = n + o.n
        self.elt = lambda i: nxspec.ite_value(nxspec._zi(i) < n, elt(i), oe(nxspec._zi(i) - n))

    def __bool__(self):
        return cur().branch(self.n > 0)

    def _vc_list(self):
        return DList(self.n, self.elt, self.ghost)

    __hash__ = Sym.__hash__


def _fresh_names(name, ghost=False):
    def mk(why):
        th = theory()
        vc = th.vc
        n = vc.fresh_int(name + '.n', nonneg=True, size=True)
        at = vc.fresh_fn(name + '.at', I, th.Node)
        g = None
        if ghost:
            ix = vc.fresh_fn(name + '.idx', th.Node, I)
            g = lambda x: ix(x)
        return DList(n, lambda i: SNodeName(at(nxspec._zi(i))), ghost=g)
    return mk


def _as_list(x):
    if isinstance(x, SList):
        return x
    if isinstance(x, list):
        if not x:
            return DList(z3.IntVal(0), _fresh_names('empty')('init').elt)
        return SList.of(x)
    raise OutOfSubset('expected a list, got %s' % type(x).__name__)


def _no_elt():
    raise OutOfSubset('element of an empty list')


class DGraph(NGraph):
    def is_directed(self):
        return True


class _NxModule:
    DiGraph = staticmethod(nxspec.DiGraph)

    class NetworkXError(Exception):
        pass

    class NetworkXUnfeasible(Exception):
        pass


def _dfs_env():
    from pyvc import pyspec

    def set_(x=None):
        if x is None:
            return SNodeSet(lambda q: z3.BoolVal(False))
        return pyspec.vc_set(x)

    def sorted_(x, key=None, **kw):
        if key is not None:
            probe = object()
            try:
                ident = key(probe) is probe
            except Exception:
                ident = False
            if not ident:
                raise OutOfSubset('sorted(..., key=<not the identity>): ties are not modelled')
        if kw:
            raise OutOfSubset('sorted(..., %s)' % sorted(kw))
        if isinstance(x, nxspec.NodeView):
            return x._vc_list()._vc_sorted()
        if isinstance(x, nxspec._Adj):
            G, u = x.G, x.u
            return SNameList.of_set(lambda q: G.edge(u, q), 'succ')._vc_sorted()
        return pyspec.vc_sorted(x)

    def reversed_(x):
        if isinstance(x, SList):
            n, elt = x.n, x.elt
            return DList(n, lambda i: elt(n - 1 - nxspec._zi(i)), x.ghost)
        return reversed(x)
    return {'set': set_, 'sorted': sorted_, 'reversed': reversed_, 'nx': _NxModule, 'networkx': _NxModule}


def dfs_roles(repo=None):
    """which local plays which role, read from the AST (so that renaming locals does not matter):
    order = the `[]` accumulator bound before the outer loop; explored = the set tested by `if <root> in <set>: continue`; seen = the other set;
    fringe = the one-element list bound at the top of the outer loop body; new = the `[]` bound inside the while loop; root / top = loop target, fringe[-1]"""
    loc = instrument.locate('elfi/executor.py::nx_constant_topological_sort', repo)
    fn = loc.node
    r = {}
    sets = []
    outer = None
    for st in fn.body:
        if isinstance(st, ast.Assign) and len(st.targets) == 1 and isinstance(st.targets[0], ast.Name):
            v = st.value
            if isinstance(v, ast.Call) and isinstance(v.func, ast.Name) and v.func.id == 'set' and not v.args:
                sets.append(st.targets[0].id)
            elif isinstance(v, ast.List) and not v.elts:
                r['order'] = st.targets[0].id
        elif isinstance(st, ast.For) and outer is None:
            outer = st
    if outer is None or len(sets) != 2 or 'order' not in r or not isinstance(outer.target, ast.Name) or not isinstance(outer.iter, ast.Name):
        raise OutOfSubset('nx_constant_topological_sort: unexpected shape (sets %s)' % sets)
    r['root'], r['roots'] = outer.target.id, outer.iter.id
    first = outer.body[0]
    if not (isinstance(first, ast.If) and isinstance(first.test, ast.Compare) and isinstance(first.test.ops[0], ast.In)
            and isinstance(first.test.comparators[0], ast.Name) and first.test.comparators[0].id in sets and isinstance(first.body[0], ast.Continue)):
        raise OutOfSubset('nx_constant_topological_sort: outer loop does not start with `if v in explored: continue`')
    r['explored'] = first.test.comparators[0].id
    r['seen'] = [x for x in sets if x != r['explored']][0]
    wh = None
    for st in outer.body:
        if isinstance(st, ast.Assign) and isinstance(st.value, ast.List) and len(st.value.elts) == 1 and isinstance(st.targets[0], ast.Name):
            r['fringe'] = st.targets[0].id
        if isinstance(st, ast.While):
            wh = st
    if wh is None or 'fringe' not in r:
        raise OutOfSubset('nx_constant_topological_sort: no stack / while loop')
    for st in wh.body:
        if isinstance(st, ast.Assign) and isinstance(st.targets[0], ast.Name):
            if isinstance(st.value, ast.List) and not st.value.elts:
                r['new'] = st.targets[0].id
            if isinstance(st.value, ast.Subscript) and isinstance(st.value.value, ast.Name) and st.value.value.id == r['fringe']:
                r['top'] = st.targets[0].id
    if 'new' not in r or 'top' not in r:
        raise OutOfSubset('nx_constant_topological_sort: while body shape')
    # is the accumulator only ever grown by .append()?  (the ghost position function of the contract follows append; any other mutator - insert, extend,
    # +=, slice assignment - is outside that protocol: a counter-model is then only a violation with a native failing input, see SortDFS.ensures)
    other = []
    for nd in ast.walk(fn):
        if isinstance(nd, ast.Attribute) and isinstance(nd.value, ast.Name) and nd.value.id == r['order'] and nd.attr != 'append':
            other.append(nd.attr)
        if isinstance(nd, (ast.AugAssign, ast.Assign, ast.Delete)):
            for t in ([nd.target] if isinstance(nd, ast.AugAssign) else nd.targets):
                base = t.value if isinstance(t, ast.Subscript) else t
                if isinstance(base, ast.Name) and base.id == r['order'] and not (isinstance(nd, ast.Assign) and isinstance(t, ast.Name) and isinstance(nd.value, ast.List) and not nd.value.elts):
                    other.append(type(nd).__name__)
    r['order_other_mutators'] = sorted(set(other))
    return r


class SortDFS(C02Graph):
    """SMT contract of the explicit-stack DFS (three nested loop invariants), nbunch=None, `reverse` an arbitrary (symbolic) bool:
    on every normal exit the result lists exactly the node set of G, every node once, and is a TOPOLOGICAL order: every edge (u, v) of G has u
    before v (reverse=True: after v) - for ALL graphs (hence: a graph with a cycle or a self-loop never returns normally); G[w] is only asked for
    nodes of G; pop() only on a non-empty stack.
    Invariant (no transitive closure needed): every successor (edge of G) of an explored node is explored and sits at a smaller index of `order`.
    Successor loop: as long as new_nodes is empty every entry of sorted(G[w]) looked at so far is explored; at its exit sorted()'s contract (every
    member of the set occurs in the sorted list - proved as a ghost step from the permutation contract) turns "every entry" into "every successor".
    NOT covered here: NetworkXUnfeasible is raised ONLY IF G has a cycle (bounded: all small DAGs), termination, a caller-supplied nbunch."""
    target = 'elfi/executor.py::nx_constant_topological_sort'
    label = 'dfs'
    fin = 3
    nodes, refs = 3, 4

    def env(self, vc):
        return _dfs_env()

    def setup(self, vc):
        s = self.base(vc)
        s.G.__class__ = DGraph
        vc.axioms = s.th.name_order_axioms()
        s.r = NS(dfs_roles(vc.repo))
        s.rev = z3.Bool('reverse')             # BOTH values in one run (the loops are cut once; only the final `if reverse:` forks): False = the call of get_execution_order
        return s, (s.G,), {'reverse': SBool(s.rev)}

    def requires(self, s):
        return [s.G.wf()]

    def raises(self, s):
        return {'NetworkXUnfeasible': z3.BoolVal(True)}

    # ---- the invariants
    def _core(self, s, l):
        th, g, r = s.th, s.G0, s.r
        order = _as_list(getattr(l, r.order))
        explored, seen = getattr(l, r.explored), getattr(l, r.seen)
        idx = order.ghost if getattr(order, 'ghost', None) is not None else (lambda x: z3.IntVal(0))
        at = lambda i: order.elt(i).t
        return [('order.n >= 0', order.n >= 0),
                ('every entry of order is explored, at its recorded position', forall_range(0, order.n, lambda i: z3.And(explored.mem(at(i)), idx(at(i)) == i), 'i')),
                ('every explored node is listed in order', th.forall_nodes(lambda x: z3.Implies(explored.mem(x), z3.And(idx(x) >= 0, idx(x) < order.n, at(idx(x)) == x)))),
                ('explored nodes are seen nodes of G', th.forall_nodes(lambda x: z3.And(z3.Implies(explored.mem(x), seen.mem(x)), z3.Implies(seen.mem(x), g.node(x))))),
                ('POST-ORDER: every successor of an explored node is explored and was appended to order before it',
                 th.forall_nodes(lambda x, y: z3.Implies(z3.And(explored.mem(x), g.edge(x, y)), z3.And(explored.mem(y), idx(y) < idx(x))), 2))]

    def _inv0(self, s, l):
        r = s.r
        roots = getattr(l, r.roots)
        explored = getattr(l, r.explored)
        return self._core(s, l) + [('the roots handled so far are explored', forall_range(0, l.it.index, lambda j: explored.mem(roots.elt(j).t), 'j'))]

    def _inv1(self, s, l):
        th, g, r = s.th, s.G0, s.r
        fr = _as_list(getattr(l, r.fringe))
        explored = getattr(l, r.explored)
        v = getattr(l, r.root).t
        return self._core(s, l) + [
            ('stack length >= 0', fr.n >= 0),
            ('the stack holds nodes of G', forall_range(0, fr.n, lambda i: g.node(fr.elt(i).t), 'i')),
            ('the root stays at the bottom of the stack; when the stack is empty the root is explored',
             z3.And(z3.Implies(fr.n >= 1, fr.elt(z3.IntVal(0)).t == v), z3.Implies(fr.n == 0, explored.mem(v)))),
            ('explored only grows', th.forall_nodes(lambda x: z3.Implies(l.entry.explored(x), explored.mem(x))))]

    def _inv2(self, s, l):
        g, r = s.G0, s.r
        nn = _as_list(getattr(l, r.new))
        explored = getattr(l, r.explored)
        it = l.it
        return [('length >= 0', nn.n >= 0), ('the new nodes are nodes of G', forall_range(0, nn.n, lambda i: g.node(nn.elt(i).t), 'i')),
                ('as long as no new node was found, every successor looked at so far is explored',
                 z3.Implies(nn.n == 0, forall_range(0, it.index, lambda j: explored.mem(it.elt(j).t), 'j')))]

    def _exit2(self, s, l):
        """ghost steps at the normal exit of the successor loop (each proved as an obligation of its own, then used):
        (a) sorted()'s contract for THIS sorted() call - every member of the sorted set occurs in the sorted list;
        (b) hence: no new node found => EVERY successor of the node on top of the stack (edges of G, not entries of a list) is explored"""
        th, g, r, vc = s.th, s.G0, s.r, s.vc
        it = l.it
        cs = [c for c in vc.libcalls.get('sorted', []) if c['out'].elt is it.elt and getattr(c['src'], 'idx', None) is not None]
        if not cs:
            raise OutOfSubset('the successor loop does not iterate over sorted(<set of names>)')
        c = cs[-1]
        sidx, pinv, out = c['src'].idx, c['pinv'], c['out']
        vc.cut('sorted(successors): every member of the set occurs in the sorted list, at position pinv(idx(x))',
               th.forall_nodes(lambda x: z3.Implies(c['src'].mem(x), z3.And(pinv(sidx(x)) >= 0, pinv(sidx(x)) < c['n'], out.elt(pinv(sidx(x))).t == x))))
        nn = _as_list(getattr(l, r.new))
        explored = getattr(l, r.explored)
        w = getattr(l, r.top).t
        vc.cut('no new node found => every successor (in G) of the node on top of the stack is explored',
               z3.Implies(nn.n == 0, th.forall_nodes(lambda y: z3.Implies(g.edge(w, y), explored.mem(y)))))

    def _ghost1(self, s, l0, l1):
        """order.append(w) happened in this iteration iff the length grew by one: the recorded position of that node is the old length"""
        r = s.r
        o1 = getattr(l1, r.order)
        if isinstance(o1, SList) and o1.ghost is not None:
            old, n0, n1 = o1.ghost, l0.h.n, o1.n          # l0's list object is LIVE (mutated in place): its length at the head was captured by at_head
            if not z3.eq(z3.simplify(n1 - n0), z3.IntVal(0)):
                last = o1.elt(n0).t
                o1.ghost = lambda x: z3.If(z3.And(n1 == n0 + 1, x == last), n0, old(x))

    @property
    def loops(self):
        r = NS(dfs_roles())
        L0 = Loop(inv=self._inv0, modifies=lambda s, l: [getattr(l, s.r.seen), getattr(l, s.r.explored)], fresh={r.order: _fresh_names('order', ghost=True)})
        L0.rebind = (r.order,)
        L1 = Loop(inv=self._inv1, modifies=lambda s, l: [getattr(l, s.r.seen), getattr(l, s.r.explored)],
                  fresh={r.order: _fresh_names('order', ghost=True), r.fringe: _fresh_names('stack')},
                  snapshot=lambda s, l: dict(explored=getattr(l, s.r.explored).mem), ghost_step=self._ghost1,
                  at_head=lambda s, l: dict(n=getattr(l, s.r.order).n))
        L1.rebind = (r.order, r.fringe)
        L2 = Loop(inv=self._inv2, fresh={r.new: _fresh_names('new')}, on_exit=self._exit2)
        L2.rebind = (r.new,)
        return {0: L0, 1: L1, 2: L2}

    def ensures(self, s, result):
        th, g, r = s.th, s.G0, s.r
        if not isinstance(result, SList):
            raise OutOfSubset('the sort returned %s' % type(result).__name__)
        if r.order_other_mutators:
            # the witness positions below come from a ghost that follows `.append`: with another mutator of the accumulator the loop-head state is an
            # over-approximation - refuted posts are violations only with a native failing input (order.insert(0, w) + `return order` is a correct sort)
            s.vc.taint('the accumulator of the sort is updated by %s: the ghost positions follow append only' % ', '.join(r.order_other_mutators))
        head = s.rt.loopstate[0]['head']
        order = getattr(head, r.order)
        idx = order.ghost
        n = result.n
        rev = s.rev
        pos = lambda x: z3.If(rev, idx(x), n - 1 - idx(x))      # witness of "x occurs in the result at ..." (proof hint; every clause below also states at(pos(x)) == x)
        at = lambda i: result.elt(i).t
        before = lambda u, v: z3.If(rev, pos(v) < pos(u), pos(u) < pos(v))
        # ghost step (proved as an obligation of its own, then used): a consequence of sorted()'s contract for the FIRST sorted() call, the roots -
        # every member x of the sorted set sits at position pinv(idx(x)) of the sorted list
        srt = s.vc.libcalls.get('sorted')
        if srt and getattr(srt[0]['src'], 'idx', None) is not None:
            c0 = srt[0]
            sidx, pinv, out = c0['src'].idx, c0['pinv'], c0['out']
            s.vc.cut('sorted(): every member of the set occurs in the sorted list, at position pinv(idx(x))',
                     th.forall_nodes(lambda x: z3.Implies(c0['src'].mem(x), z3.And(pinv(sidx(x)) >= 0, pinv(sidx(x)) < c0['n'], out.elt(pinv(sidx(x))).t == x))))
        return [('the result has one entry per explored node', n == order.n),
                ('every node of G occurs in the result', th.forall_nodes(lambda x: z3.Implies(g.node(x), z3.And(pos(x) >= 0, pos(x) < n, at(pos(x)) == x)))),
                ('every entry is a node of G and occurs once (its position is determined by the node)', forall_range(0, n, lambda i: z3.And(g.node(at(i)), pos(at(i)) == i), 'i')),
                ('TOPOLOGICAL (every edge (u, v) of G has u BEFORE v in the result: parents are executed first; with reverse=True: u AFTER v)',
                 th.forall_nodes(lambda u, v: z3.Implies(g.edge(u, v), z3.And(pos(u) >= 0, pos(u) < n, pos(v) >= 0, pos(v) < n, at(pos(u)) == u, at(pos(v)) == v, before(u, v))), 2)),
                ('the graph is not modified', same_structure(th, g, s.G.snap()))]


# ====================================================================== (6c) the cache hit, as a lemma over spec functions (z3, no code involved)
from contracts.c02_frames import SynContract, ReadsFrame, CacheFrame, FreshContextFrame, RngFrame, NameOrder, SORT_ALLOWED, EXEC_ALLOWED


class CacheHitLemma(SynContract):
    """cache_consistent => a hit returns what a miss would compute.  Spec level (uninterpreted sort Net of loaded nets of ONE context):
      key(N)   the tuple `needed`            status(N)  the set of nodes holding an output          F(N) the order a miss computes
      C03's post for the miss path:  F(N) = order_of(structure, status(N), key(N))   - all nets of one context share the structure
      KEYED (established by PoolLoader.load / BatchHandler.submit, contracts above):  key(N) = key(N') => status(N) = status(N')
      valid(c) := forall N. c has key(N) => c[key(N)] = F(N)
    Lemma: valid(c) and KEYED  =>  result(c, N) = F(N)  and  valid(c after the call), for the access pattern fixed by the cache-frame."""
    label = 'lemma-cache-hit'
    target = 'elfi/executor.py::Executor.get_execution_order'

    def obligations(self, repo):
        Net, Key, Status, Order = z3.DeclareSort('Net'), z3.DeclareSort('CKey'), z3.DeclareSort('Status'), z3.DeclareSort('Order')
        key, status, F = z3.Function('key', Net, Key), z3.Function('status', Net, Status), z3.Function('F', Net, Order)
        order_of = z3.Function('order_of', Status, Key, Order)
        has, val = z3.Function('cache_has', Key, B), z3.Function('cache_val', Key, Order)
        N, M = z3.Consts('N M', Net)
        k = z3.Const('k', Key)
        ax = [z3.ForAll([M], F(M) == order_of(status(M), key(M))),
              z3.ForAll([N, M], z3.Implies(key(N) == key(M), status(N) == status(M))),
              z3.ForAll([M], z3.Implies(has(key(M)), val(key(M)) == F(M)))]
        n = z3.Const('n', Net)
        hit = z3.If(has(key(n)), val(key(n)), F(n))
        has1 = lambda q: z3.Or(q == key(n), has(q))
        val1 = lambda q: z3.If(z3.And(q == key(n), z3.Not(has(key(n)))), F(n), val(q))
        goals = [('the result (hit or miss) is the order a miss computes on THIS net', hit == F(n)),
                 ('the cache stays valid for every net of the context', z3.ForAll([M], z3.Implies(has1(key(M)), val1(key(M)) == F(M))))]
        for nm, g in goals:
            sv = z3.Solver()
            sv.set('timeout', 10000)
            sv.add(ax)
            sv.add(z3.Not(g))
            r = sv.check()
            yield dict(kind='lemma[%s]' % nm, verdict='discharged' if r == z3.unsat else ('refuted' if r == z3.sat else 'undecided'), note='z3 over uninterpreted Net/Key/Status/Order', backend='z3-%s' % z3.get_version_string())
        # without KEYED the lemma must fail (vacuity guard of the lemma itself)
        sv = z3.Solver()
        sv.set('timeout', 10000)
        sv.add(ax[0], ax[2])
        sv.add(z3.Not(z3.ForAll([M], z3.Implies(has1(key(M)), val1(key(M)) == F(M)))))
        r = sv.check()
        yield dict(kind='lemma[KEYED is needed: without it validity is not preserved]', verdict='discharged' if r == z3.sat else 'undecided', note='expected sat: %s' % r, backend='z3-%s' % z3.get_version_string())


CONTRACTS = [RSLoad('int-cache'), RSLoad('int-nocache'), RSLoad('global'), RSLoad('unsupported'), RSCompile(),
             Generate('int-seed'), Generate('int-seed,with_values'), Generate('seed-None'),
             LoadData(), PoolLoad('pool'), PoolLoad('no-pool'), Submit('override'), Submit('no-override'), Compute(),
             ReadsFrame('elfi/executor.py::nx_constant_topological_sort', SORT_ALLOWED),
             ReadsFrame('elfi/executor.py::Executor.get_execution_order', EXEC_ALLOWED, ('nx_constant_topological_sort',)),
             SortDFS(), CacheFrame(), CacheHitLemma(), FreshContextFrame(), RngFrame(), NameOrder()]

TRUSTED_BASE = ['pyvc engine: proxies, path forking, loop cutting, instrumenter rewrites (see pyvc/README.md)',
                'pyvc.nxspec: model of networkx.DiGraph / dict heap / sets (sanity-tested on the installed networkx every run); DiGraph(G) = shallow copy that SHARES values such as graph["outputs"]',
                'contracts/c02_frames.py: the syntactic analyses (allow-lists of read forms, order taint, name-resolved call graph over-approximated by method name, guard recognition); '
                'from "never named in the source" to "never read" is the usual syntactic-frame step',
                'C15: get_sub_seed(seed, index) is a function of (seed, index) alone, in [0, high), cache kept within cache_ok (call-pre index >= 0 discharged here)',
                'C03: Executor.execute/_run run the operations once each in the order of get_execution_order and pass parent outputs by reference; the other compilers/loaders only write the net they are given (assumed by name)',
                'numpy: RandomState(seed) is a new object whose stream is a function of the seed (sanity-tested); uuid4().hex is 32 lower-case hex digits (sanity-tested)',
                'networkx: G[w] is the set of successors of w, i.e. the heads of the edges (w, .) of G (sanity-tested); sorted(S) is a permutation of S (every member occurs, sanity-tested)',
                'python str order = code-point order (sanity-tested); sorted() is stable and returns the elements in non-decreasing KEY order: a function of the SET of elements only when the key is injective on them (no key / identity - a syntactic obligation per sort call; lower/len-style keys are refuted, unknown keys undecided)',
                'z3 integer encoding of bounded-length strings for the name-order obligation (names of length <= 8)']
ASSUMPTIONS = ['A-INT, A-LOG', 'user operations draw only from the random_state they are handed and are otherwise deterministic (outside the frame)',
               "node names are strings; '_random_state' is reserved (not a user node); user names do not start with '_'",
               'BatchHandler.submit(batch): override keys are requested outputs that still have an operation after loading (precondition; single call site ParameterInference.iterate '
               'passes parameter names - monitored natively in the thorough bounded run for SMC)',
               'one ComputationContext serves one compiled net (ElfiModel.generate, ModelPrior, ParameterInference each create their own)',
               'the paper argument `conjunction of the contracts => purity` (module docstring) is not machine-checked']
NOT_PROVED = ['"running a sampler": the OWN randomness of the samplers (SMC proposals, BOLFI acquisition / MCMC, BSL) is outside this frame (C07/C09/C11/C16/C20); under contract here is the '
              'batch-generation path every sampler shares; bounded: seeded Rejection (quick) and SMC (thorough) runs repeat bit-identically',
              'identical results "for the native and multiprocessing clients" (OS processes, pickling): not decidable by contracts; worker = Executor.execute on a faithful pickle copy is assumed',
              'purity as a single statement (hyper-property over two runs): reached only through the per-function contracts plus the paper argument',
              'nx_constant_topological_sort: NetworkXUnfeasible is raised ONLY on graphs with a cycle (no spurious raise on a DAG): bounded only (all DAGs <= 4/5 nodes); termination of the DFS: not proved; '
              'a caller-supplied nbunch: not under contract (get_execution_order passes none). Proved (SMT, all graphs, reverse=False and reverse=True): reads-frame, on every normal exit '
              'the result lists exactly the node set, each node once, in a TOPOLOGICAL order (every edge (u, v): u before v; reverse=True: u after v) - hence no normal exit on a graph with a cycle',
              'Executor.get_execution_order body (miss path): C03; here only its reads-frame, cache-access frame and the cache-hit lemma',
              'two private constants of the SAME owner change places when suffixes are re-drawn: harmless by a paper argument (both are parent-less with the single child), exercised by the bounded stand-in']


def sanity():
    import uuid
    import numpy as np
    out = list(nxspec.sanity())
    a, b = np.random.RandomState(123), np.random.RandomState(123)
    out.append(('RandomState(seed): new object, stream a function of the seed', a is not b and a.randint(2 ** 31, size=5).tolist() == b.randint(2 ** 31, size=5).tolist()))
    st = np.random.get_state()
    np.random.RandomState(5).rand(3)
    out.append(('constructing / drawing from a RandomState leaves the global generator untouched', np.random.get_state()[1].tolist() == st[1].tolist() and np.random.get_state()[2] == st[2]))
    h = uuid.uuid4().hex
    out.append(('uuid4().hex is 32 lower-case hex digits', len(h) == 32 and all(c in '0123456789abcdef' for c in h)))
    out.append(('python str order is code-point order, a proper prefix sorts first', sorted(['_a_b_0', '_a_3', '_a_f', 'A', 'a', '_a']) == ['A', '_a', '_a_3', '_a_b_0', '_a_f', 'a']))
    out.append(('sorted() of a set is independent of insertion order', sorted({'b': 1, 'a': 2}) == sorted({'a': 2, 'b': 1}) == ['a', 'b']))
    import networkx as nx
    G = nx.DiGraph(outputs={'x'})
    K = nx.DiGraph(G)
    out.append(('nx.DiGraph(G) shares graph attribute VALUES (the outputs set)', K.graph is not G.graph and K.graph['outputs'] is G.graph['outputs']))
    D = nx.DiGraph([('a', 'c'), ('a', 'b'), ('d', 'a')])
    out.append(('G[w] iterates over exactly the successors of w (the heads of the edges (w, .)); sorted() returns every member once', sorted(D['a']) == ['b', 'c'] and sorted(D['c']) == []
                and set(D['a']) == {v for (u, v) in D.edges if u == 'a'} and D.is_directed()))
    return out


def bounded(tier, seed):
    from bounded import c02 as b
    out = []
    for name, f in (('seeded-runs-end-to-end', b.run), ('sort-all-small-dags', b.run_sort), ('f14-two-priors-rebuilt', b.run_f14),
                    ('pool-stores-one-stochastic-node', b.run_pool_partial), ('pool-result-keys', b.run_outputs_shared),
                    ('context-history', b.run_context_history), ('sort-across-hash-seeds', b.run_sort_hash_seeds)):
        try:
            out.append(f(tier, seed))
        except Exception as e:          # the tree under analysis crashed inside a probe: a failing input, not a checker error
            out.append(dict(name=name, bound='(probe crashed)', rule='', cases=1, nontrivial=0,
                            failures=[dict(signature='c02:exception', what='%s: %s' % (type(e).__name__, str(e)[:200]), input=dict(probe=name))]))
    return out


_replay_cache = {}


def _end_to_end():
    from bounded import c02 as b
    if 'e2e' not in _replay_cache:
        _replay_cache['e2e'] = b.run('quick', 0, first_failure_only=False, n_models=30)
    return _replay_cache['e2e']


def replay_refuted(cname, rf):
    """a failing native input for a refuted obligation: the dedicated probe of the clause first, then the end-to-end harness"""
    from bounded import c02 as b
    from pyvc import native
    if 'F14-name-order' in cname:
        elfi = native.import_elfi()
        w = rf.get('witness') or {}
        if w.get('kind') == 'two-priors':
            what = b.f14_forced(elfi, w)
            if what:
                return dict(found=True, input=dict(w, probe='f14-forced'), observed=what)
        r = b.run_f14('quick', 0)
        if r['failures']:
            return dict(found=True, input=r['failures'][0]['input'], observed=r['failures'][0]['what'])
        return dict(found=False, searched=r['bound'])
    if cname.startswith('PoolLoader.load') and 'pure reuse' in rf.get('kind', ''):
        r = b.run_pool_partial('quick', 0)
        if r['failures']:
            return dict(found=True, input=r['failures'][0]['input'], observed=r['failures'][0]['what'])
        return dict(found=False, searched=r['bound'])
    if 'load_data' in cname and 'REQUESTED OUTPUTS' in rf.get('kind', ''):
        r = b.run_outputs_shared('quick', 0)
        if r['failures']:
            return dict(found=True, input=r['failures'][0]['input'], observed=r['failures'][0]['what'])
        return dict(found=False, searched=r['bound'])
    if cname.startswith('nx_constant_topological_sort'):
        if 'sort' not in _replay_cache:
            _replay_cache['sort'] = b.run_sort('thorough', 0)
        r = _replay_cache['sort']
        if r['failures']:
            return dict(found=True, input=r['failures'][0]['input'], observed=r['failures'][0]['what'])
    r = _end_to_end()
    want = {'ElfiModel.generate': ['c02:global-rng-seed0', 'c02:global-rng'], 'global-rng-frame': ['c02:global-rng', 'c02:global-rng-seed0', 'c02:one-generator'],
            'RandomStateLoader': ['c02:global-rng', 'c02:history', 'c02:request-order', 'c02:compute-vs-generate', 'c02:batches-share-stream'],
            'RandomStateCompiler': ['c02:one-generator', 'c02:exception'], 'load_data': ['c02:history', 'c02:request-order', 'c02:exception'],
            'get_execution_order': ['c02:insertion-order', 'c02:history', 'c02:request-order'], 'PoolLoader': ['c02:pool-reuse', 'c02:exception'],
            'BatchHandler': ['c02:request-order', 'c02:compute-vs-generate', 'c02:exception']}
    pref = [sig for key, sigs in want.items() if key in cname for sig in sigs]
    fs = sorted(r['failures'], key=lambda f: (f['signature'] not in pref))
    if fs:
        return dict(found=True, input=fs[0]['input'], observed=fs[0]['what'], signature=fs[0]['signature'])
    return dict(found=False, searched=r['bound'], cases=r['cases'])


def replay_input(inp):
    from bounded import c02 as b
    if 'probe' not in inp and isinstance(inp.get('input'), dict):      # a bounded failure record: {signature, what, input}
        inp = inp['input']
    return b.replay_input(inp)
