"""C02 - Seeded runs are pure functions of (model, seed, configuration).

Purity ("two runs with equal (model, seed, batch index/size, outputs) give bit-identical results whatever happened
before") is a statement about TWO runs; it cannot be the postcondition of one call.  It is decomposed into the
per-function contracts below.  THE IMPLICATION `conjunction => purity` IS A PAPER ARGUMENT (this docstring); IT IS NOT
MACHINE-CHECKED.  Each numbered clause is checked on the real source as stated in brackets.

  (1) RandomStateLoader.load  [SMT, all graphs]: with an integer seed the `_random_state` node receives, under 'output',
      a NEW generator object RandomState(sub_seed(seed, batch_index)) at stream position 0 and nothing else in the net,
      the heap or the graph structure changes; sub_seed is get_sub_seed's result, which by C15 is a function of
      (seed, index) alone - the sub-seed cache is only handed to get_sub_seed (call-pre: index >= 0, cache_ok).
      `get_np_random` is stored only when seed == 'global' (SMT case + syntactic guard obligation).
  (2) RandomStateCompiler.compile  [SMT, visited-set invariant, hence for every iteration order of the node set]:
      stochastic(x) <=> edge(_random_state -> x) with param 'random_state'; `_random_state` exists iff some node is
      stochastic; everything else is unchanged.
  (3) Executor.execute / _run  [ASSUMED BY NAME from C03]: operations run once each in the order returned by
      get_execution_order and receive the parents' outputs by reference - so every stochastic operation of one batch is
      handed the ONE generator object of (1), in that order.
  (4) nx_constant_topological_sort, Executor.get_execution_order  [syntactic reads-frame over the real AST, fail closed;
      SMT for the DFS bookkeeping]: the graph is read only through is_directed(), sorted(G.nodes()), sorted(G[w]),
      membership (resp. G.graph['outputs'], 'operation' in G.nodes[n], G.edges as a set, nx.ancestors, sort_order) and
      no iteration order of a set / graph view reaches the result.  With sorted()'s contract (a function of the SET of
      its elements and their total order) the result is a function of (node set, edge set) - not of insertion order.
      [bounded: that the result is a topological order, all DAGs <= 5 nodes.]
  (5) Global-RNG frame  [syntactic, over the functions the seeded path consists of, fail closed]: the only reference to
      numpy's random module reachable with an integer seed is the SEEDED constructor RandomState(<arg>); get_np_random
      and random_seed are guarded by seed == 'global' / seed is None.  ElfiModel.generate [SMT on the real body] hands
      its integer seed unchanged to the ComputationContext and loads batch 0 (seed 0 is an integer seed).
  (6) Executor cache  [SMT for the writers, syntactic for the reader, lemma for the hit]: ClientBase.load_data installs
      exactly context.caches['executor']; get_execution_order touches the cache only as `needed in cache`,
      cache['sort_order'], cache[needed]; a hit is sound when the set of nodes holding an output is a function of the key
      `needed` (cache_consistent).  PoolLoader.load [SMT] establishes it (a stored node is either loaded - output, no
      operation - or a requested output that still has its operation, so its status is readable from `needed`);
      BatchHandler.submit [SMT] establishes it under `override keys are requested outputs` (precondition; its single call
      site passes parameter names, which every inference method requests - checked natively in the bounded harness).

Paper argument.  Fix model M, integer seed s, batch index i, batch size b, outputs O.  compile(M, O) is C03's business;
its `_random_state` wiring is (2).  load_data copies the compiled net (nx.DiGraph(G): new dicts) and by (1) the only
seed-dependent datum in the loaded net is one fresh generator seeded by sub_seed(s, i), a function of (s, i) by C15.  By
(4)+(6) the execution order is a function of (node set, edge set, nodes holding outputs, O), none of which depends on
history, np.random, or insertion order.  By (3) the operations are applied in that order to that generator; user
operations are outside the frame and ASSUMED to draw only from the random_state they are handed.  By (5) nothing on the
path reads or writes the process-global generator.  numpy's RandomState(seed) stream is a function of the seed (assumed,
sanity-tested).  Hence the outputs are a function of (M, s, i, b, O).                                             [] (paper)

Refuted on the unchanged tree (F14, KNOWN FINDING C02-F14): "node set" in (4) includes the RANDOMLY NAMED private
constants `_<owner>_<4 hex>`; the obligation "re-drawing the suffixes is an order isomorphism of the sort key" fails for
owners x, x_<c...>: the two constants change places, so do the two user nodes in the execution order, so do their draws.
"""
MANIFEST = {
    'category': 'proof',
    'text': 'Purity of seeded runs is decomposed into per-function contracts on the real source: RandomStateLoader.load (the only seed-dependent '
            'datum of a loaded net is a new RandomState(sub_seed(seed, batch_index)) at position 0; frame), RandomStateCompiler.compile '
            '(stochastic(x) <=> random_state edge, by a visited-set invariant), ElfiModel.generate / ClientBase.load_data / PoolLoader.load / '
            'BatchHandler.submit / BatchHandler.compute (seed hand-over, executor cache identity and consistency) are SMT obligations over a '
            'symbolic networkx graph and dict heap; the reads-frame of nx_constant_topological_sort and Executor.get_execution_order, the '
            'global-RNG frame of the seeded path and the cache-access frame are syntactic obligations over the real AST (allow-lists, fail closed); '
            'the DFS bookkeeping of the sort (result = the node set, each node once) is an SMT contract with three nested loop invariants. '
            'The conjunction implies purity by a paper argument that is NOT machine-checked. End-to-end bit-identity under perturbed histories is '
            'the labelled bounded stand-in and the replay vehicle.',
    'note': 'Trusted: pyvc engine, pyvc.nxspec, the syntactic analyses of this module (allow-lists), C15 (get_sub_seed) and C03 (Executor.execute/_run, '
            'other compilers) assumed by name, numpy RandomState(seed) is a function of the seed, user operations draw only from the random_state they are '
            'handed. Not decided: multiprocessing client, purity as one statement. Known finding C02-F14 (random suffixes of private constant names reach '
            'the execution order when one user name extends another).',
    'technique': 'deductive: SMT VCs from the real AST over a symbolic graph + dict heap (pyvc, z3/cvc5), z3 string theory for the name-order obligation, '
                 'syntactic frame obligations over the real AST; bounded stand-in: generated models <= 5 nodes x histories x insertion orders, all DAGs <= 5 nodes',
}

import ast
import json
import os
import time

import z3

from pyvc import instrument, nxspec, npspec
from pyvc.core import cur, OutOfSubset, program_exception, forall_range
from pyvc.engine import Contract, Loop, NS, Stub
from pyvc.nxspec import SDiGraph, SDict, SVal, SNodeName, SNodeSet, SList, SNameList, Heap, theory
from pyvc.values import SInt, SBool, Sym, lift

from contracts.c15 import CacheDict, RandomStateSpec, PrefixSet, cache_ok

I = z3.IntSort()
B = z3.BoolSort()
SUBSEED = z3.Function('sub_seed', I, I, I)      # get_sub_seed(seed, index): by C15 a function of (seed, index) only
HIGH = 2 ** 31                                  # default `high` of get_sub_seed

RS_NAME = '_random_state'
LITS = nxspec.DEFAULT_LITS + ('operation', 'outputs', '_executor_cache', 'name')
LITS = tuple(dict.fromkeys(LITS))


# ====================================================================== reserved (concrete) node names and strings
def name_const(th, s):
    """the Node constant that stands for the concrete name `s` written as a literal in the analysed code"""
    return z3.Const('name:' + s, th.Node)


def str_const(th, s):
    return z3.Const('str:' + s, th.Str)


def reserved_facts(th, names):
    out = []
    for i, a in enumerate(names):
        out.append(th.private(name_const(th, a)) if a.startswith('_') else z3.Not(th.private(name_const(th, a))))
        for b in names[i + 1:]:
            out.append(name_const(th, a) != name_const(th, b))
    return out


def _n(th, x):
    return SNodeName(name_const(th, x)) if isinstance(x, str) else x


class NGraph(SDiGraph):
    """SDiGraph that also accepts the reserved names the analysed code writes as string literals ('_random_state') and
    a literal str as edge param"""

    def has_node(self, n):
        return SDiGraph.has_node(self, _n(self.th, n))

    def __contains__(self, n):
        return bool(self.has_node(n))

    def node_data(self, n, why='G.nodes[n]'):
        return SDiGraph.node_data(self, _n(self.th, n), why)

    def add_node(self, n, **attr):
        return SDiGraph.add_node(self, _n(self.th, n), **attr)

    def add_edge(self, u, v, **attr):
        if isinstance(attr.get('param'), str):
            attr = dict(attr, param=str_const(self.th, attr['param']))
        return SDiGraph.add_edge(self, _n(self.th, u), _n(self.th, v), **attr)


def same_structure(th, g0, g1):
    return z3.And(th.forall_nodes(lambda x: z3.And(g1.node(x) == g0.node(x), g1.nattr(x) == g0.nattr(x))),
                  th.forall_nodes(lambda u, v: z3.And(g1.edge(u, v) == g0.edge(u, v), g1.param(u, v) == g0.param(u, v)), 2),
                  g1.gref == g0.gref)


def heap_same_except(th, h0, h1, changed):
    return z3.And(th.forall_ref_key(lambda r, k: z3.Implies(z3.Not(changed(r, k)), z3.And(h1.has(r, k) == h0.has(r, k), h1.val(r, k) == h0.val(r, k)))),
                  th.forall_refs(lambda r: h1.alloc(r) == h0.alloc(r)))


# ====================================================================== numpy.random.RandomState as a heap object
class RSObj:
    """a numpy RandomState OBJECT (identity matters: it is stored in the net and shared by the operations)"""

    def __init__(self, const):
        self.const = const


def rs_fns(th):
    return (z3.Function('is_rs', th.Obj, B), z3.Function('rs_seed', th.Obj, I), z3.Function('rs_pos', th.Obj, I))


def make_random_module(th, H):
    """what `np.random` is for the analysed code: RandomState(seed) = a NEW object, seeded, at stream position 0"""
    import numpy as np
    is_rs, rs_seed, rs_pos = rs_fns(th)

    class RandomState:
        _vc_models = np.random.RandomState

        def __new__(cls, seed=None):
            vc = cur()
            if seed is None:
                vc.oblige('call-pre[RandomState is constructed from a seed (RandomState() reads OS entropy)]', z3.BoolVal(False))
                raise OutOfSubset('RandomState() without a seed')
            o = RSObj(None)
            v = th.opaque(o)
            c = th.Val.obj_of(v)
            o.const = c
            sd = lift(seed)
            if not isinstance(sd, SInt):
                raise OutOfSubset('RandomState(%s)' % type(seed).__name__)
            vc.oblige('call-pre[RandomState seed in [0, 2**32)]', z3.And(sd.t >= 0, sd.t < 2 ** 32))
            # library contract: a new object (not stored anywhere yet), seeded, nothing drawn
            vc.assume(is_rs(c), rs_seed(c) == sd.t, rs_pos(c) == 0,
                      th.forall_ref_key(lambda r, k: H.val(r, k) != v))
            vc.libcall('RandomState', dict(obj=o, const=c, seed=sd.t))
            return o

    class _Mtrand:
        def __getattr__(self, k):
            cur().oblige('frame[global numpy generator np.random.mtrand.%s is not touched]' % k, z3.BoolVal(False))
            raise OutOfSubset('np.random.mtrand.%s' % k)

    class _Random:
        mtrand = _Mtrand()

        def __getattr__(self, k):
            cur().oblige('frame[global numpy generator np.random.%s is not touched]' % k, z3.BoolVal(False))
            raise OutOfSubset('np.random.%s' % k)
    r = _Random()
    r.__dict__['RandomState'] = RandomState
    return r


def np_module(th, H):
    import numpy as np
    return npspec.module(extra={'random': make_random_module(th, H), 'int32': np.int32, 'uint32': np.uint32, 'int64': np.int64})


# ====================================================================== (1) RandomStateLoader.load
def stub_get_sub_seed(vc, seed, sub_seed_index, high=HIGH, cache=None):
    """callee under contract C15/get_sub_seed: call-pre index >= 0 (and the cache invariant), ValueError iff index >= high,
    result = the (index+1)-th distinct value of the stream of `seed` - a function of (seed, index) alone (C15 post + lemma
    unique_position); the cache is havocked within cache_ok"""
    sd, ix = lift(seed), lift(sub_seed_index)
    if not isinstance(sd, SInt) or not isinstance(ix, SInt):
        raise OutOfSubset('get_sub_seed(%s, %s)' % (type(seed).__name__, type(sub_seed_index).__name__))
    vc.oblige('call-pre[get_sub_seed: sub_seed_index >= 0]', ix.t >= 0)
    if cache is not None:
        if not isinstance(cache, CacheDict):
            raise OutOfSubset('get_sub_seed cache of type %s' % type(cache).__name__)
        vc.oblige('call-pre[get_sub_seed: cache is {} or a stream prefix of the same seed (cache_ok)]', cache_ok(cache))
    if vc.branch(ix.t >= high):
        raise program_exception(ValueError('Sub seed index is out of range'))
    if cache is not None:
        cache.nonempty = z3.BoolVal(True)
        p = vc.fresh_int('cache_pos')
        cache.rs.pos = p
        cache.seen.p = p
        vc.assume(p >= 0)
    r = SUBSEED(sd.t, ix.t)
    vc.assume(r >= 0, r < high)
    return SInt(r)


class C02Graph(Contract):
    prop = 'C02'
    fin = 3
    nodes, refs = 3, 8
    reserved = (RS_NAME,)

    def base(self, vc, graphs=('G',)):
        th = theory(vc, nodes=self.nodes, refs=self.refs, lits=LITS)
        H = Heap(th)
        th.default_heap = H
        s = NS(th=th, H=H, vc=vc)
        for g in graphs:
            setattr(s, g, NGraph(H, g, 'sym'))
            setattr(s, g + '0', getattr(s, g).snap())
        s.h0 = H.snap()
        s.RS = name_const(th, RS_NAME)
        return s

    def witness(self, vc, model, ob):
        return dict(note='counter-model is a symbolic graph over the finitised node universe; replayed by the bounded end-to-end harness')


class RSLoad(C02Graph):
    target = 'elfi/loader.py::RandomStateLoader.load'

    def __init__(self, case):
        self.case = self.label = case          # int-cache | int-nocache | global | unsupported

    def env(self, vc):
        s = vc._s
        s.gnr = _GetNpRandom()
        return {'np': np_module(s.th, s.H), 'get_sub_seed': Stub('get_sub_seed', stub_get_sub_seed, checked_by='C15/get_sub_seed'),
                'get_np_random': s.gnr}

    def setup(self, vc):
        s = self.base(vc)
        s.seed_t, s.idx = z3.Int('seed'), z3.Int('batch_index')
        vc.fin_bounds.extend([s.seed_t, s.idx])
        caches = {'executor': {}}
        s.cache = None
        if self.case == 'int-cache':
            P = z3.Int('cache_pos')
            s.cache = CacheDict(z3.Bool('cache_nonempty'), RandomStateSpec(P), PrefixSet(P))
            caches['sub_seed'] = s.cache
            vc.fin_bounds.append(P)
        seed = {'global': 'global', 'unsupported': 1.5}.get(self.case)
        if seed is None:
            seed = SInt(s.seed_t)
        s.context = _Context(seed, caches)
        return s, (None, s.context, s.G, SInt(s.idx)), {}

    def requires(self, s):
        return [s.G.wf(), s.idx >= 0, s.seed_t >= 0, cache_ok(s.cache)] + reserved_facts(s.th, list(self.reserved))

    def raises(self, s):
        if self.case == 'unsupported':
            return {'ValueError': z3.BoolVal(True)}
        if self.case.startswith('int'):
            return {'ValueError': s.idx >= HIGH}
        return {}

    def iff_raises(self, s):
        if self.case.startswith('int'):
            return [('normal return only for a servable batch index', s.idx < HIGH)]
        return []

    @property
    def cover(self):
        return self.case != 'unsupported'

    def ensures(self, s, result):
        th, g0, h0, g1, h1 = s.th, s.G0, s.h0, s.G.snap(), s.H.snap()
        V = th.Val
        is_rs, rs_seed, rs_pos = rs_fns(th)
        key = th.klit('output' if self.case.startswith('int') else 'operation')
        slot = lambda r, k: z3.And(g0.node(s.RS), r == g0.nattr(s.RS), k == key)
        v = h1.val(g0.nattr(s.RS), key)
        out = [('the net handed in is returned', z3.BoolVal(result is s.G)),
               ('frame: nodes, edges, params, data-dict identities and the graph dict are unchanged', same_structure(th, g0, g1)),
               ('frame: no dict slot other than the %s slot of _random_state is written; nothing is allocated' % ('output' if self.case.startswith('int') else 'operation'),
                heap_same_except(th, h0, h1, slot))]
        if self.case.startswith('int'):
            o = V.obj_of(v)
            out += [('the _random_state node outputs RandomState(get_sub_seed(seed, batch_index)) at stream position 0',
                     z3.Implies(g0.node(s.RS), z3.And(h1.has(g0.nattr(s.RS), key), V.is_vobj(v), is_rs(o),
                                                      rs_seed(o) == SUBSEED(s.seed_t, s.idx), rs_pos(o) == 0))),
                    ('the generator is a new object: no dict of the old heap holds it (no generator is shared between batches)',
                     z3.Implies(g0.node(s.RS), th.forall_ref_key(lambda r, k: z3.Implies(h0.has(r, k), h0.val(r, k) != v)))),
                    ('the sub-seed cache stays usable by any later request (cache_ok)', cache_ok(s.cache))]
        else:
            out += [('seed == "global": the getter (not a generator) is stored, to be evaluated in the worker',
                     z3.Implies(g0.node(s.RS), z3.And(h1.has(g0.nattr(s.RS), key), v == th.opaque(s.gnr))))]
        return out


class _GetNpRandom:
    """the function object elfi.loader.get_np_random (never called by the loader)"""

    def __call__(self):
        cur().oblige('frame[get_np_random is not CALLED while loading]', z3.BoolVal(False))
        raise OutOfSubset('get_np_random() called')


class _Context:
    """ComputationContext as the loaders see it: seed, caches (a plain dict), batch_size, pool, num_submissions"""

    def __init__(self, seed, caches, pool=None):
        self.seed, self.caches, self.pool = seed, caches, pool


# ====================================================================== (2) RandomStateCompiler.compile
def stateref(th, g, h, n):
    return th.Val.ref_of(h.val(g.nattr(n), th.klit('attr_dict')))


def stochastic(th, g, h, n):
    """spec: node n of the source net is stochastic <=> its state dict carries the '_stochastic' flag (written only by
    elfi.model.elfi_model.StochasticMixin, always as True)"""
    return h.has(stateref(th, g, h, n), th.klit('_stochastic'))


def source_rep(th, g, h):
    """every source node's data dict holds its state dict under 'attr_dict' (GraphicalModel.add_node, C14)"""
    A = th.klit('attr_dict')
    return th.forall_nodes(lambda n: z3.Implies(g.node(n), z3.And(h.has(g.nattr(n), A), th.Val.is_vref(h.val(g.nattr(n), A)), h.alloc(stateref(th, g, h, n)))))


class RSCompile(C02Graph):
    target = 'elfi/compiler.py::RandomStateCompiler.compile'
    fin = 3

    def setup(self, vc):
        s = self.base(vc, graphs=('S', 'C'))
        return s, (None, s.S, s.C), {}

    def requires(self, s):
        th, S, C, RS = s.th, s.S0, s.C0, s.RS
        return [s.S.wf(), s.C.wf(), source_rep(th, S, s.h0),
                ('OutputCompiler ran first: every source node is a node of the compiled net', th.forall_nodes(lambda x: z3.Implies(S.node(x), C.node(x)))),
                ("'_random_state' is reserved: not a source node, not yet in the compiled net",
                 z3.And(z3.Not(S.node(RS)), z3.Not(C.node(RS)), th.forall_nodes(lambda x: z3.And(z3.Not(C.edge(RS, x)), z3.Not(C.edge(x, RS))))))] \
            + reserved_facts(th, list(self.reserved))

    def _inv(self, s, l):
        th, S, C0, C, h0, H, RS = s.th, s.S0, s.C0, s.C, s.h0, s.H, s.RS
        vis = l.it.visited
        P = th.Param
        st = lambda x: stochastic(th, S, h0, x)
        done = lambda x: z3.And(vis(x), st(x))
        rsp = P.pname(str_const(th, 'random_state'))
        return [('edges: old edges + (_random_state -> x) for the visited stochastic x',
                 th.forall_nodes(lambda u, v: C.edge(u, v) == z3.Or(C0.edge(u, v), z3.And(u == RS, done(v))), 2)),
                ('params: new edges carry random_state, old ones are untouched',
                 th.forall_nodes(lambda u, v: C.param(u, v) == z3.If(z3.And(u == RS, done(v)), rsp, C0.param(u, v)), 2)),
                ('nodes: old nodes, plus _random_state iff a visited node is stochastic',
                 z3.And(th.forall_nodes(lambda x: z3.Implies(x != RS, C.node(x) == C0.node(x))),
                        C.node(RS) == th.exists_nodes(lambda x: done(x)))),
                ('data dicts of the old nodes keep their identity', th.forall_nodes(lambda x: z3.Implies(C0.node(x), C.nattr(x) == C0.nattr(x)))),
                ('no dict of the old heap is written', th.forall_ref_key(lambda r, k: z3.Implies(h0.alloc(r), z3.And(H.has(r, k) == h0.has(r, k), H.val(r, k) == h0.val(r, k))))),
                ('allocation only grows; the new data dict is not an old one',
                 z3.And(th.forall_refs(lambda r: z3.Implies(h0.alloc(r), H.alloc(r))),
                        z3.Implies(C.node(RS), z3.And(H.alloc(C.nattr(RS)), z3.Not(h0.alloc(C.nattr(RS))), C.nattr(RS) != C.gref)))),
                ('the source net and the graph dicts are not touched', z3.And(same_structure(th, S, s.S.snap()), C.gref == C0.gref))]

    @property
    def loops(self):
        return {0: Loop(inv=self._inv, modifies=lambda s, l: [s.C, s.H])}

    def ensures(self, s, result):
        th, S, C0, C1, h0, h1, RS = s.th, s.S0, s.C0, s.C.snap(), s.h0, s.H.snap(), s.RS
        P = th.Param
        st = lambda x: z3.And(S.node(x), stochastic(th, S, h0, x))
        rsp = P.pname(str_const(th, 'random_state'))
        return [('the compiled net handed in is returned', z3.BoolVal(result is s.C)),
                ("forall x. stochastic(x) <=> edge(_random_state -> x) with param 'random_state'",
                 th.forall_nodes(lambda x: z3.And(C1.edge(RS, x) == st(x), z3.Implies(st(x), C1.param(RS, x) == rsp)))),
                ('_random_state exists iff some node is stochastic', C1.node(RS) == th.exists_nodes(lambda x: st(x))),
                ('frame: no other node or edge is added or removed, params of the other edges are kept',
                 z3.And(th.forall_nodes(lambda x: z3.Implies(x != RS, C1.node(x) == C0.node(x))),
                        th.forall_nodes(lambda u, v: z3.Implies(u != RS, z3.And(C1.edge(u, v) == C0.edge(u, v), C1.param(u, v) == C0.param(u, v))), 2))),
                ('frame: data dicts of the old nodes and every dict of the old heap are unchanged (the source net is only read)',
                 z3.And(th.forall_nodes(lambda x: z3.Implies(C0.node(x), C1.nattr(x) == C0.nattr(x))),
                        th.forall_ref_key(lambda r, k: z3.Implies(h0.alloc(r), z3.And(h1.has(r, k) == h0.has(r, k), h1.val(r, k) == h0.val(r, k)))),
                        same_structure(th, S, s.S.snap()))),
                ('networkx invariant kept', s.C.wf())]



# ====================================================================== (5) ElfiModel.generate: the seed hand-over
class _Rec:
    """records the calls the analysed body makes on its collaborators (ComputationContext, OutputPool, the client)"""

    def __init__(self):
        self.calls = []

    def add(self, what, **kw):
        self.calls.append((what, kw))
        return kw

    def of(self, what):
        return [kw for w, kw in self.calls if w == what]


class _Tok:
    def __init__(self, what):
        self.what = what

    def __repr__(self):
        return '<%s>' % self.what


def _generate_env(rec):
    class ComputationContext:
        def __init__(self, batch_size=None, seed=None, pool=None):
            self.batch_size, self.seed, self.pool = batch_size, seed, pool
            rec.add('context', ctx=self, batch_size=batch_size, seed=seed, pool=pool)

    class OutputPool:
        def __init__(self, outputs=None, name=None, prefix=None):
            rec.add('pool', pool=self, outputs=outputs)

        def add_batch(self, batch, batch_index):
            rec.add('add_batch', pool=self, batch=batch, batch_index=batch_index)

    class _Client:
        def compile(self, source_net, outputs=None):
            t = _Tok('compiled_net')
            rec.add('compile', source_net=source_net, outputs=outputs, result=t)
            return t

        def load_data(self, compiled_net, context, batch_index):
            t = _Tok('loaded_net')
            rec.add('load_data', compiled_net=compiled_net, context=context, batch_index=batch_index, result=t)
            return t

        def compute(self, loaded_net):
            t = _Tok('result')
            rec.add('compute', loaded_net=loaded_net, result=t)
            return t

    client = _Client()

    class _ClientModule:
        @staticmethod
        def get_client():
            rec.add('get_client')
            return client

    class _Elfi:
        client = _ClientModule
    return {'ComputationContext': ComputationContext, 'OutputPool': OutputPool, 'elfi': _Elfi}


class _WithValues:
    """the `with_values` dict of generate: only handed on"""

    def keys(self):
        return _Tok('with_values.keys()')


class Generate(C02Graph):
    target = 'elfi/model/elfi_model.py::ElfiModel.generate'
    fin = 3

    def __init__(self, case):
        self.case = self.label = case          # int-seed | int-seed,with_values | seed-None

    def env(self, vc):
        return _generate_env(vc._s.rec)

    def setup(self, vc):
        s = self.base(vc)
        s.rec = _Rec()
        s.seed_t, s.bs = z3.Int('seed'), z3.Int('batch_size')
        vc.fin_bounds.extend([s.seed_t, s.bs])
        s.seed = None if self.case == 'seed-None' else SInt(s.seed_t)
        s.bsz = SInt(s.bs)
        s.outputs = [SNodeName(z3.Const('out0', s.th.Node))]
        s.wv = _WithValues() if 'with_values' in self.case else None
        s.m = _Model(s.G)
        return s, (s.m, s.bsz, s.outputs), dict(with_values=s.wv, seed=s.seed)

    def requires(self, s):
        return [s.G.wf(), s.seed_t >= 0, s.bs >= 0]

    def ensures(self, s, result):
        rec = s.rec
        ctxs, loads, comps, compiles = rec.of('context'), rec.of('load_data'), rec.of('compute'), rec.of('compile')
        one = len(ctxs) == 1 and len(loads) == 1 and len(comps) == 1 and len(compiles) == 1
        out = [('one context, one compile, one load_data, one compute', z3.BoolVal(one))]
        if not one:
            return out
        c, l, k, cp = ctxs[0], loads[0], comps[0], compiles[0]
        if self.case == 'seed-None':
            out.append(("seed None -> the context is created with seed 'global' (documented default)", z3.BoolVal(isinstance(c['seed'], str) and c['seed'] == 'global')))
        else:
            sd = c['seed']
            out.append(('an INTEGER seed is handed to the ComputationContext unchanged (seed 0 is an integer seed, not "global")',
                        (sd.t == s.seed_t) if isinstance(sd, SInt) else z3.BoolVal(False)))
        out += [('the context gets the requested batch size', (c['batch_size'].t == s.bs) if isinstance(c['batch_size'], SInt) else z3.BoolVal(False)),
                ('the pool is given exactly when values are given', z3.BoolVal((c['pool'] is None) == (s.wv is None))),
                ('the net compiled from this model for the requested outputs is loaded with THAT context as batch 0',
                 z3.And(z3.BoolVal(cp['source_net'] is s.G and cp['outputs'] is s.outputs and l['compiled_net'] is cp['result'] and l['context'] is c['ctx']),
                        lift(l['batch_index']).t == 0)),
                ('the result is the computed loaded net', z3.BoolVal(k['loaded_net'] is l['result'] and result is k['result']))]
        return out


class _Model:
    def __init__(self, G):
        self.source_net = G


# ====================================================================== (6) executor cache: load_data, PoolLoader.load, BatchHandler.submit / compute
class HeapSet(Sym):
    """a python set of node names that lives on the heap (identity = ref; members = the knode keys of that heap object).
    Used for graph['outputs'], which nx.DiGraph(G) SHARES between the compiled net and every loaded net."""

    def __init__(self, heap, ref):
        self.heap, self.ref, self.t = heap, ref, None

    def mem(self, x):
        return self.heap.has(self.ref, self.heap.th.knode(x))

    def __contains__(self, x):
        return bool(SBool(self.mem(nxspec._name_t(x))))

    def add(self, x):
        self.heap.write(self.ref, self.heap.th.knode(nxspec._name_t(x)), self.heap.th.Val.vnone)

    __hash__ = Sym.__hash__


class _GraphDict(SDict):
    """G.graph: the entry 'outputs' is a set of names on the heap"""

    def __getitem__(self, k):
        v = SDict.__getitem__(self, k)
        if k == 'outputs':
            th = self.heap.th
            nxspec._need("call-pre[graph['outputs'] is a set object]", th.Val.is_vref(v.t))
            return HeapSet(self.heap, th.Val.ref_of(v.t))
        return v

    __hash__ = Sym.__hash__


class OGraph(NGraph):
    @property
    def graph(self):
        return _GraphDict(self.heap, self.gref)


def outs_ref(th, g, h):
    return th.Val.ref_of(h.val(g.gref, th.klit('outputs')))


def is_output(th, g, h, x):
    return h.has(outs_ref(th, g, h), th.knode(x))


def has_op(th, g, h, x):
    return h.has(g.nattr(x), th.klit('operation'))


def has_out(th, g, h, x):
    return h.has(g.nattr(x), th.klit('output'))


def outputs_rep(th, g, h):
    """graph['outputs'] is a set object of its own (not one of the graph's dicts)"""
    O = th.klit('outputs')
    o = outs_ref(th, g, h)
    return z3.And(h.has(g.gref, O), th.Val.is_vref(h.val(g.gref, O)), h.alloc(o), o != g.gref,
                  th.forall_nodes(lambda x: z3.Implies(g.node(x), o != g.nattr(x))))


class _Batch:
    """pool.get_batch(i): a dict {node name: stored value} - membership `inb` and value `bval` are arbitrary"""

    def __init__(self, th, vc):
        f = vc.fresh_fn('in_batch', th.Node, B)
        v = vc.fresh_fn('batch_value', th.Node, th.Val)
        self.inb, self.bval, self.th = (lambda x: f(x)), (lambda x: v(x)), th

    def __contains__(self, x):
        return bool(SBool(self.inb(nxspec._name_t(x))))

    def __getitem__(self, x):
        x = nxspec._name_t(x)
        nxspec._need('call-pre[batch[node]: node in batch]', self.inb(x))
        return SVal(self.th.default_heap, self.bval(x))


class _Pool:
    def __init__(self, th, vc):
        f = vc.fresh_fn('pool_store', th.Node, B)
        self.st = lambda x: f(x)
        self.stores = SNodeSet(self.st)
        self.batch = _Batch(th, vc)
        self.requested = []

    def get_batch(self, batch_index, *a, **k):
        self.requested.append(batch_index)
        return self.batch


class PoolLoad(C02Graph):
    target = 'elfi/loader.py::PoolLoader.load'
    fin = 3

    def __init__(self, case):
        self.case = self.label = case          # pool | no-pool

    def setup(self, vc):
        th = theory(vc, nodes=self.nodes, refs=self.refs, lits=LITS)
        H = Heap(th)
        th.default_heap = H
        s = NS(th=th, H=H, vc=vc)
        s.G = OGraph(H, 'G', 'sym')
        s.G0, s.h0 = s.G.snap(), H.snap()
        s.idx = z3.Int('batch_index')
        vc.fin_bounds.append(s.idx)
        s.pool = _Pool(th, vc) if self.case == 'pool' else None
        s.RS = name_const(th, RS_NAME)
        s.context = _Context(SInt(z3.Int('seed')), {'executor': {}}, pool=s.pool)
        return s, (None, s.context, s.G, SInt(s.idx)), {}

    def requires(self, s):
        return [s.G.wf(), outputs_rep(s.th, s.G0, s.h0), s.idx >= 0]

    def _inv(self, s, l):
        th, g0, h0, G, H, p = s.th, s.G0, s.h0, s.G, s.H, s.pool
        vis = l.it.visited
        OUT, OP = th.klit('output'), th.klit('operation')
        o = outs_ref(th, g0, h0)
        loaded = lambda x: z3.And(vis(x), g0.node(x), p.batch.inb(x))
        missing = lambda x: z3.And(vis(x), g0.node(x), z3.Not(p.batch.inb(x)))
        return [('structure unchanged', same_structure(th, g0, G.snap())),
                ('visited stored nodes found in the batch: output = stored value, operation removed; other data-dict slots kept',
                 th.forall_nodes(lambda x: z3.Implies(loaded(x), z3.And(H.has(g0.nattr(x), OUT), H.val(g0.nattr(x), OUT) == p.batch.bval(x), z3.Not(H.has(g0.nattr(x), OP)))))),
                ('outputs = old outputs + visited stored nodes missing from the batch',
                 th.forall_nodes(lambda x: H.has(o, th.knode(x)) == z3.Or(h0.has(o, th.knode(x)), missing(x)))),
                ('every other dict slot is untouched',
                 th.forall_ref_key(lambda r, k: z3.Implies(z3.Not(z3.Or(z3.And(r == o, th.Key.is_knode(k)),
                                                                      th.exists_nodes(lambda x: z3.And(loaded(x), r == g0.nattr(x), z3.Or(k == OUT, k == OP))))),
                                                          z3.And(H.has(r, k) == h0.has(r, k), H.val(r, k) == h0.val(r, k))))),
                ('nothing allocated', th.forall_refs(lambda r: H.alloc(r) == h0.alloc(r)))]

    @property
    def loops(self):
        return {0: Loop(inv=self._inv, modifies=lambda s, l: [s.H])} if self.case == 'pool' else {}

    def ensures(self, s, result):
        th, g0, h0, g1, h1, p = s.th, s.G0, s.h0, s.G.snap(), s.H.snap(), s.pool
        out = [('the net handed in is returned', z3.BoolVal(result is s.G)),
               ('structure unchanged', same_structure(th, g0, g1))]
        if p is None:
            return out + [('no pool: nothing is written', heap_same_except(th, h0, h1, lambda r, k: z3.BoolVal(False)))]
        OUT, OP = th.klit('output'), th.klit('operation')
        stored = lambda x: z3.And(g0.node(x), p.st(x))
        inb = p.batch.inb
        return out + [
            ('the batch requested from the pool is the batch being loaded', z3.BoolVal(len(p.requested) == 1) if len(p.requested) != 1 else lift(p.requested[0]).t == s.idx),
            ('a stored node found in the batch is loaded: output = stored value, no operation',
             th.forall_nodes(lambda x: z3.Implies(z3.And(stored(x), inb(x)), z3.And(h1.has(g0.nattr(x), OUT), h1.val(g0.nattr(x), OUT) == p.batch.bval(x), z3.Not(has_op(th, g0, h1, x)))))),
            ('a stored node missing from the batch is a requested output afterwards and keeps its data dict',
             th.forall_nodes(lambda x: z3.Implies(z3.And(stored(x), z3.Not(inb(x))), z3.And(is_output(th, g0, h1, x), has_op(th, g0, h1, x) == has_op(th, g0, h0, x),
                                                                                             has_out(th, g0, h1, x) == has_out(th, g0, h0, x))))),
            ('cache_consistent: the status of every pool-managed node is readable from the key `needed` (it has its operation only if it is a requested output)',
             th.forall_nodes(lambda x: z3.Implies(z3.And(stored(x), has_op(th, g0, h1, x)), is_output(th, g0, h1, x)))),
            ('requested outputs only grow, by stored nodes that are missing from the batch',
             th.forall_nodes(lambda x: is_output(th, g0, h1, x) == z3.Or(is_output(th, g0, h0, x), z3.And(stored(x), z3.Not(inb(x)))))),
            ('pure reuse: no STOCHASTIC node is replaced by its stored output while another stochastic node still has to run (the operations that run '
             'are handed the generator at stream position 0, not behind the draws the loaded node took when the batch was first computed)',
             th.forall_nodes(lambda x, y: z3.Not(z3.And(stored(x), inb(x), g0.edge(s.RS, x), g0.node(y), y != x, g0.edge(s.RS, y), has_op(th, g0, h1, y))), 2)),
            ('nodes the pool does not manage keep their data dicts',
             th.forall_nodes(lambda x: z3.Implies(z3.And(g0.node(x), z3.Not(p.st(x))),
                                                  th.forall_keys(lambda k: z3.And(h1.has(g0.nattr(x), k) == h0.has(g0.nattr(x), k), h1.val(g0.nattr(x), k) == h0.val(g0.nattr(x), k))))))]


def module_literals(path, repo, heap):
    """module-level `NAME = <literal>` bindings of the analysed module, as the function sees them (a dict literal is a dict
    object of its own on the heap) - so that a body that reads a module global is analysed, not rejected"""
    src_, tree = instrument._parse(path, repo)
    out = {}
    for n in tree.body:
        if isinstance(n, ast.Assign) and len(n.targets) == 1 and isinstance(n.targets[0], ast.Name):
            try:
                v = ast.literal_eval(n.value)
            except Exception:
                continue
            if isinstance(v, dict) and not v:
                out[n.targets[0].id] = ('dict', n.targets[0].id)
            elif v is None or isinstance(v, (bool, int, str)):
                out[n.targets[0].id] = ('value', v)
    return out


class LoadData(C02Graph):
    target = 'elfi/client.py::ClientBase.load_data'
    fin = 3
    LOADERS = ('ObservedLoader', 'AdditionalNodesLoader', 'RandomStateLoader', 'PoolLoader')

    def env(self, vc):
        s = vc._s
        th, H = s.th, s.H
        e = {'nx': nxspec.module(), 'networkx': nxspec.module()}
        for nm, (kind, v) in module_literals('elfi/client.py', vc.repo, H).items():
            e[nm] = H.new_dict(name='module.' + nm) if kind == 'dict' else v
        for nm in self.LOADERS:
            e[nm] = _LoaderStub(nm, s)
        return e

    def setup(self, vc):
        s = self.base(vc)
        s.idx = z3.Int('batch_index')
        vc.fin_bounds.append(s.idx)
        s.E = SDict(s.H, z3.Const('executor_cache', s.th.Ref))
        s.context = _Context(SInt(z3.Int('seed')), {'executor': s.E, 'sub_seed': {}})
        s.loads = []
        return s, (None, s.G, s.context, SInt(s.idx)), {}

    def requires(self, s):
        th, g, h = s.th, s.G0, s.h0
        return [s.G.wf(), h.alloc(s.E.ref), s.E.ref != g.gref, th.forall_nodes(lambda x: z3.Implies(g.node(x), g.nattr(x) != s.E.ref)), s.idx >= 0]

    def ensures(self, s, result):
        th, g0, h0, h1 = s.th, s.G0, s.h0, s.H.snap()
        V = th.Val
        if not isinstance(result, SDiGraph):
            raise OutOfSubset('load_data returned %s' % type(result).__name__)
        K = result.snap()
        names = [n for n, _ in s.loads]
        return [('the loaded net is a NEW graph object with its own graph dict and node data dicts (the compiled net is not loaded in place)',
                 z3.And(z3.BoolVal(result is not s.G), z3.Not(h0.alloc(K.gref)), th.forall_nodes(lambda x: z3.Implies(K.node(x), z3.Not(h0.alloc(K.nattr(x))))))),
                ('every loader ran exactly once, on the copy, with this context and batch index',
                 z3.And([z3.BoolVal(sorted(names) == sorted(self.LOADERS))] + [z3.And(z3.BoolVal(ok), bi == s.idx) for _, (ok, bi) in s.loads])),
                ("the executor cache installed in the loaded net IS context.caches['executor'] (one cache per context, by identity)",
                 z3.And(h1.has(K.gref, th.klit('_executor_cache')), h1.val(K.gref, th.klit('_executor_cache')) == V.vref(s.E.ref))),
                ('frame: the compiled net keeps its structure and no dict that existed before is written',
                 z3.And(same_structure(th, g0, s.G.snap()),
                        th.forall_ref_key(lambda r, k: z3.Implies(h0.alloc(r), z3.And(h1.has(r, k) == h0.has(r, k), h1.val(r, k) == h0.val(r, k))))))]


class _LoaderStub:
    """<X>Loader.load by name (RandomStateLoader, PoolLoader: contracts above; ObservedLoader, AdditionalNodesLoader: C03/C05): may write
    the dicts OF THE NET IT IS GIVEN (graph dict, node data dicts) - and the shared outputs set, which is not a dict of the net."""

    def __init__(self, name, s):
        self.name, self.s = name, s

    def load(self, context, net, batch_index):
        s = self.s
        th, H = s.th, s.H
        ok = isinstance(net, SDiGraph) and net is not s.G and context is s.context
        s.loads.append((self.name, (ok, lift(batch_index).t)))
        if not isinstance(net, SDiGraph):
            raise OutOfSubset('loader called with %s' % type(net).__name__)
        K = net.snap()
        vc = cur()
        fh = vc.fresh_fn(self.name + '.has', th.Ref, th.Key, B)
        fv = vc.fresh_fn(self.name + '.val', th.Ref, th.Key, th.Val)
        own = lambda r: z3.Or(r == K.gref, th.exists_nodes(lambda x: z3.And(K.node(x), K.nattr(x) == r)))
        has, val = H.has, H.val
        H.has = lambda r, k: z3.If(own(r), fh(r, k), has(r, k))
        H.val = lambda r, k: z3.If(own(r), fv(r, k), val(r, k))
        return net


class _Handler:
    """`self` of BatchHandler.submit / compute"""

    def __init__(self, s, client):
        self.compiled_net, self.context, self.client = s.G, s.context, client
        self._next_batch_index = SInt(s.nbi)
        self._pending_batches = {}


class _SubmitClient:
    def __init__(self, s):
        self.s = s

    def load_data(self, compiled_net, context, batch_index):
        """ClientBase.load_data (contract LoadData): a new graph with the structure of the compiled net and fresh dicts; which nodes
        hold an operation / output afterwards is up to the loaders (arbitrary here)"""
        s = self.s
        s.rec.add('load_data', compiled_net=compiled_net, context=context, batch_index=batch_index)
        if compiled_net is not s.G:
            raise OutOfSubset('load_data on another net')
        K = nxspec.DiGraph(s.G)
        K.__class__ = OGraph
        th, H, vc = s.th, s.H, cur()
        ks = K.snap()
        fh = vc.fresh_fn('loaded.has', th.Ref, th.Key, B)
        fv = vc.fresh_fn('loaded.val', th.Ref, th.Key, th.Val)
        own = lambda r: th.exists_nodes(lambda x: z3.And(ks.node(x), ks.nattr(x) == r))
        has, val = H.has, H.val
        H.has = lambda r, k: z3.If(own(r), fh(r, k), has(r, k))
        H.val = lambda r, k: z3.If(own(r), fv(r, k), val(r, k))
        s.K, s.k0, s.hk0 = K, ks, H.snap()
        pre = s.get('pre_loaded')
        if pre is not None:
            vc.assume(pre(s))          # the part of the caller's `requires` that speaks about the loaded net
        return K

    def submit(self, loaded_net):
        t = _Tok('task_id')
        self.s.rec.add('submit', loaded_net=loaded_net, result=t, heap=self.s.H.snap())
        return t

    def compute(self, loaded_net):
        t = _Tok('result')
        self.s.rec.add('compute', loaded_net=loaded_net, result=t)
        return t


class _Overrides:
    """the `batch` argument of submit: {node name: value}; keys `ov`, values `oval` arbitrary"""

    def __init__(self, th, vc):
        f = vc.fresh_fn('override', th.Node, B)
        v = vc.fresh_fn('override_value', th.Node, th.Val)
        self.ov, self.oval, self.th = (lambda x: f(x)), (lambda x: v(x)), th

    def __bool__(self):
        return True            # a non-empty dict (the empty / None case is the contract case `no-override`)

    def items(self):
        return self

    def _vc_iter(self):
        from pyvc.engine import SetIter
        th = self.th
        return SetIter(th.Node, lambda q: self.ov(q), lambda q: (SNodeName(q), SVal(th.default_heap, self.oval(q))))


class Submit(C02Graph):
    target = 'elfi/client.py::BatchHandler.submit'
    fin = 3

    def __init__(self, case):
        self.case = self.label = case          # override | no-override

    def setup(self, vc):
        s = self.base(vc)
        s.G.__class__ = OGraph
        s.rec = _Rec()
        s.nbi, s.nsub = z3.Int('next_batch_index'), z3.Int('num_submissions')
        vc.fin_bounds.extend([s.nbi, s.nsub])
        s.context = _Context(SInt(z3.Int('seed')), {'executor': {}})
        s.context.num_submissions = SInt(s.nsub)
        s.client = _SubmitClient(s)
        s.h = _Handler(s, s.client)
        s.batch = _Overrides(s.th, vc) if self.case == 'override' else None
        s.pre_loaded = self._pre_overrides if s.batch is not None else None
        return s, (s.h,), dict(batch=s.batch)

    def requires(self, s):
        th, g, h = s.th, s.G0, s.h0
        r = [s.G.wf(), outputs_rep(th, g, h), s.nbi >= 0, s.nsub >= 0]
        return r

    def _pre_overrides(self, s):
        """requires (stated on the net load_data returns): every override key is a node that still has its operation after loading
        (else `del ...['operation']` raises KeyError) AND IS A REQUESTED OUTPUT (cache_consistent; the single call site,
        ParameterInference.iterate, passes parameter names, which every inference method requests)"""
        th = s.th
        return th.forall_nodes(lambda x: z3.Implies(s.batch.ov(x), z3.And(s.k0.node(x), has_op(th, s.k0, s.hk0, x), is_output(th, s.k0, s.hk0, x))))

    def _inv(self, s, l):
        th, H, k0, hk0, b = s.th, s.H, s.k0, s.hk0, s.batch
        vis = l.it.visited
        OUT, OP = th.klit('output'), th.klit('operation')
        return [('structure of the loaded net unchanged', same_structure(th, k0, s.K.snap())),
                ('visited override keys: output = the given value, operation removed',
                 th.forall_nodes(lambda x: z3.Implies(vis(x), z3.And(H.has(k0.nattr(x), OUT), H.val(k0.nattr(x), OUT) == b.oval(x), z3.Not(H.has(k0.nattr(x), OP)))))),
                ('every other dict slot is as load_data left it',
                 th.forall_ref_key(lambda r, k: z3.Implies(z3.Not(th.exists_nodes(lambda x: z3.And(vis(x), r == k0.nattr(x), z3.Or(k == OUT, k == OP)))),
                                                          z3.And(H.has(r, k) == hk0.has(r, k), H.val(r, k) == hk0.val(r, k))))),
                ('nothing allocated', th.forall_refs(lambda r: H.alloc(r) == hk0.alloc(r)))]

    @property
    def loops(self):
        if self.case != 'override':
            return {}
        L = Loop(inv=self._inv, modifies=lambda s, l: [s.H], on_head=None)
        return {0: L}

    def lemmas_at_exit(self, s, result):
        return []

    def ensures(self, s, result):
        th, rec = s.th, s.rec
        loads, subs = rec.of('load_data'), rec.of('submit')
        one = len(loads) == 1 and len(subs) == 1
        out = [('one load_data, one client.submit', z3.BoolVal(one))]
        if not one:
            return out
        l, sb = loads[0], subs[0]
        hs = sb['heap']
        k0, hk0 = s.k0, s.hk0
        out += [('the batch loaded is batch number next_index of THIS handler (its compiled net, its context)',
                 z3.And(z3.BoolVal(l['compiled_net'] is s.G and l['context'] is s.context), lift(l['batch_index']).t == s.nbi)),
                ('the submitted net is the loaded one', z3.BoolVal(sb['loaded_net'] is s.K)),
                ('counters: next_index + 1, num_submissions + 1', z3.And(lift(s.h._next_batch_index).t == s.nbi + 1, lift(s.context.num_submissions).t == s.nsub + 1)),
                ('frame: the compiled net and every dict that existed before the call are untouched',
                 z3.And(same_structure(th, s.G0, s.G.snap()),
                        th.forall_ref_key(lambda r, k: z3.Implies(s.h0.alloc(r), z3.And(hs.has(r, k) == s.h0.has(r, k), hs.val(r, k) == s.h0.val(r, k))))))]
        if s.batch is not None:
            OUT = th.klit('output')
            b = s.batch
            out += [('at submission every override key holds the given value as output and has no operation',
                     th.forall_nodes(lambda x: z3.Implies(b.ov(x), z3.And(hs.has(k0.nattr(x), OUT), hs.val(k0.nattr(x), OUT) == b.oval(x), z3.Not(has_op(th, k0, hs, x)))))),
                    ('cache_consistent: an overridden node is a requested output without operation - its status is readable from the key `needed`',
                     th.forall_nodes(lambda x: z3.Implies(b.ov(x), z3.And(is_output(th, k0, hs, x), z3.Not(has_op(th, k0, hs, x)))))),
                    ('nodes that are not overridden are submitted as loaded',
                     th.forall_nodes(lambda x: z3.Implies(z3.And(k0.node(x), z3.Not(b.ov(x))),
                                                          th.forall_keys(lambda k: z3.And(hs.has(k0.nattr(x), k) == hk0.has(k0.nattr(x), k), hs.val(k0.nattr(x), k) == hk0.val(k0.nattr(x), k))))))]
        return out


class Compute(C02Graph):
    target = 'elfi/client.py::BatchHandler.compute'
    fin = 3

    def setup(self, vc):
        s = self.base(vc)
        s.G.__class__ = OGraph
        s.rec = _Rec()
        s.nbi, s.nsub, s.idx = z3.Int('next_batch_index'), z3.Int('num_submissions'), z3.Int('batch_index')
        vc.fin_bounds.extend([s.nbi, s.nsub, s.idx])
        s.context = _Context(SInt(z3.Int('seed')), {'executor': {}})
        s.context.num_submissions = SInt(s.nsub)
        s.client = _SubmitClient(s)
        s.h = _Handler(s, s.client)
        return s, (s.h, SInt(s.idx)), {}

    def requires(self, s):
        return [s.G.wf(), s.idx >= 0]

    def ensures(self, s, result):
        rec = s.rec
        loads, comps = rec.of('load_data'), rec.of('compute')
        one = len(loads) == 1 and len(comps) == 1
        out = [('one load_data, one client.compute', z3.BoolVal(one))]
        if one:
            l, c = loads[0], comps[0]
            out += [('the requested batch of THIS handler (its compiled net, its context) is loaded', z3.And(z3.BoolVal(l['compiled_net'] is s.G and l['context'] is s.context), lift(l['batch_index']).t == s.idx)),
                    ('the result is the computed loaded net', z3.BoolVal(c['loaded_net'] is s.K and result is c['result'])),
                    ('no counter of the handler or the context moves (compute(i) leaves no trace that a later compute(j) could see)',
                     z3.And(lift(s.h._next_batch_index).t == s.nbi, lift(s.context.num_submissions).t == s.nsub, z3.BoolVal(s.h._pending_batches == {})))]
        return out


CONTRACTS = [RSLoad('int-cache'), RSLoad('int-nocache'), RSLoad('global'), RSLoad('unsupported'), RSCompile(),
             Generate('int-seed'), Generate('int-seed,with_values'), Generate('seed-None'),
             LoadData(), PoolLoad('pool'), PoolLoad('no-pool'), Submit('override'), Submit('no-override'), Compute()]
TRUSTED_BASE = []
ASSUMPTIONS = []
NOT_PROVED = []


def sanity():
    return []
