"""Syntactic frame obligations of C02, decided on the REAL AST read from the tree at run time (pyvc.instrument.locate).

Three analyses; each emits named obligations with verdict discharged / refuted / undecided (fail closed: a form that is
not on an allow-list and is not a recognised violation is UNDECIDED, never discharged, never an alarm):

  ReadsFrame   every use of the graph parameter is one of the allowed read forms, and no iteration order of a set, dict
               or graph view reaches a list that is iterated, stored in the cache or returned ("order taint").
  RngFrame     over the call graph (name-resolved, over-approximated by method name) of the seeded path: every
               reference to numpy.random / random / os.urandom is the SEEDED constructor RandomState(arg), an isinstance
               type test, or is guarded by seed == 'global' / seed is None; elfi's own stochastic operation wrapper
               hands the random_state it receives to the distribution.
  CacheFrame   get_execution_order touches the executor cache only as `key in cache`, cache['sort_order'], cache[needed].

These are obligations ABOUT THE SOURCE TEXT; the step from them to the semantic frame is the usual one (a value that is
never named cannot be read) and is part of the trusted base of this property.
"""
import ast
import textwrap
import time

from pyvc import instrument
from pyvc.core import OutOfSubset

ORD, UNORD, SCAL, GRAPH, DGRAPH, CACHE, UNK = 'ordered', 'unordered', 'scalar', 'graph', 'derived-graph', 'cache', 'unknown'


def fn_ast(target, repo=None):
    """-> (Located, FunctionDef re-parsed from the located source with parent links and absolute line numbers)"""
    loc = instrument.locate(target, repo)
    tree = ast.parse(textwrap.dedent(loc.source))
    fn = tree.body[0]
    ast.increment_lineno(tree, loc.lineno - 1)
    link_parents(fn)
    return loc, fn


def link_parents(root):
    root._parent = getattr(root, '_parent', None)
    for n in ast.walk(root):
        for c in ast.iter_child_nodes(n):
            c._parent = n
            c._field = next(f for f, v in ast.iter_fields(n) if v is c or (isinstance(v, list) and any(x is c for x in v)))


def src(n):
    try:
        return ast.unparse(n)
    except Exception:
        return '<%s>' % type(n).__name__


def call_name(c):
    f = c.func
    if isinstance(f, ast.Name):
        return f.id
    if isinstance(f, ast.Attribute):
        return f.attr
    return None


class SynContract:
    """a contract decided by a syntactic analysis (driver protocol: run_custom)"""
    target = None
    prop = 'C02'
    label = None
    cover = False
    loops = {}
    allow_no_obligations = False

    @property
    def cname(self):
        q = self.target.split('::')[1]
        return q + ('[%s]' % self.label if self.label else '')

    def obligations(self, repo):
        """-> iterable of dict(kind, verdict, note[, witness])"""
        raise NotImplementedError

    def run_custom(self, tier, seed, repo):
        out = dict(results=[], error=None, covers=0, covers_sat=0, stats={}, sha256=None, target=self.target, cname=self.cname,
                   label=self.label, refuted=[], fin_error=None, n_paths=0, samples=[])
        t0 = time.time()
        try:
            loc = instrument.locate(self.target, repo)
            out['sha256'], out['lineno'] = loc.sha256, loc.lineno
            counts = {}
            for ob in self.obligations(repo):
                k = ob['kind']
                n = counts.get(k, 0)
                counts[k] = n + 1
                nm = '%s/%s/%s#%d' % (self.prop, self.cname, k, n)
                out['results'].append(dict(name=nm, kind=k, verdict=ob['verdict'], backend=ob.get('backend', 'syntactic(ast)'), seconds=0.0, note=ob.get('note', ''),
                                           reason=ob.get('note') if ob['verdict'] == 'undecided' else None, expect='unsat',
                                           func='%s/%s' % (self.prop, self.cname)))
                if ob['verdict'] == 'refuted':
                    out['refuted'].append(dict(name=nm, kind=k, note=ob.get('note', ''), witness=ob.get('witness'), model={}, fin=0, seconds=0.0))
                if not out['samples']:
                    out['samples'].append(dict(name=nm, note=ob.get('note', '')))
            out['n_paths'] = len(out['results'])
        except OutOfSubset as e:
            out['error'] = 'out of subset: %s' % e
        out['wall_s'] = round(time.time() - t0, 3)
        return out


# ====================================================================== reads-frame + order taint
def _join(a, b):
    if a is None:
        return b
    if b is None or a == b:
        return a
    if {a, b} <= {ORD, SCAL}:
        return ORD if ORD in (a, b) else SCAL
    if UNORD in (a, b) and {a, b} <= {ORD, SCAL, UNORD}:
        return UNORD
    return UNK


# ---- sort keys: a stable sort with a NON-INJECTIVE key leaves ties in the order of its input (for a set / view: container order)
NON_INJECTIVE_METHODS = {'lower', 'upper', 'casefold', 'title', 'capitalize', 'swapcase', 'strip', 'lstrip', 'rstrip', 'split', 'rsplit', 'partition',
                         'startswith', 'endswith', 'isupper', 'islower', 'isdigit', 'isalpha', 'count', 'find', 'index', 'replace', 'translate', 'encode',
                         'removeprefix', 'removesuffix', 'zfill', 'center', 'ljust', 'rjust', 'expandtabs', 'format', 'join'}
NON_INJECTIVE_FUNCS = {'len', 'hash', 'bool', 'type', 'abs', 'int', 'float', 'round', 'ord', 'min', 'max', 'sum', 'any', 'all', 'isinstance', 'id'}
_CUR_TREE = [None]          # module AST of the function under analysis (to resolve a key given by name)


def _body_class(body_nodes, param):
    """key body over its parameter: identity -> injective; a known many-to-one operation on the name -> non-injective; else unknown"""
    rets = [r for r in body_nodes]
    if rets and all(isinstance(r, ast.Name) and r.id == param for r in rets):
        return 'injective', 'identity'
    for r in rets:
        for n in ast.walk(r):
            if isinstance(n, ast.Call) and isinstance(n.func, ast.Attribute) and n.func.attr in NON_INJECTIVE_METHODS:
                return 'non-injective', 'the key applies .%s() (many names, one key)' % n.func.attr
            if isinstance(n, ast.Call) and isinstance(n.func, ast.Name) and n.func.id in NON_INJECTIVE_FUNCS and n.func.id != 'isinstance':
                return 'non-injective', 'the key applies %s() (many names, one key)' % n.func.id
            if isinstance(n, ast.Subscript):
                return 'non-injective', 'the key looks at a part of the name only (%s)' % src(n)
        if isinstance(r, ast.Constant):
            return 'non-injective', 'constant key'
    return 'unknown', 'key body not recognised'


def classify_key(e, tree=None):
    """-> ('injective' | 'non-injective' | 'unknown', why) for the value of a key= argument"""
    tree = tree if tree is not None else _CUR_TREE[0]
    if e is None or (isinstance(e, ast.Constant) and e.value is None):
        return 'injective', 'no key'
    if isinstance(e, ast.Lambda):
        if len(e.args.args) != 1 or e.args.vararg or e.args.kwarg or e.args.kwonlyargs:
            return 'unknown', 'lambda signature'
        return _body_class([e.body], e.args.args[0].arg)
    if isinstance(e, ast.Attribute):
        if e.attr in NON_INJECTIVE_METHODS and isinstance(e.value, ast.Name) and e.value.id in ('str', 'bytes'):
            return 'non-injective', 'key %s (many names, one key)' % src(e)
        return 'unknown', 'key %s' % src(e)
    if isinstance(e, ast.Name):
        if e.id in NON_INJECTIVE_FUNCS:
            return 'non-injective', 'key %s (many names, one key)' % e.id
        if tree is not None:
            for n in tree.body:
                if isinstance(n, ast.FunctionDef) and n.name == e.id:
                    if len(n.args.args) != 1 or n.args.vararg or n.args.kwarg:
                        return 'unknown', 'signature of %s' % e.id
                    rets = [r.value for r in ast.walk(n) if isinstance(r, ast.Return) and r.value is not None]
                    c, why = _body_class(rets, n.args.args[0].arg)
                    return c, '%s: %s' % (e.id, why)
                if isinstance(n, ast.Assign) and any(isinstance(t, ast.Name) and t.id == e.id for t in n.targets):
                    c, why = classify_key(n.value, tree) if not isinstance(n.value, ast.Name) else ('unknown', 'alias')
                    return c, '%s: %s' % (e.id, why)
        return 'unknown', 'key %s is not defined at module level' % e.id
    return 'unknown', 'key expression %s' % type(e).__name__


def sort_call_class(c):
    """a sorted(...) / <list>.sort(...) call -> (class, why); reverse= does not matter (the reverse of a total order is a total order)"""
    kws = {}
    for k in c.keywords:
        if k.arg is None or k.arg not in ('key', 'reverse'):
            return 'unknown', 'keyword %s' % k.arg
        kws[k.arg] = k.value
    return classify_key(kws.get('key'))


def is_sort_call(c):
    return isinstance(c, ast.Call) and ((isinstance(c.func, ast.Name) and c.func.id == 'sorted' and len(c.args) >= 1) or
                                        (isinstance(c.func, ast.Attribute) and c.func.attr == 'sort'))



ORDER_FREE_CONSUMERS = {'sorted', 'set', 'frozenset', 'len', 'any', 'all', 'min', 'max', 'sum'}
ORDER_EXPOSING_CALLS = {'list', 'tuple', 'iter', 'next', 'enumerate', 'zip', 'reversed', 'map', 'filter'}


class OrderAnalysis:
    """kinds of the expressions of ONE function; `graph` = name of the graph parameter"""

    def __init__(self, fn, graph, ordered_callees=()):
        self.fn, self.g = fn, graph
        self.ordered_callees = set(ordered_callees)
        self.params = [a.arg for a in fn.args.args + fn.args.kwonlyargs]
        self.env = {}
        self.problems = []          # (verdict, what, node)
        for _ in range(6):
            before = dict(self.env)
            self._assignments()
            if before == self.env:
                break

    # ---- kinds
    def kind(self, e):
        g = self.g
        if isinstance(e, ast.Name):
            if e.id == g:
                return GRAPH
            if e.id in self.env:
                return self.env[e.id]
            if e.id in self.params:
                return ORD if e.id not in ('cls', 'self') else SCAL        # an input: the result may depend on it as given
            return UNK
        if isinstance(e, ast.Constant):
            return SCAL
        if isinstance(e, (ast.List, ast.Tuple)):
            return ORD
        if isinstance(e, (ast.Set, ast.SetComp, ast.Dict, ast.DictComp)):
            return UNORD
        if isinstance(e, (ast.ListComp, ast.GeneratorExp)):
            if len(e.generators) != 1:
                return UNK
            k = self.kind(e.generators[0].iter)
            return ORD if k == ORD else (UNORD if k in (UNORD, GRAPH) else UNK)
        if isinstance(e, (ast.Compare, ast.BoolOp)) or (isinstance(e, ast.UnaryOp) and isinstance(e.op, ast.Not)):
            return SCAL
        if isinstance(e, ast.IfExp):
            return _join(self.kind(e.body), self.kind(e.orelse))
        if isinstance(e, ast.Attribute):
            b = self.kind(e.value)
            if b == GRAPH and e.attr in ('nodes', 'edges', 'adj', 'succ', 'pred', 'graph', 'in_edges', 'out_edges'):
                return UNORD
            return UNK
        if isinstance(e, ast.Subscript):
            b = self.kind(e.value)
            if b == GRAPH:
                return UNORD                       # G[w]: adjacency view
            if b == CACHE:
                return ORD                         # by the cache invariant: every value stored by this function is ORDERED (checked at the writes)
            if b == ORD:
                return ORD if isinstance(e.slice, ast.Slice) else SCAL
            if isinstance(e.value, ast.Attribute) and self.kind(e.value.value) == GRAPH and e.value.attr in ('nodes', 'graph', 'adj', 'succ', 'pred'):
                return UNORD                       # G.nodes[n] (data dict), G.graph[key] (opaque container)
            return UNK
        if isinstance(e, ast.Call):
            return self._call_kind(e)
        return UNK

    def _call_kind(self, c):
        name = call_name(c)
        f = c.func
        if isinstance(f, ast.Name):
            if name == 'sorted':
                if len(c.args) != 1:
                    return UNK
                k = self.kind(c.args[0])
                cls = sort_call_class(c)[0]
                if cls == 'injective':              # total order on distinct names: a function of the SET
                    return ORD if k in (ORD, UNORD, GRAPH) else UNK
                if cls == 'non-injective':          # stable sort: ties stay in input order - deterministic only for an ORDERED input
                    return ORD if k == ORD else (UNORD if k in (UNORD, GRAPH) else UNK)
                return ORD if k == ORD else UNK
            if name in ('list', 'tuple', 'reversed') and len(c.args) == 1 and not c.keywords:
                k = self.kind(c.args[0])
                return k if k in (ORD, UNORD) else (UNORD if k == GRAPH else UNK)
            if name in ('list', 'tuple') and not c.args:
                return ORD
            if name in ('set', 'frozenset'):
                return UNORD
            if name in ('len', 'any', 'all', 'isinstance', 'bool', 'min', 'max', 'sum', 'str', 'int', 'repr', 'callable'):
                return SCAL
            if name in self.ordered_callees:
                return ORD
            return UNK
        if isinstance(f, ast.Attribute):
            b = self.kind(f.value)
            if isinstance(f.value, ast.Name) and f.value.id in ('nx', 'networkx'):
                if name in ('ancestors', 'descendants'):
                    return UNORD
                if name == 'DiGraph':
                    return DGRAPH
                if name in ('NetworkXError', 'NetworkXUnfeasible'):
                    return SCAL
                return UNK
            if b == GRAPH:
                if name in ('is_directed', 'has_node', 'has_edge', 'number_of_nodes', 'number_of_edges'):
                    return SCAL
                if name in ('nodes', 'edges', 'successors', 'predecessors', 'neighbors', 'in_edges', 'out_edges'):
                    return UNORD
                return UNK
            if b == DGRAPH:
                return SCAL if name in ('remove_node', 'has_node', 'add_node', 'add_edge', 'remove_edge', 'add_nodes_from', 'add_edges_from') else UNK
            if b == ORD:
                if name in ('pop', 'append', 'extend', 'index', 'count', 'insert', 'remove', 'clear'):
                    return SCAL
                if name == 'copy':
                    return ORD
                return UNK
            if b == UNORD:
                if name in ('add', 'update', 'discard', 'remove', 'clear', 'issubset', 'issuperset', 'isdisjoint', '__contains__'):
                    return SCAL
                if name in ('keys', 'values', 'items', 'copy', 'union', 'intersection', 'difference', 'get'):
                    return UNORD
                return UNK                          # in particular set.pop(): order exposing, flagged at the site
            if name == 'format':
                return SCAL
            if isinstance(f.value, ast.Attribute) and self.kind(f.value.value) == GRAPH and f.value.attr == 'graph' and name == 'get':
                return UNORD
            return UNK
        return UNK

    # ---- environment of local names
    def _bind(self, name, k):
        if name == self.g:
            self.problems.append(('undecided', 'the graph parameter is re-bound', None))
            return
        cur = self.env.get(name)
        new = _join(cur, k)
        self.env[name] = new

    def _assignments(self):
        for n in ast.walk(self.fn):
            if isinstance(n, ast.Assign):
                k = self.kind(n.value)
                # `cache = G.graph.get('_executor_cache', {})`: the executor cache
                if isinstance(n.value, ast.Call) and call_name(n.value) == 'get' and 'graph' in src(n.value.func) and n.value.args \
                        and isinstance(n.value.args[0], ast.Constant) and 'cache' in str(n.value.args[0].value):
                    k = CACHE
                for t in n.targets:
                    if isinstance(t, ast.Name):
                        self._bind(t.id, k)
                    elif isinstance(t, (ast.Tuple, ast.List)):
                        for el in ast.walk(t):
                            if isinstance(el, ast.Name):
                                self._bind(el.id, UNK)
            elif isinstance(n, (ast.AugAssign, ast.AnnAssign)) and isinstance(n.target, ast.Name):
                self._bind(n.target.id, _join(self.env.get(n.target.id), self.kind(n.value)) if isinstance(n, ast.AugAssign) and isinstance(n.op, ast.Add) else UNK)
            elif isinstance(n, (ast.For, ast.comprehension)):
                for el in ast.walk(n.target):
                    if isinstance(el, ast.Name):
                        self._bind(el.id, SCAL)      # an element (a node name / a scalar)
            elif isinstance(n, ast.Call) and isinstance(n.func, ast.Attribute) and isinstance(n.func.value, ast.Name) \
                    and n.func.attr in ('extend', 'append', 'insert') and self.env.get(n.func.value.id) in (ORD, UNORD):
                if n.func.attr == 'extend' and n.args:
                    self._bind(n.func.value.id, self.kind(n.args[0]))
            elif isinstance(n, (ast.With, ast.Try)) or isinstance(n, ast.NamedExpr):
                self.problems.append(('undecided', 'statement form %s is not modelled by the order analysis' % type(n).__name__, n))

    # ---- sites where an order becomes observable
    def sites(self):
        """-> list of (kind-label, verdict, note)"""
        out = []

        def add(label, verdict, node, why):
            out.append(('frame[%s]' % label, verdict, 'line %d: %s - %s' % (getattr(node, 'lineno', 0), src(node)[:90], why)))
        for n in ast.walk(self.fn):
            if isinstance(n, ast.For):
                k = self.kind(n.iter)
                v = 'discharged' if k == ORD else ('refuted' if k in (UNORD, GRAPH) else 'undecided')
                add('for-loop iterates an ORDERED sequence', v, n.iter, 'iterable is %s' % k)
            elif isinstance(n, ast.While):
                add('while-loop: no iteration order involved', 'discharged', n.test, 'condition only')
            elif isinstance(n, ast.Return) and n.value is not None:
                k = self.kind(n.value)
                v = 'discharged' if k in (ORD, SCAL) else ('refuted' if k in (UNORD, GRAPH) else 'undecided')
                add('returned value is ORDERED (a function of sets and the name order)', v, n.value, 'value is %s' % k)
            elif isinstance(n, ast.Assign):
                for t in n.targets:
                    if isinstance(t, ast.Subscript) and self.kind(t.value) == CACHE:
                        k = self.kind(n.value)
                        v = 'discharged' if k == ORD else ('refuted' if k in (UNORD, GRAPH) else 'undecided')
                        add('value stored in the executor cache is ORDERED', v, n.value, 'value is %s' % k)
            elif isinstance(n, ast.Call) and isinstance(n.func, ast.Attribute) and n.func.attr == 'pop' and not n.args \
                    and self.kind(n.func.value) == UNORD:
                add('no element is drawn from a set in container order', 'refuted', n, 'set.pop()')
            elif isinstance(n, ast.Call) and isinstance(n.func, ast.Name) and n.func.id in ('next', 'iter') and n.args \
                    and self.kind(n.args[0]) in (UNORD, GRAPH):
                add('no element is drawn from a set in container order', 'refuted', n, 'iterator over a set / view')
            elif isinstance(n, ast.Starred) and self.kind(n.value) in (UNORD, GRAPH, UNK):
                add('no unpacking of a set / view', 'undecided', n, 'starred expression')
        for n in ast.walk(self.fn):
            if is_sort_call(n):
                cls, why = sort_call_class(n)
                arg = n.args[0] if isinstance(n.func, ast.Name) else n.func.value
                k = self.kind(arg)
                if cls == 'injective' or (cls == 'non-injective' and k == ORD and isinstance(n.func, ast.Name)):
                    v = 'discharged'
                elif cls == 'non-injective':
                    v = 'refuted' if k in (UNORD, GRAPH) or not isinstance(n.func, ast.Name) else 'undecided'
                else:
                    v = 'undecided'
                add('the sort key is INJECTIVE on node names (no key / identity): ties of a stable sort would expose the container order', v, n,
                    '%s; sorted input is %s' % (why, k))
        for verdict, what, node in self.problems:
            out.append(('frame[order analysis applicable]', verdict, what))
        return out


def _is_sole_arg_of(n, fname):
    p = n._parent
    if not (isinstance(p, ast.Call) and isinstance(p.func, ast.Name) and p.func.id == fname and len(p.args) == 1 and p.args[0] is n):
        return False
    if fname == 'sorted' and p.keywords:
        return sort_call_class(p)[0] == 'injective'
    return not p.keywords


def _membership_rhs(n):
    p = n._parent
    return isinstance(p, ast.Compare) and n in p.comparators and all(isinstance(o, (ast.In, ast.NotIn)) for o in p.ops)


def _exposed(n):
    """does the chain of enclosing expressions iterate / list `n` before an order-free consumer is reached?"""
    c = n
    while getattr(c, '_parent', None) is not None and not isinstance(c._parent, ast.stmt):
        p = c._parent
        if isinstance(p, ast.Call) and isinstance(p.func, ast.Name):
            if p.func.id == 'sorted' and c in p.args and p.keywords:
                cls = sort_call_class(p)[0]
                return True if cls == 'non-injective' else (False if cls == 'injective' else None)
            if p.func.id in ORDER_FREE_CONSUMERS and c in p.args:
                return False
            if p.func.id in ORDER_EXPOSING_CALLS and c in p.args:
                return True
        if isinstance(p, ast.comprehension) and p.iter is c:
            comp = p._parent
            if isinstance(comp, (ast.SetComp, ast.DictComp)):
                return False
            c = comp
            continue
        c = p
    p = getattr(c, '_parent', None)
    if isinstance(p, ast.For) and p.iter is c:
        return True
    return None


def graph_uses(fn, g, allowed):
    """one obligation per occurrence of the graph parameter: is it one of the allowed read forms?
    allowed: list of (label, predicate(name_node) -> bool)"""
    out = []
    for n in ast.walk(fn):
        if not (isinstance(n, ast.Name) and n.id == g):
            continue
        if isinstance(n.ctx, (ast.Store, ast.Del)):
            out.append(('frame[the graph parameter is not re-bound]', 'undecided', 'line %d' % n.lineno))
            continue
        # the maximal expression rooted at this occurrence (G.x.y(...)[...])
        top = n
        while isinstance(getattr(top, '_parent', None), (ast.Attribute, ast.Subscript, ast.Call)) and \
                (getattr(top._parent, 'value', None) is top or getattr(top._parent, 'func', None) is top):
            top = top._parent
        st = top
        while not isinstance(st, ast.stmt):
            st = st._parent
        # a write through the graph?
        if isinstance(getattr(top, 'ctx', None), (ast.Store, ast.Del)):
            out.append(('frame[the graph is only read]', 'refuted', 'line %d: %s writes through the graph parameter' % (n.lineno, src(st)[:90])))
            continue
        hit = None
        for label, pred in allowed:
            try:
                if pred(n):
                    hit = label
                    break
            except AttributeError:
                pass
        if hit:
            out.append(('frame[use of %s is an allowed read: %s]' % (g, hit), 'discharged', 'line %d: %s' % (n.lineno, src(top)[:90])))
        else:
            ex = _exposed(top)
            out.append(('frame[use of %s is an allowed read]' % g, 'refuted' if ex else 'undecided',
                        'line %d: %s in `%s` is not on the allow-list%s' % (n.lineno, src(top)[:60], src(st)[:90],
                                                                           ' and exposes the container order' if ex else '')))
    return out


def _attr_call(n, attr, nargs=None):
    """n is `G`; parent is G.<attr>, grand-parent the call G.<attr>(...)"""
    a = n._parent
    if not (isinstance(a, ast.Attribute) and a.attr == attr and a.value is n):
        return None
    c = a._parent
    if not (isinstance(c, ast.Call) and c.func is a):
        return None
    if nargs is not None and (len(c.args) != nargs or c.keywords):
        return None
    return c


SORT_ALLOWED = [
    ('G.is_directed()', lambda n: _attr_call(n, 'is_directed', 0) is not None),
    ('sorted(G.nodes())', lambda n: _is_sole_arg_of(_attr_call(n, 'nodes', 0), 'sorted')),
    ('sorted(G.nodes)', lambda n: isinstance(n._parent, ast.Attribute) and n._parent.attr == 'nodes' and _is_sole_arg_of(n._parent, 'sorted')),
    ('sorted(G[w])', lambda n: isinstance(n._parent, ast.Subscript) and n._parent.value is n and _is_sole_arg_of(n._parent, 'sorted')),
    ('membership', lambda n: _membership_rhs(n) or (isinstance(n._parent, ast.Subscript) and n._parent.value is n and _membership_rhs(n._parent))),
]


def _graph_item(n, key=None):
    """G.graph[<literal>] (Load)"""
    a = n._parent
    if not (isinstance(a, ast.Attribute) and a.attr == 'graph' and a.value is n):
        return None
    s = a._parent
    if isinstance(s, ast.Subscript) and s.value is a and isinstance(s.ctx, ast.Load) and isinstance(s.slice, ast.Constant) and (key is None or s.slice.value == key):
        return s
    return None


def _graph_get(n):
    a = n._parent
    if not (isinstance(a, ast.Attribute) and a.attr == 'graph' and a.value is n):
        return False
    g = a._parent
    c = getattr(g, '_parent', None)
    return isinstance(g, ast.Attribute) and g.attr == 'get' and isinstance(c, ast.Call) and c.func is g and len(c.args) == 2 \
        and isinstance(c.args[0], ast.Constant) and isinstance(c.args[1], (ast.Dict, ast.Constant)) and not c.keywords


def _node_data(n):
    """G.nodes[<e>] read, used for membership / .keys() comparison or bound to a local"""
    a = n._parent
    if not (isinstance(a, ast.Attribute) and a.attr == 'nodes' and a.value is n):
        return False
    s = a._parent
    if not (isinstance(s, ast.Subscript) and s.value is a and isinstance(s.ctx, ast.Load)):
        return False
    p = s._parent
    if _membership_rhs(s):
        return True
    if isinstance(p, ast.Assign) and p.value is s and all(isinstance(t, ast.Name) for t in p.targets):
        return True             # the local's uses are judged by the order analysis (kind UNORD) and the write check below
    return False


EXEC_ALLOWED = [
    ("G.graph.get('_executor_cache', {})", _graph_get),
    ("G.graph['outputs']", lambda n: _graph_item(n, 'outputs') is not None),
    ("'operation' in G.nodes[n] / attr = G.nodes[n]", _node_data),
    ('nx.DiGraph(G.edges)', lambda n: isinstance(n._parent, ast.Attribute) and n._parent.attr == 'edges' and isinstance(n._parent._parent, ast.Call)
        and src(n._parent._parent.func) in ('nx.DiGraph', 'networkx.DiGraph') and len(n._parent._parent.args) == 1 and not n._parent._parent.keywords),
    ('nx_constant_topological_sort(G)', lambda n: _is_sole_arg_of(n, 'nx_constant_topological_sort')),
    # the node SET handed to a set-level mutator of the derived dependency graph (the dependency graph's node / edge sets do not
    # depend on the order in which nodes are added; it is consumed only by remove_node / nx.ancestors, see local_writes)
    ('<derived graph>.add_nodes_from(G.nodes)', lambda n: isinstance(n._parent, ast.Attribute) and n._parent.attr == 'nodes'
        and isinstance(n._parent._parent, ast.Call) and isinstance(n._parent._parent.func, ast.Attribute)
        and n._parent._parent.func.attr == 'add_nodes_from' and len(n._parent._parent.args) == 1 and not n._parent._parent.keywords),
]


def local_writes(fn, an, g):
    """locals bound to a G-derived dict (attr = G.nodes[n]) must not be written through; derived graphs only via remove_node / nx.ancestors"""
    out = []
    for n in ast.walk(fn):
        if isinstance(n, (ast.Subscript, ast.Attribute)) and isinstance(n.ctx, (ast.Store, ast.Del)) and isinstance(n.value, ast.Name):
            k = an.env.get(n.value.id)
            if k == UNORD:
                # is the local derived from the graph?
                for a in ast.walk(fn):
                    if isinstance(a, ast.Assign) and any(isinstance(t, ast.Name) and t.id == n.value.id for t in a.targets) \
                            and any(isinstance(x, ast.Name) and x.id == g for x in ast.walk(a.value)):
                        out.append(('frame[the graph is only read]', 'refuted', 'line %d: `%s` writes a dict obtained from the graph' % (n.lineno, src(n._parent)[:80])))
                        break
        if isinstance(n, ast.Name) and an.env.get(n.id) == DGRAPH and isinstance(n.ctx, ast.Load):
            p = n._parent
            ok = (isinstance(p, ast.Attribute) and p.attr in ('remove_node', 'add_node', 'add_nodes_from', 'add_edges_from')) or \
                 (isinstance(p, ast.Call) and src(p.func) in ('nx.ancestors', 'networkx.ancestors') and p.args and p.args[0] is n)
            out.append(('frame[the dependency graph is used only through set-level mutators (remove_node / add_nodes_from ...) and nx.ancestors (set-valued)]',
                        'discharged' if ok else 'undecided', 'line %d: %s' % (n.lineno, src(p)[:80])))
    return out


class ReadsFrame(SynContract):
    label = 'reads-frame'

    def __init__(self, target, allowed, ordered_callees=(), param=0):
        self.target, self.allowed, self.ordered_callees, self.param = target, allowed, ordered_callees, param

    def obligations(self, repo):
        loc, fn = fn_ast(self.target, repo)
        args = [a.arg for a in fn.args.args]
        if args and args[0] in ('cls', 'self'):
            args = args[1:]
        g = args[self.param]
        _CUR_TREE[0] = instrument._parse(self.target.split('::')[0], repo)[1]
        an = OrderAnalysis(fn, g, self.ordered_callees)
        for kind, verdict, note in graph_uses(fn, g, self.allowed) + an.sites() + local_writes(fn, an, g):
            yield dict(kind=kind, verdict=verdict, note=note, witness=dict(function=self.target, note=note))
        # nested function definitions / lambdas could capture the graph: not modelled
        for n in ast.walk(fn):
            if isinstance(n, ast.Lambda) and isinstance(n._parent, ast.keyword) and n._parent.arg == 'key' and is_sort_call(n._parent._parent) \
                    and not any(isinstance(x, ast.Name) and x.id == g for x in ast.walk(n)):
                continue            # a sort key (judged by the injectivity obligation) that does not capture the graph
            if n is not fn and isinstance(n, (ast.FunctionDef, ast.Lambda, ast.ClassDef, ast.Global, ast.Nonlocal)):
                yield dict(kind='frame[no nested scopes]', verdict='undecided', note='line %d: %s' % (n.lineno, type(n).__name__))


# ====================================================================== executor-cache access frame
class CacheFrame(SynContract):
    label = 'cache-frame'
    target = 'elfi/executor.py::Executor.get_execution_order'

    def obligations(self, repo):
        loc, fn = fn_ast(self.target, repo)
        _CUR_TREE[0] = instrument._parse(self.target.split('::')[0], repo)[1]
        an = OrderAnalysis(fn, [a.arg for a in fn.args.args if a.arg not in ('cls', 'self')][0], ('nx_constant_topological_sort',))
        caches = [k for k, v in an.env.items() if v == CACHE]
        if len(caches) != 1:
            yield dict(kind='frame[the executor cache is bound once, from G.graph.get]', verdict='undecided', note='cache locals: %s' % caches)
            return
        c = caches[0]
        yield dict(kind='frame[the executor cache is bound once, from G.graph.get]', verdict='discharged', note='local `%s`' % c)
        key_names = set()
        for n in ast.walk(fn):
            if not (isinstance(n, ast.Name) and n.id == c and isinstance(n.ctx, ast.Load)):
                continue
            p = n._parent
            note = 'line %d: %s' % (n.lineno, src(p if not isinstance(p, ast.Subscript) else p._parent)[:90])
            if isinstance(p, ast.Compare) and n in p.comparators and all(isinstance(o, (ast.In, ast.NotIn)) for o in p.ops):
                yield dict(kind='frame[cache access is `key in cache`, cache[key] or cache[key] = value]', verdict='discharged', note=note)
                key_names.add(src(p.left))
            elif isinstance(p, ast.Subscript) and p.value is n:
                yield dict(kind='frame[cache access is `key in cache`, cache[key] or cache[key] = value]', verdict='discharged', note=note)
                key_names.add(src(p.slice))
            else:
                yield dict(kind='frame[cache access is `key in cache`, cache[key] or cache[key] = value]', verdict='undecided', note=note + ' (other use of the cache)')
        # the keys are the literal 'sort_order' and ONE local, which is tuple(sorted(<outputs that have an operation>))
        keys = sorted(key_names)
        lits = [k for k in keys if k.startswith(("'", '"'))]
        names = [k for k in keys if k not in lits]
        ok = lits in ([], ["'sort_order'"]) and len(names) == 1
        yield dict(kind="frame[cache keys are 'sort_order' and one key local]", verdict='discharged' if ok else 'undecided', note='keys: %s' % keys)
        if ok:
            kn = names[0]
            defs = [a for a in ast.walk(fn) if isinstance(a, ast.Assign) and any(isinstance(t, ast.Name) and t.id == kn for t in a.targets)]
            good = False
            if len(defs) == 1:
                v = defs[0].value
                # tuple(sorted(node for node in <G.graph['outputs'] local> if 'operation' in G.nodes[node]))
                if isinstance(v, ast.Call) and call_name(v) == 'tuple' and len(v.args) == 1 and isinstance(v.args[0], ast.Call) and call_name(v.args[0]) == 'sorted' \
                        and not v.args[0].keywords and len(v.args[0].args) == 1 and isinstance(v.args[0].args[0], (ast.GeneratorExp, ast.ListComp)):
                    ge = v.args[0].args[0]
                    gen = ge.generators[0]
                    good = len(ge.generators) == 1 and isinstance(ge.elt, ast.Name) and isinstance(gen.target, ast.Name) and ge.elt.id == gen.target.id \
                        and len(gen.ifs) == 1 and src(gen.ifs[0]).replace('"', "'").startswith("'operation' in ") and '.nodes[' in src(gen.ifs[0]) \
                        and an.kind(gen.iter) == UNORD
            yield dict(kind='frame[the key is the sorted tuple of the requested outputs that still have an operation]',
                       verdict='discharged' if good else 'undecided', note='%s = %s' % (kn, src(defs[0].value)[:120] if defs else '?'))
        rets = [r for r in ast.walk(fn) if isinstance(r, ast.Return) and r.value is not None]
        for r in rets:
            v = r.value
            good = (isinstance(v, ast.List) and not v.elts) or (isinstance(v, ast.Subscript) and isinstance(v.value, ast.Name) and v.value.id == c)
            yield dict(kind='frame[the result is [] or the cache entry of the key]', verdict='discharged' if good else 'undecided', note='line %d: %s' % (r.lineno, src(r)[:80]))


# ====================================================================== global-RNG frame over the call graph
MODULES = ['elfi/client.py', 'elfi/clients/native.py', 'elfi/loader.py', 'elfi/compiler.py', 'elfi/executor.py', 'elfi/utils.py', 'elfi/store.py',
           'elfi/model/elfi_model.py', 'elfi/model/graphical_model.py', 'elfi/model/utils.py']
ROOTS = ['elfi/model/elfi_model.py::ElfiModel.generate', 'elfi/client.py::BatchHandler.__init__', 'elfi/client.py::BatchHandler.submit',
         'elfi/client.py::BatchHandler.compute', 'elfi/client.py::BatchHandler.wait_next', 'elfi/model/utils.py::rvs_from_distribution']
# classes of elfi_model.py that belong to the seeded path (the rest of that module is model BUILDING: C14)
RNG_MODULE_NAMES = {'numpy': ('random',), 'random': None, 'secrets': None}


class Index:
    """functions and methods of the footprint modules, by simple name (over-approximation of dynamic dispatch)"""

    def __init__(self, repo):
        self.by_name = {}
        self.defs = {}
        self.imports = {}           # path -> {local name: dotted module}
        for path in MODULES:
            try:
                s, tree = instrument._parse(path, repo)
            except OSError:
                raise OutOfSubset('cannot read %s' % path)
            imps = {}
            for n in tree.body:
                if isinstance(n, ast.Import):
                    for a in n.names:
                        imps[a.asname or a.name.split('.')[0]] = a.name if a.asname else a.name.split('.')[0]
                elif isinstance(n, ast.ImportFrom) and n.module:
                    for a in n.names:
                        imps[a.asname or a.name] = n.module + '.' + a.name
                elif isinstance(n, ast.FunctionDef):
                    self._add(path, n.name, n.name, n, None)
                elif isinstance(n, ast.ClassDef):
                    for m in n.body:
                        if isinstance(m, ast.FunctionDef):
                            self._add(path, n.name + '.' + m.name, m.name, m, n.name)
            self.imports[path] = imps

    def _add(self, path, qual, simple, node, cls):
        key = '%s::%s' % (path, qual)
        if key in self.defs:
            return
        self.defs[key] = (path, node, cls)
        self.by_name.setdefault(simple, []).append(key)
        if simple == '__init__' and cls:
            self.by_name.setdefault(cls, []).append(key)        # Cls(...) runs Cls.__init__


def rng_chain(e, imps):
    """`np.random.X.Y` -> ('numpy', ['random', 'X', 'Y']) when the root name is bound to an RNG-bearing module"""
    parts = []
    while isinstance(e, ast.Attribute):
        parts.append(e.attr)
        e = e.value
    if not isinstance(e, ast.Name):
        return None
    parts.reverse()
    mod = imps.get(e.id)
    if mod is None:
        return None
    root = mod.split('.')[0]
    full = mod.split('.')[1:] + parts
    if root == 'numpy' and full[:1] == ['random']:
        return 'numpy', full
    if root in ('random', 'secrets'):
        return root, full
    if root == 'os' and full[:1] == ['urandom']:
        return 'os', full
    return None


def norm_test(t):
    """normal form of the two guard shapes the frame knows: `seed == 'global'` and `seed is None` (operands in either order)"""
    if isinstance(t, ast.Compare) and len(t.ops) == 1 and len(t.comparators) == 1:
        a, b, op = t.left, t.comparators[0], t.ops[0]
        if isinstance(a, ast.Constant) and isinstance(b, ast.Name):
            a, b = b, a
        if isinstance(a, ast.Name) and isinstance(b, ast.Constant):
            if isinstance(op, ast.Eq) and isinstance(b.value, str):
                return "%s == '%s'" % (a.id, b.value)
            if isinstance(op, ast.Is) and b.value is None:
                return '%s is None' % a.id
    return src(t)


def guards(n):
    """the conditions that dominate expression n inside its function: [(normalised test, branch)]"""
    out = []
    c = n
    while getattr(c, '_parent', None) is not None:
        p = c._parent
        if isinstance(p, ast.If) and c._field in ('body', 'orelse'):
            out.append((norm_test(p.test), c._field == 'body'))
        if isinstance(p, ast.IfExp) and c is not p.test:
            out.append((norm_test(p.test), c is p.body))
        c = p
    return out


def seed_bound_from(fn, name='seed'):
    """how the local `seed` is defined in fn: 'param', 'context.seed', or None"""
    if name in [a.arg for a in fn.args.args + fn.args.kwonlyargs]:
        return 'param'
    ds = [a for a in ast.walk(fn) if isinstance(a, ast.Assign) and any(isinstance(t, ast.Name) and t.id == name for t in a.targets)]
    if len(ds) == 1 and isinstance(ds[0].value, ast.Attribute) and ds[0].value.attr == 'seed':
        return 'context.seed'
    return None


def guarded_by(n, fn, tests):
    """is n inside the TRUE branch of one of `tests` (source strings over the local `seed`), seed being the parameter / context.seed
    and not re-bound before?  (re-binding inside the guarded branch itself is fine: `if seed is None: seed = ...`)"""
    how = seed_bound_from(fn)
    if how is None:
        return False
    # every re-binding of `seed` must itself sit in a `seed is None` branch (then an integer seed is never re-bound)
    for a in ast.walk(fn):
        if isinstance(a, (ast.Assign, ast.AugAssign)) and any(isinstance(t, ast.Name) and t.id == 'seed' for t in getattr(a, 'targets', [getattr(a, 'target', None)])):
            if how == 'context.seed' and isinstance(a, ast.Assign) and isinstance(a.value, ast.Attribute) and a.value.attr == 'seed':
                continue
            if not any(b and t == 'seed is None' for t, b in guards(a)):
                return False
    for t, branch in guards(n):
        if branch and t in tests:
            return True
    return False


class RngFrame(SynContract):
    label = 'global-rng-frame'
    target = 'elfi/model/elfi_model.py::ElfiModel.generate'

    def obligations(self, repo):
        ix = Index(repo)
        work = [r for r in ROOTS]
        for r in work:
            if r not in ix.defs:
                raise OutOfSubset('root %s not found' % r)
        seen, order = set(), []
        unresolved = {}
        refs = []           # (function key, node, classification)
        while work:
            k = work.pop()
            if k in seen:
                continue
            seen.add(k)
            order.append(k)
            path, node, cls = ix.defs[k]
            fn = ast.parse(textwrap.dedent(ast.get_source_segment(instrument._parse(path, repo)[0], node))).body[0]
            ast.increment_lineno(fn, node.lineno - 1)
            link_parents(fn)
            imps = ix.imports[path]
            for n in ast.walk(fn):
                # references to RNG-bearing library objects
                if isinstance(n, ast.Attribute) and not (isinstance(n._parent, ast.Attribute) and n._parent.value is n):
                    ch = rng_chain(n, imps)
                    if ch:
                        refs.append((k, fn, n, ch))
                if isinstance(n, ast.Name) and isinstance(n.ctx, ast.Load) and imps.get(n.id, '').startswith(('numpy.random', 'random.', 'secrets.')) \
                        and not isinstance(n._parent, ast.Attribute):
                    refs.append((k, fn, n, (imps[n.id].split('.')[0], imps[n.id].split('.')[1:])))
                # call-graph edges: every reference to a name that resolves to a footprint function / method / class
                nm = None
                if isinstance(n, ast.Name) and isinstance(n.ctx, ast.Load):
                    nm = n.id
                    # a plain name resolves only through the module's own top level / imports from elfi
                    tgt = imps.get(nm, '')
                    own = ['%s::%s' % (path, nm)] if '%s::%s' % (path, nm) in ix.defs else []
                    if tgt.startswith('elfi.'):
                        own = [d for d in ix.by_name.get(tgt.split('.')[-1], []) if ix.defs[d][2] is None or d.endswith('.__init__')]
                        if not own and not isinstance(n._parent, ast.Attribute):
                            # a function / class imported from an elfi module outside the footprint modules, or a class without __init__
                            cls_known = any(dd.startswith(tgt.rsplit('.', 1)[0].replace('.', '/') + '.py::' + nm + '.') for dd in ix.defs)
                            if not cls_known:
                                unresolved.setdefault('%s (%s)' % (nm, tgt), k)
                    elif '%s::%s.__init__' % (path, nm) in ix.defs:
                        own = ['%s::%s.__init__' % (path, nm)]
                    for d in own:
                        work.append(d)
                    if nm in ('get_np_random', 'random_seed'):
                        refs.append((k, fn, n, ('elfi', [nm])))
                elif isinstance(n, ast.Attribute) and isinstance(n.ctx, ast.Load):
                    for d in ix.by_name.get(n.attr, []):     # x.m: every footprint function / method named m (over-approximation)
                        work.append(d)
        yield dict(kind='frame[call graph of the seeded path is closed under name resolution]', verdict='discharged',
                   note='%d functions reached from %d roots: %s ...' % (len(order), len(ROOTS), ', '.join(sorted(x.split('::')[1] for x in order))[:400]))
        for what, where in sorted(unresolved.items()):
            yield dict(kind='frame[every elfi function referenced on the seeded path lies in the analysed modules]', verdict='undecided',
                       note='%s referenced in %s is defined outside %s' % (what, where.split('::')[1], ', '.join(MODULES)))
        for need in ('elfi/loader.py::RandomStateLoader.load', 'elfi/executor.py::Executor.execute', 'elfi/executor.py::nx_constant_topological_sort',
                     'elfi/utils.py::get_sub_seed', 'elfi/client.py::ClientBase.load_data', 'elfi/model/elfi_model.py::ComputationContext.__init__',
                     'elfi/clients/native.py::Client.apply_sync', 'elfi/loader.py::PoolLoader.load', 'elfi/compiler.py::RandomStateCompiler.compile'):
            yield dict(kind='frame[call graph reaches %s]' % need.split('::')[1], verdict='discharged' if need in seen else 'undecided', note=need)
        for k, fn, n, (root, chain) in refs:
            where = '%s line %d: %s' % (k.split('::')[1], n.lineno, src(n))
            p = n._parent
            fname = k.split('::')[1]
            if root == 'elfi' and chain == ['get_np_random']:
                ok = guarded_by(n, fn, ("seed == 'global'",))
                yield dict(kind="path-condition[get_np_random is referenced only where seed == 'global']", verdict='discharged' if ok else 'refuted',
                           note=where + (' under `if seed == \'global\'`, seed = %s' % seed_bound_from(fn) if ok else ' is NOT guarded by seed == \'global\''),
                           witness=dict(function=k, line=n.lineno))
                continue
            if root == 'elfi' and chain == ['random_seed']:
                if fname == 'random_seed':
                    continue
                ok = guarded_by(n, fn, ('seed is None',))
                yield dict(kind='path-condition[random_seed() (OS entropy) is referenced only where seed is None]', verdict='discharged' if ok else 'refuted',
                           note=where + (' under `seed is None`' if ok else ' is NOT guarded by seed is None'), witness=dict(function=k, line=n.lineno))
                continue
            if root == 'numpy' and chain == ['random', 'RandomState']:
                if isinstance(p, ast.Call) and p.func is n:
                    if p.args or p.keywords:
                        yield dict(kind='frame[numpy.random is used only as the SEEDED constructor RandomState(arg)]', verdict='discharged', note=where + '(%s)' % src(p.args[0] if p.args else p.keywords[0].value))
                    elif fname == 'random_seed':
                        yield dict(kind='frame[RandomState() (OS entropy) occurs only in random_seed, which is guarded by seed is None]', verdict='discharged', note=where)
                    else:
                        yield dict(kind='frame[numpy.random is used only as the SEEDED constructor RandomState(arg)]', verdict='refuted', note=where + '() draws OS entropy',
                                   witness=dict(function=k, line=n.lineno))
                    continue
                if isinstance(p, ast.Call) and call_name(p) == 'isinstance' and n in p.args[1:]:
                    yield dict(kind='frame[numpy.random.RandomState as a type test]', verdict='discharged', note=where)
                    continue
                if isinstance(p, ast.Tuple) and isinstance(p._parent, ast.Call) and call_name(p._parent) == 'isinstance':
                    yield dict(kind='frame[numpy.random.RandomState as a type test]', verdict='discharged', note=where)
                    continue
                yield dict(kind='frame[numpy.random is used only as the SEEDED constructor RandomState(arg)]', verdict='undecided', note=where + ' (unrecognised use of the class)')
                continue
            if fname == 'get_np_random':
                yield dict(kind='frame[the process-global generator is named only inside get_np_random]', verdict='discharged', note=where)
                continue
            yield dict(kind='frame[no reference to the process-global generator / an unseeded source on the seeded path]', verdict='refuted',
                       note=where + ' is reachable with an integer seed', witness=dict(function=k, line=n.lineno, reference=src(n)))
        # elfi's own stochastic operation hands on the generator it is given
        k = 'elfi/model/utils.py::rvs_from_distribution'
        path, node, cls = ix.defs[k]
        fn = node
        calls = [c for c in ast.walk(fn) if isinstance(c, ast.Call) and call_name(c) == 'rvs']
        ok = len(calls) >= 1 and all(any(kw.arg == 'random_state' and isinstance(kw.value, ast.Name) and kw.value.id == 'random_state' for kw in c.keywords) for c in calls) \
            and 'random_state' in [a.arg for a in fn.args.args + fn.args.kwonlyargs] \
            and not any(isinstance(a, (ast.Assign, ast.AugAssign)) and any(isinstance(t, ast.Name) and t.id == 'random_state' for t in getattr(a, 'targets', [getattr(a, 'target', None)]))
                        for a in ast.walk(fn))
        yield dict(kind='frame[rvs_from_distribution (the operation of every Prior / RandomVariable) draws from the random_state it is handed]',
                   verdict='discharged' if ok else 'refuted', note='%d call(s) of .rvs, each with random_state=random_state' % len(calls) if ok else
                   'a .rvs call does not receive the handed random_state (scipy then uses the global generator)', witness=dict(function=k))


# ====================================================================== F14: the sort key of the randomly named private constants
OWNER, HEX = '\x00OWNER\x00', '\x00HEX:%d\x00'


def _run_real(target, repo, env, args=(), kwargs=None):
    """the REAL function `target` (instrumented, no loop cutting) run natively in the environment `env`"""
    from pyvc import pyspec
    from pyvc.engine import Runtime
    loc = instrument.locate(target, repo)
    code, stats, text = instrument.instrument(loc, ())
    g = pyspec.make_globals()
    g['__builtins__'] = dict(g['__builtins__'], str=str, len=len, isinstance=isinstance)
    g.update(env)
    g['__vc__'] = Runtime(None, None, None)
    exec(code, g)
    return g[loc.node.name], loc


def private_name_scheme(repo=None):
    """Extract, by running the real NodeReference._add_parents -> _new_name -> random_name over marker tokens, how the name of a
    private constant is built from its owner's name.  -> (pieces, sha) with pieces a list of ('lit', str) | ('owner',) | ('hex', n).
    uuid4().hex is assumed to be 32 lowercase hex digits (sanity-tested)."""
    EM = 'elfi/model/elfi_model.py'

    class _Hex:
        def __getitem__(self, sl):
            if not (isinstance(sl, slice) and sl.start in (0, None) and isinstance(sl.stop, int) and sl.step is None and 0 < sl.stop <= 32):
                raise OutOfSubset('uuid4().hex[%r]' % (sl,))
            return _HexTok(sl.stop)

        def __str__(self):
            return HEX % 32

    class _HexTok:
        def __init__(self, n):
            self.n = n

        def __str__(self):
            return HEX % self.n

        def __format__(self, spec):
            return HEX % self.n

    class _U:
        hex = _Hex()

    class _Uuid:
        @staticmethod
        def uuid4():
            return _U()
    random_name, loc_rn = _run_real(EM + '::random_name', repo, {'uuid': _Uuid})
    asked = []

    class _ModelStub:
        def has_node(self, name):
            asked.append(name)
            return False

        def add_edge(self, parent, child, *a, **k):
            pass

    class NodeReference:
        pass

    made = []

    class Constant:
        def __init__(self, value, name=None, model=None, **kw):
            self.name = name
            made.append(name)
    new_name, loc_nn = _run_real(EM + '::NodeReference._new_name', repo, {'random_name': random_name})
    add_parents, loc_ap = _run_real(EM + '::NodeReference._add_parents', repo, {'NodeReference': NodeReference, 'Constant': Constant})

    class _Self:
        name = OWNER
        model = _ModelStub()

        def _new_name(self, basename='', model=None):
            return new_name(self, basename, model)
    try:
        add_parents(_Self(), [0])
    except OutOfSubset:
        raise
    except Exception as e:          # a naming scheme this extraction does not understand: undecided (fail closed)
        raise OutOfSubset('private constant naming: %s: %s' % (type(e).__name__, e))
    if len(made) != 1 or not isinstance(made[0], str):
        raise OutOfSubset('private constant naming: expected one Constant(name=<str>), got %r' % (made,))
    pieces = []
    rest = made[0]
    while rest:
        if rest.startswith(OWNER):
            pieces.append(('owner',))
            rest = rest[len(OWNER):]
        elif rest.startswith('\x00HEX:'):
            j = rest.index('\x00', 1)
            pieces.append(('hex', int(rest[5:j])))
            rest = rest[j + 1:]
        else:
            j = min([rest.index('\x00')] if '\x00' in rest else [len(rest)])
            pieces.append(('lit', rest[:j]))
            rest = rest[j:]
    return pieces, [loc_rn.sha256, loc_nn.sha256, loc_ap.sha256]


def observed_name_scheme(repo=None):
    fn, loc = _run_real('elfi/utils.py::observed_name', repo, {})
    r = fn(OWNER)
    if not isinstance(r, str) or r.count(OWNER) != 1:
        raise OutOfSubset('observed_name scheme %r' % (r,))
    a, b = r.split(OWNER)
    return [('lit', a), ('owner',), ('lit', b)]


class NameOrder(SynContract):
    """C02/nx_constant_topological_sort/post[user-node order is a function of the user-visible graph]

    The sort is comparison based (reads-frame: names are only compared by sorted() and tested for membership).  Re-building the same
    user model re-draws the random suffixes, i.e. applies a renaming phi of the private constants (identity on every other name).  If phi
    is MONOTONE for the sort key (python str order on the full names) the run on phi(G) is the phi-image of the run on G and the
    projections onto user nodes coincide.  Monotonicity is decided pairwise with z3's string theory over names of bounded length:
      user name vs private constant, reserved name vs private constant   -> must not depend on the suffix
      private constants of two DIFFERENT owners                           -> must not depend on the suffixes      [F14: fails]
      observed copy of another owner vs private constant                  -> must not depend on the suffix        [F14 family]
    (two constants of the SAME owner do change places; both are parent-less with the single child `owner`, so that only swaps the two
    constants - paper argument, exercised by the bounded stand-in.)  The step `monotone => equal projection` is a paper argument."""
    label = 'F14-name-order'
    target = 'elfi/executor.py::nx_constant_topological_sort'
    MAXLEN = 8

    def obligations(self, repo):
        import z3
        loc, fn = fn_ast(self.target, repo)
        # the sort key: sorted() without key= on the full names (else this analysis does not apply)
        sorts = [c for c in ast.walk(fn) if isinstance(c, ast.Call) and isinstance(c.func, ast.Name) and c.func.id == 'sorted']
        _CUR_TREE[0] = instrument._parse(self.target.split('::')[0], repo)[1]
        plain = bool(sorts) and all(len(c.args) == 1 and sort_call_class(c)[0] == 'injective' and not any(k.arg == 'reverse' for k in c.keywords) for c in sorts)
        yield dict(kind='frame[the sort key is the full node name under python str order (sorted() without key=)]',
                   verdict='discharged' if plain else 'undecided', note='%d sorted() call(s)' % len(sorts))
        if not plain:
            return
        pieces, shas = private_name_scheme(repo)
        obs = observed_name_scheme(repo)
        yield dict(kind='frame[naming scheme of private constants extracted from the real _add_parents/_new_name/random_name]', verdict='discharged',
                   note='name = ' + ' + '.join(repr(p[1]) if p[0] == 'lit' else ('<owner>' if p[0] == 'owner' else '<%d hex digits>' % p[1]) for p in pieces))
        if not any(p[0] == 'hex' for p in pieces):
            yield dict(kind='post[user-node order is a function of the user-visible graph: private names are deterministic]', verdict='discharged',
                       note='no random component in the private-constant names')
            return
        nhex = [p[1] for p in pieces if p[0] == 'hex'][0]
        N = self.MAXLEN
        END = z3.IntVal(-1)                     # end-of-string marker: below every character, so a proper prefix sorts first (python str order)

        class Str:
            """a string of bounded symbolic length as (len, chars[0..cap)) over integer code points"""

            def __init__(self, ln, chars):
                self.len, self.chars = ln, chars

            def at(self, i):                    # i: python int; END beyond the end
                r = END
                for j in range(len(self.chars) - 1, -1, -1):
                    r = z3.If(z3.And(self.len > j, i == j), self.chars[j], r) if not isinstance(i, int) else (z3.If(self.len > j, self.chars[j], END) if i == j else r)
                return r

        def lit(t):
            return Str(z3.IntVal(len(t)), [z3.IntVal(ord(c)) for c in t])

        def var(name, cap):
            return Str(z3.Int(name + '.len'), [z3.Int('%s[%d]' % (name, j)) for j in range(cap)])

        def concat(parts):
            """chars of the concatenation at every absolute position (symbolic lengths)"""
            cap = sum(len(p.chars) for p in parts)
            out = []
            for i in range(cap):
                r = END
                off = z3.IntVal(0)
                offs = []
                for p in parts:
                    offs.append(off)
                    off = off + p.len
                for p, o in reversed(list(zip(parts, offs))):
                    for j in range(len(p.chars) - 1, -1, -1):
                        r = z3.If(z3.And(o + j == i, p.len > j), p.chars[j], r)
                out.append(z3.simplify(r))
            return Str(z3.simplify(off), out)

        def lt(a, b):
            cap = max(len(a.chars), len(b.chars)) + 1
            r = z3.BoolVal(False)
            for i in range(cap - 1, -1, -1):
                ai = a.chars[i] if i < len(a.chars) else END
                bi = b.chars[i] if i < len(b.chars) else END
                ai = z3.If(a.len > i, ai, END) if i < len(a.chars) else END
                bi = z3.If(b.len > i, bi, END) if i < len(b.chars) else END
                r = z3.If(ai < bi, True, z3.If(ai > bi, False, r))
            return r

        def is_ident_char(c):
            return z3.Or(z3.And(c >= 48, c <= 57), z3.And(c >= 65, c <= 90), c == 95, z3.And(c >= 97, c <= 122))

        def user(u):
            return z3.And([u.len >= 1, u.len <= N, u.chars[0] != 95] + [is_ident_char(c) for c in u.chars])

        def sfx(x):
            return z3.And([x.len == nhex] + [z3.Or(z3.And(c >= 48, c <= 57), z3.And(c >= 97, c <= 102)) for c in x.chars])

        def build(pcs, owner, sf):
            return concat([lit(p[1]) if p[0] == 'lit' else (owner if p[0] == 'owner' else sf) for p in pcs])

        def text(m, x):
            n = m.eval(x.len, model_completion=True).as_long()
            return ''.join(chr(m.eval(c, model_completion=True).as_long()) for c in x.chars[:n])
        o1, o2, u = var('o1', N), var('o2', N), var('u', N)
        s1, s2, t1, t2 = [var(n, nhex) for n in ('s1', 's2', 't1', 't2')]
        P = lambda o, s: build(pieces, o, s)
        O = lambda o: build(obs, o, None)

        def neq(a, b):
            return z3.Or(lt(a, b), lt(b, a))

        def decide(hyp, goal, names):
            sv = z3.Solver()
            sv.set('timeout', 30000)
            sv.add(hyp)
            sv.add(z3.Not(goal))
            r = sv.check()
            if r == z3.unsat:
                return 'discharged', None
            if r == z3.sat:
                m = sv.model()
                return 'refuted', {n: text(m, v) for n, v in names.items()}
            return 'undecided', None
        ZB = 'z3-%s(bounded strings)' % z3.get_version_string()
        bound = 'all names of length 1..%d over [A-Za-z0-9_] not starting with "_", all %d-digit hex suffixes (integer code-point encoding, z3)' % (N, nhex)
        base = 'post[user-node order is a function of the user-visible graph: '
        v, w = decide([user(u), user(o1), sfx(s1), sfx(t1)], lt(u, P(o1, s1)) == lt(u, P(o1, t1)), dict(u=u, o1=o1, s1=s1, t1=t1))
        yield dict(kind=base + 'a user name and a private constant keep their relative sort position when the suffix is re-drawn]', verdict=v,
                   note=bound, witness=w, backend=ZB)
        for r in ('_random_state', '_batch_size', '_meta'):
            v, w = decide([user(o1), sfx(s1), sfx(t1)], lt(lit(r), P(o1, s1)) == lt(lit(r), P(o1, t1)), dict(o1=o1, s1=s1, t1=t1))
            yield dict(kind=base + 'the instruction node %s and a private constant keep their relative sort position]' % r, verdict=v, note=bound, witness=w, backend=ZB)
        # names DERIVED from two different owners: private constant vs private constant, observed copy vs private constant.
        # Witness preference (the obligation is the universal statement either way): two private constants of owners that start with a
        # lower-case letter - then every user name sorts after every private name and the constants are the first DFS roots.
        lower = lambda o: z3.And(o.chars[0] >= 97, o.chars[0] <= 122)
        hyp = [user(o1), user(o2), neq(o1, o2), sfx(s1), sfx(s2), sfx(t1), sfx(t2)]
        goal_pp = lt(P(o1, s1), P(o2, s2)) == lt(P(o1, t1), P(o2, t2))
        goal_op = lt(O(o2), P(o1, s1)) == lt(O(o2), P(o1, t1))
        names = dict(o1=o1, o2=o2, s1=s1, s2=s2, t1=t1, t2=t2)
        v, w = decide(hyp + [lower(o1), lower(o2), s2.chars[0] == t2.chars[0], s2.chars[1] == t2.chars[1], s2.chars[2] == t2.chars[2], s2.chars[3] == t2.chars[3]]
                      if nhex == 4 else hyp, goal_pp, names)
        kind_w = 'two-priors'
        if v == 'discharged':
            v, w = decide(hyp, goal_pp, names)
        if v == 'discharged':
            v, w = decide(hyp, goal_op, names)
            kind_w = 'observed-copy'
        yield dict(kind=base + 'names derived from DIFFERENT owners (private constants, observed copies) keep their relative sort position when the random suffixes are re-drawn]',
                   verdict=v, note=('counter-model (%s): owners %r, %r with suffixes %s/%s vs %s/%s' % (kind_w, w['o1'], w['o2'], w['s1'], w['s2'], w['t1'], w['t2'])) if w else bound,
                   witness=dict(w, kind=kind_w) if w else None, backend=ZB)


# ====================================================================== writers of loaded nets that use a context of their own
class FreshContextFrame(SynContract):
    """cache_consistent holds trivially for a context that is created for ONE load_data call: its executor cache is empty.
    Checked: (i) ComputationContext.__init__ binds self.caches to a literal {'executor': {}, 'sub_seed': {}};
    (ii) in ElfiModel.generate, ModelPrior.rvs, ModelPrior._evaluate_pdf the context handed to load_data is a local bound exactly once,
    to a ComputationContext(...) call, and load_data is called once (no loop) - so overriding nodes afterwards (rvs, _evaluate_pdf)
    cannot make an EARLIER cache entry stale."""
    label = 'fresh-context-frame'
    target = 'elfi/model/elfi_model.py::ComputationContext.__init__'
    USERS = ['elfi/model/elfi_model.py::ElfiModel.generate', 'elfi/model/extensions.py::ModelPrior.rvs', 'elfi/model/extensions.py::ModelPrior._evaluate_pdf']

    def obligations(self, repo):
        loc, fn = fn_ast(self.target, repo)
        ok = False
        for a in ast.walk(fn):
            if isinstance(a, ast.Assign) and len(a.targets) == 1 and src(a.targets[0]) == 'self.caches' and isinstance(a.value, ast.Dict):
                keys = [k.value for k in a.value.keys if isinstance(k, ast.Constant)]
                ok = sorted(keys) == ['executor', 'sub_seed'] and all(isinstance(v, ast.Dict) and not v.keys for v in a.value.values)
        writes = [a for a in ast.walk(fn) if isinstance(a, (ast.Assign, ast.AugAssign)) and 'caches' in src(a.targets[0] if isinstance(a, ast.Assign) else a.target)]
        yield dict(kind="frame[a new ComputationContext has empty caches: self.caches = {'executor': {}, 'sub_seed': {}}, bound once]",
                   verdict='discharged' if ok and len(writes) == 1 else 'undecided', note='%d assignment(s) to caches in __init__' % len(writes))
        for t in self.USERS:
            try:
                l2, f2 = fn_ast(t, repo)
            except OutOfSubset as e:
                yield dict(kind='frame[%s loads with a context of its own]' % t.split('::')[1], verdict='undecided', note=str(e))
                continue
            loads = [c for c in ast.walk(f2) if isinstance(c, ast.Call) and call_name(c) == 'load_data']
            good = len(loads) == 1
            note = '%d load_data call(s)' % len(loads)
            if good:
                c = loads[0]
                arg = c.args[1] if len(c.args) >= 2 else next((kw.value for kw in c.keywords if kw.arg == 'context'), None)
                in_loop = any(isinstance(p, (ast.For, ast.While)) for p in _ancestors(c))
                defs = [a for a in ast.walk(f2) if isinstance(a, ast.Assign) and isinstance(arg, ast.Name) and any(isinstance(x, ast.Name) and x.id == arg.id for x in a.targets)]
                good = isinstance(arg, ast.Name) and not in_loop and len(defs) == 1 and isinstance(defs[0].value, ast.Call) and call_name(defs[0].value) == 'ComputationContext' \
                    and not any(isinstance(p, (ast.For, ast.While)) for p in _ancestors(defs[0]))
                note = 'load_data(..., %s, ...) with %s' % (src(arg), src(defs[0])[:80] if defs else '?')
            yield dict(kind='frame[%s loads once, with a ComputationContext created in the same call (empty executor cache)]' % t.split('::')[1],
                       verdict='discharged' if good else 'undecided', note=note)


def _ancestors(n):
    while getattr(n, '_parent', None) is not None:
        n = n._parent
        yield n
