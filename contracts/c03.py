"""C03 - Compiled execution equals the dataflow meaning of the user's graph.

Functions under contract (REAL bodies read from the tree at run time, executed over the symbolic networkx / dict-heap proxies of pyvc.nxspec):
  Executor._run, Executor.execute, Executor.get_execution_order                                   (elfi/executor.py)
  OutputCompiler.compile, ObservedCompiler.make_observed_copy, ObservedCompiler.compile (final "observed data must be deterministic" loop
  under its own contract), AdditionalNodesCompiler.compile, ReduceCompiler.compile + utils.nbunch_ancestors        (elfi/compiler.py, elfi/utils.py)
  ObservedLoader.load, AdditionalNodesLoader.load                                                                  (elfi/loader.py)
Ghost lemma exec_sem (lemmas/c03_lemmas.py): one step of the induction "output = sem" along the execution order.

Spec side (independent of the code):
  Pack                the (positional args, keyword args) of ONE python call: plen(pk), parg(pk, i), kdom(pk, k), kval(pk, k)
  apply(op, pk)       uninterpreted: the value an operation returns for a call
  args_of(g, out, x, pk)  pk holds exactly: the outputs of the positional parents of x, each once, ordered by their integer param, and
                      {name: output} of the named in-edges of x (witnessed by ghost position functions)
  calls(x)            ghost invocation counter of the operation of node x
  anc(E, a, x)        a is an ancestor of x in the edge relation E (assumed networkx contract, exact in finitised mode by unrolling)
"""
MANIFEST = {
    'category': 'proof',
    'text': 'The real bodies of Executor._run / execute / get_execution_order, of the compiler passes OutputCompiler, AdditionalNodesCompiler, '
            'ReduceCompiler, ObservedCompiler.make_observed_copy / compile (twin wiring with an order-dependent invariant, and the rejection loop under its own contract), and of ObservedLoader / '
            'AdditionalNodesLoader are executed over a symbolic networkx DiGraph on an explicit dict heap; the clauses of the statement (operation called '
            'exactly once with the parents\' outputs ordered by integer param and the named ones as keywords, outputs of needed nodes = apply(op, ...), '
            'no other node touched, execution order = needed + ancestors among the nodes without a value, compiled graph = source graph + the stated '
            'helper edges, rejection iff a stochastic node is an ancestor of a used observed twin) are SMT obligations for ALL graphs, with visited-set loop '
            'invariants. The whole pipeline (observed twins, reduce, supplied values, call counts) is additionally run on the real classes over an '
            'enumerated/sampled space of small models with term-recording operations (labelled bounded stand-in, replay vehicle).',
    'note': 'Trusted: pyvc engine, pyvc.nxspec (networkx / dict / list model, sanity-tested), nx.ancestors exactness, topological order of '
            'nx_constant_topological_sort (C02), PoolLoader (C05), RandomState passes (C02). The composition of the five compiler passes and the loaders '
            'into client.compile / load_data is bounded only; cache hits of the execution order rely on a cross-batch invariant that is not proved.',
    'technique': 'deductive: SMT VCs from the real AST over a symbolic graph + dict heap (pyvc, z3/cvc5), set-iteration invariants, modular stubs; '
                 'bounded stand-in: all models <= 3 nodes, samples at 4 (quick) / 4-5 (thorough) nodes',
}

import ast
import operator

import z3

from pyvc import instrument, nxspec, pyspec
from pyvc.core import cur, OutOfSubset, program_exception, forall_range
from pyvc.engine import Contract, Loop, NS, Stub
from pyvc.nxspec import SDiGraph, SDict, SVal, SNodeName, SNodeSet, SList, SParam, Heap, theory, _need, _zi
from pyvc.values import SInt, SBool, Sym

EXF, CMF, LDF, UTF = 'elfi/executor.py', 'elfi/compiler.py', 'elfi/loader.py', 'elfi/utils.py'

LITS = ('attr_dict', 'operation', 'output', '_operation', '_output', 'outputs', 'observed', 'name', '_executor_cache', '_stochastic',
        '_observable', '_uses_observed', '_uses_batch_size', '_uses_meta', 'batch_index', 'submission_index', 'master_seed', 'model_name', '?other0')

BoolS, IntS = z3.BoolSort(), z3.IntSort()


# ====================================================================== per-VC context: theory, heap, spec functions
class Ctx:
    def __init__(self, vc, nodes=3, refs=8, strs=2, lits=LITS):
        self.vc = vc
        th = self.th = theory(vc, nodes=nodes, refs=refs, strs=strs, lits=lits)
        self.H = Heap(th)
        th.default_heap = self.H
        tag = str(th.Node)
        self.Pack = z3.DeclareSort('Pack')
        self.plen = z3.Function('plen', self.Pack, IntS)
        self.parg = z3.Function('parg' + tag, self.Pack, IntS, th.Val)
        self.kdom = z3.Function('kdom' + tag, self.Pack, th.Str, BoolS)
        self.kval = z3.Function('kval' + tag, self.Pack, th.Str, th.Val)
        self.apply = z3.Function('apply' + tag, th.Val, self.Pack, th.Val)
        self.members = z3.Function('members' + tag, th.Val, th.Node, BoolS)      # the node names held by a collection object (graph['outputs'])
        self.truthy = z3.Function('truthy' + tag, th.Val, BoolS)                 # bool(v) of an opaque value
        self.obsname = z3.Function('observed_name' + tag, th.Node, th.Node)      # utils.observed_name: '_<name>_observed' (injective)
        self.calls = []                                                          # python-level record of FnSpec calls on this path
        th.c03 = self
        th.merge_get = True
        th.node_lit, th.str_lit = self.node_lit, self.str_lit
        self._nlits, self._slits = {}, {}

    def node_lit(self, name):
        """the node called `name` (a literal in the analysed code): distinct literals are distinct nodes"""
        if name not in self._nlits:
            c = z3.Const('node:' + name, self.th.Node)
            for o in self._nlits.values():
                self.vc.assume(c != o)
            self._nlits[name] = c
        return self._nlits[name]

    def str_lit(self, name):
        """a literal parameter name: distinct literals are distinct strings"""
        if name not in self._slits:
            c = z3.Const('str:' + name, self.th.Str)
            for o in self._slits.values():
                self.vc.assume(c != o)
            self._slits[name] = c
        return self._slits[name]

    def lit(self, s):
        return self.th.klit(s)


def ctx_of(th=None):
    return (th or theory()).c03


# ---- views of a graph state
def nd_has(th, g, h, x, key):
    return h.has(g.nattr(x), th.klit(key))


def nd_val(th, g, h, x, key):
    return h.val(g.nattr(x), th.klit(key))


def pos_edge(th, g, p, x):
    return z3.And(g.edge(p, x), th.Param.is_ppos(g.param(p, x)))


def named_edge(th, g, p, x):
    return z3.And(g.edge(p, x), th.Param.is_pname(g.param(p, x)))


def pint(th, g, p, x):
    return th.Param.pos_of(g.param(p, x))


def pname(th, g, p, x):
    return th.Param.pname_of(g.param(p, x))


def graph_wf(th, g, h):
    return z3.And(th.forall_nodes(lambda u, v: z3.Implies(g.edge(u, v), z3.And(g.node(u), g.node(v))), 2),
                  th.forall_nodes(lambda u, v: z3.Implies(z3.And(g.node(u), g.node(v), u != v), g.nattr(u) != g.nattr(v)), 2),
                  th.forall_nodes(lambda u: z3.Implies(g.node(u), z3.And(h.alloc(g.nattr(u)), g.nattr(u) != g.gref))),
                  h.alloc(g.gref))


def edges_have_param(th, g):
    return th.forall_nodes(lambda u, v: z3.Implies(g.edge(u, v), z3.Not(th.Param.is_pabsent(g.param(u, v)))), 2)


def names_distinct(th, g, x=None):
    """the keyword names on the in-edges of a node are pairwise distinct (a python call cannot receive one keyword twice)"""
    body = lambda p, q, c: z3.Implies(z3.And(named_edge(th, g, p, c), named_edge(th, g, q, c), p != q), pname(th, g, p, c) != pname(th, g, q, c))
    if x is not None:
        return th.forall_nodes(lambda p, q: body(p, q, x), 2)
    return th.forall_nodes(body, 3)


def args_of(cx, g, out, x, pk, pos, own):
    """SPEC: the call pack pk of node x in graph state g, given the parents' outputs out(p).
    pos(p): position of positional parent p; own(i): the parent at position i (ghost witnesses)."""
    th = cx.th
    return [('every positional parent is passed exactly once at its position',
             th.forall_nodes(lambda p: z3.Implies(pos_edge(th, g, p, x), z3.And(pos(p) >= 0, pos(p) < cx.plen(pk), own(pos(p)) == p,
                                                                               cx.parg(pk, pos(p)) == out(p))))),
            ('nothing else is passed positionally',
             z3.And(cx.plen(pk) >= 0, forall_range(0, cx.plen(pk), lambda i: z3.And(pos_edge(th, g, own(i), x), pos(own(i)) == i), 'i'))),
            ('positional order = order of the integer params',
             th.forall_nodes(lambda p, q: z3.Implies(z3.And(pos_edge(th, g, p, x), pos_edge(th, g, q, x), pint(th, g, p, x) < pint(th, g, q, x)),
                                                     pos(p) < pos(q)), 2)),
            ('keyword arguments = {param name: parent output} of the named edges',
             th.forall_nodes(lambda p: z3.Implies(named_edge(th, g, p, x), z3.And(cx.kdom(pk, pname(th, g, p, x)), cx.kval(pk, pname(th, g, p, x)) == out(p))))),
            ('no other keyword is passed',
             th.forall_strs(lambda k: z3.Implies(cx.kdom(pk, k), th.exists_nodes(lambda p: z3.And(named_edge(th, g, p, x), pname(th, g, p, x) == k)))))]


# ====================================================================== proxies (library / python-call models)
class StarArgs:
    """what `f(*lst)` passes when lst is a list of symbolic length: ONE marker standing for all its elements"""

    def __init__(self, lst):
        object.__setattr__(self, 'lst', lst)

    def __getattr__(self, k):
        raise OutOfSubset('use of the elements of a symbolic list outside a call (%s)' % k)

    def __getitem__(self, k):
        raise OutOfSubset('use of the elements of a symbolic list outside a call')


LEX_TABLE = 12      # finitised mode: str(int) order is tabulated for 0 <= int < LEX_TABLE (positional params are bounded by it there)


def lexlt(cx, a, b):
    """SPEC of python's order of str(param) on Param terms (a positional param prints as its decimal digits).
    Finitised mode: the concrete order (decimal strings of the ints below LEX_TABLE; names by a fixed total order; digits before names).
    Proof mode: an uninterpreted strict total order that agrees with < on single-digit ints (sound facts only)."""
    th = cx.th
    P = th.Param
    if th.fin:
        ia, ib = P.pos_of(a), P.pos_of(b)
        tab = z3.Or([z3.And(ia == i, ib == j) for i in range(LEX_TABLE) for j in range(LEX_TABLE) if str(i) < str(j)])
        su = list(th.str_u)
        names = z3.Or([z3.And(P.pname_of(a) == su[i], P.pname_of(b) == su[j]) for i in range(len(su)) for j in range(len(su)) if i < j] or [z3.BoolVal(False)])
        return z3.If(z3.And(P.is_ppos(a), P.is_ppos(b)), tab,
                     z3.If(z3.And(P.is_pname(a), P.is_pname(b)), names, z3.And(P.is_ppos(a), P.is_pname(b))))
    f = cx.__dict__.get('_lexlt')
    if f is None:
        f = cx._lexlt = z3.Function('str_lt', P, P, BoolS)
        x, y, w = z3.Consts('lx ly lz', P)
        i, j = z3.Ints('li lj')
        cx.vc.assume(z3.ForAll([x], z3.Not(f(x, x))),
                     z3.ForAll([x, y, w], z3.Implies(z3.And(f(x, y), f(y, w)), f(x, w))),
                     z3.ForAll([x, y], z3.Or(x == y, f(x, y), f(y, x))),
                     z3.ForAll([i, j], z3.Implies(z3.And(0 <= i, i <= 9, 0 <= j, j <= 9), f(P.ppos(i), P.ppos(j)) == (i < j))))
    return f(a, b)


class LexKey(Sym):
    """str(param): only its ORDER is modelled (sort key)"""

    def __init__(self, t):
        self.t = t

    def _no(self, *a):
        raise OutOfSubset('use of str(param) other than as a sort key')

    __eq__ = __ne__ = __add__ = __getitem__ = __len__ = _no
    __hash__ = Sym.__hash__


def vc_str(x='', *a):
    if isinstance(x, SParam):
        return LexKey(x.t)
    if isinstance(x, Sym):
        raise OutOfSubset('str(%s)' % type(x).__name__)
    return str(x, *a)


vc_str._vc_models = str


def _subst_value(v, g, t):
    """the proxy value v (built over the generic constant g) at t"""
    if isinstance(v, tuple):
        return tuple(_subst_value(x, g, t) for x in v)
    if isinstance(v, SVal):
        return SVal(v.heap, z3.substitute(v.t, (g, t)))
    if isinstance(v, (SParam, SNodeName, SInt, SBool, LexKey)):
        return type(v)(z3.substitute(v.t, (g, t)))
    raise OutOfSubset('element of type %s in a symbolic comprehension' % type(v).__name__)


class ArgList(SList):
    """SList of per-parent values that can be star-unpacked into a call of a spec function (FnSpec).  It carries the ghost position witnesses
    ghost.idx(parent) / ghost.own(index) through sorted() (also by str(param): LexKey), mapping and FILTERING comprehensions and dict comprehensions."""

    def _wrap(self, o, ghost=None):
        return ArgList(o.n, o.elt, ghost if ghost is not None else self.ghost)

    def _generic(self, f):
        """evaluate f(elt(g)) for a generic index g of the list (obligations it emits hold for every index) -> (g, result)"""
        vc = cur()
        g = vc.fresh_int('gi')
        saved = len(vc.pc)
        vc.pc.append(z3.And(g >= 0, g < self.n))
        try:
            r = f(self.elt(g))
        finally:
            del vc.pc[saved:]
        return g, r

    def _vc_sorted(self, key=None, reverse=False):
        if reverse:
            raise OutOfSubset('sorted(reverse=True)')
        vc, cx = cur(), ctx_of()
        g, k = self._generic(lambda e: key(e) if key is not None else e)
        if isinstance(k, LexKey):
            n, elt = self.n, self.elt
            pi, pinv = vc.fresh_fn('sort.pi', IntS, IntS), vc.fresh_fn('sort.pinv', IntS, IntS)
            kt = lambda i: z3.substitute(k.t, (g, _zi(i)))
            vc.assume(forall_range(0, n, lambda i: z3.And(pi(i) >= 0, pi(i) < n, pinv(pi(i)) == i, pinv(i) >= 0, pinv(i) < n, pi(pinv(i)) == i), 'i'),
                      forall_range(0, n, lambda i: forall_range(0, n, lambda j: z3.Implies(i <= j, z3.Not(lexlt(cx, kt(pi(j)), kt(pi(i))))), 'j'), 'i'))
            out = SList(n, lambda i: elt(pi(_zi(i))))
            vc.libcall('sorted', dict(pi=pi, pinv=pinv, n=n, src=self, out=out, by='str'))
        else:
            out = SList._vc_sorted(self, key, reverse)
            rec = vc.libcalls['sorted'][-1]
            pi, pinv = rec['pi'], rec['pinv']
        gh = None
        if self.ghost is not None:
            idx0, own0 = self.ghost.idx, self.ghost.own
            gh = NS(idx=lambda p: pinv(idx0(p)), own=lambda i: own0(pi(i)))
        return ArgList(out.n, out.elt, gh)

    def _cond(self, cond_fn):
        g, c = None, None
        vc = cur()
        g = vc.fresh_int('gi')
        saved = len(vc.pc)
        vc.pc.append(z3.And(g >= 0, g < self.n))
        try:
            c = nxspec.summarise_bool(lambda: cond_fn(self.elt(g)))
        finally:
            del vc.pc[saved:]
        return lambda i: z3.substitute(c, (g, _zi(i)))

    def _vc_listcomp(self, elt_fn, cond_fn):
        if cond_fn is None:
            return self._wrap(SList._vc_listcomp(self, elt_fn, None))
        # [f(e) for e in lst if c(e)]: the order-preserving sub-list.  emb: position in the result -> index in lst; rnk: its inverse on the kept indices
        vc = cur()
        c = self._cond(cond_fn)
        n, elt = self.n, self.elt
        m = vc.fresh_int('kept.n', nonneg=True, size=True)
        emb, rnk = vc.fresh_fn('kept.emb', IntS, IntS), vc.fresh_fn('kept.rnk', IntS, IntS)
        vc.assume(forall_range(0, m, lambda j: z3.And(emb(j) >= 0, emb(j) < n, c(emb(j)), rnk(emb(j)) == j), 'j'),
                  forall_range(0, n, lambda i: z3.Implies(c(i), z3.And(rnk(i) >= 0, rnk(i) < m, emb(rnk(i)) == i)), 'i'),
                  forall_range(0, n, lambda i: forall_range(0, n, lambda j: z3.Implies(z3.And(c(i), c(j), i < j), rnk(i) < rnk(j)), 'j'), 'i'))
        gh = None
        if self.ghost is not None:
            idx0, own0 = self.ghost.idx, self.ghost.own
            gh = NS(idx=lambda p: rnk(idx0(p)), own=lambda i: own0(emb(i)))
        return ArgList(m, lambda j: elt_fn(elt(emb(_zi(j)))), gh)

    def _vc_dictcomp(self, key_fn, val_fn, cond_fn):
        """{k(e): v(e) for e in lst if c(e)} with parameter-name keys: a KwDict; the LAST kept element with a name wins (ghost witness widx)"""
        cx = ctx_of()
        th, vc = cx.th, cx.vc
        c = self._cond(cond_fn) if cond_fn is not None else (lambda i: z3.BoolVal(True))
        g, kv = self._generic(lambda e: (key_fn(e), val_fn(e)))
        if not isinstance(kv[0], SParam):
            raise OutOfSubset('dict comprehension over a parameter list whose keys are not params')
        n = self.n
        kt = lambda i: z3.substitute(kv[0].t, (g, _zi(i)))
        vt = lambda i: z3.substitute(cx.H.to_val(kv[1]), (g, _zi(i)))
        gi = vc.fresh_int('gi')
        saved = len(vc.pc)
        vc.pc.append(z3.And(gi >= 0, gi < n, c(gi)))
        vc.oblige('call-pre[keyword names are str]', th.Param.is_pname(kt(gi)))
        del vc.pc[saved:]
        name = lambda i: th.Param.pname_of(kt(i))
        D = KwDict.fresh('kwargs')
        w = vc.fresh_fn('kwargs.widx', th.Str, IntS)
        vc.assume(th.forall_strs(lambda q: z3.Implies(D.dom(q), z3.And(w(q) >= 0, w(q) < n, c(w(q)), name(w(q)) == q, D.val(q) == vt(w(q))))),
                  forall_range(0, n, lambda i: z3.Implies(c(i), z3.And(D.dom(name(i)), i <= w(name(i)))), 'i'))
        return D

    def _vc_list(self):
        return self._wrap(SList._vc_list(self))

    def __iter__(self):
        return iter([StarArgs(self)])


class PredView(nxspec.NameSetView):
    """G.predecessors(n): a comprehension / generator expression whose element is a TUPLE of per-parent values gives the list of those tuples
    in an unspecified order, one entry per parent (ghost: idx(parent), own(index))"""

    def _vc_listcomp(self, elt_fn, cond_fn):
        th = theory()
        vc = th.vc
        g = th.fresh_node('comp')
        saved = len(vc.pc)
        vc.pc.append(self.mem(g))
        try:
            out = elt_fn(SNodeName(g))
        finally:
            del vc.pc[saved:]
        if isinstance(out, SNodeName) and z3.eq(out.t, g):
            return nxspec.NameSetView._vc_listcomp(self, elt_fn, cond_fn)
        if cond_fn is not None or not isinstance(out, tuple):
            raise OutOfSubset('comprehension over a predecessor set: element %s' % type(out).__name__)
        P = NameSeq.of_set(self.mem, 'parents')
        return ArgList(P.n, lambda i: _subst_value(out, g, P.at(i)), ghost=NS(idx=P.idx, own=lambda i: P.at(i)))


class RunGraph(SDiGraph):
    def predecessors(self, n):
        v = SDiGraph.predecessors(self, n)
        return PredView(v.G, v.mem)


class KwDict(Sym):
    """a python dict {str: value} with symbolic keys: dom(k), val(k) over the sort Str.  `f(**d)` passes ONE marker keyword."""
    MARK = nxspec.KW

    def __init__(self, dom, val):
        self.dom, self.val, self.t = dom, val, None

    @classmethod
    def fresh(cls, name='kwargs'):
        th = theory()
        d = th.vc.fresh_fn(name + '.dom', th.Str, BoolS)
        v = th.vc.fresh_fn(name + '.val', th.Str, th.Val)
        return cls(lambda k: d(k), lambda k: v(k))

    @classmethod
    def empty(cls):
        th = theory()
        return cls(lambda k: z3.BoolVal(False), lambda k: th.Val.vnone)

    def __setitem__(self, k, v):
        th = theory()
        if not isinstance(k, SParam):
            raise OutOfSubset('keyword dict key of type %s' % type(k).__name__)
        _need('call-pre[keyword names are str]', th.Param.is_pname(k.t))
        name, vt = th.Param.pname_of(k.t), ctx_of(th).H.to_val(v)
        dom, val = self.dom, self.val
        self.dom = lambda q: z3.Or(q == name, dom(q))
        self.val = lambda q: z3.If(q == name, vt, val(q))

    def keys(self):
        return [self.MARK]

    def __getitem__(self, k):
        if k == self.MARK:
            return self
        raise OutOfSubset('read of a symbolic keyword dict')

    __hash__ = Sym.__hash__


class FnSpec(Sym):
    """a node operation: an opaque callable value.  Calling it records the call pack and returns apply(fn, pack)."""

    def __init__(self, t):
        self.t = t

    def __call__(self, *a, **k):
        cx = ctx_of()
        th, vc = cx.th, cx.vc
        if len(a) == 1 and isinstance(a[0], StarArgs):
            L = a[0].lst
        elif not any(isinstance(x, StarArgs) for x in a):
            L = SList.of(list(a)) if a else SList(z3.IntVal(0), lambda i: SVal(cx.H, th.Val.vnone))
        else:
            raise OutOfSubset('call mixing explicit and star arguments')
        if set(k) == {KwDict.MARK}:
            D = k[KwDict.MARK]
        elif not k:
            D = KwDict.empty()
        else:
            raise OutOfSubset('call with explicit keyword arguments %s' % sorted(k))
        pk = vc.fresh('pack', cx.Pack)
        val = lambda i: cx.H.to_val(L.elt(i))
        vc.assume(cx.plen(pk) == L.n,
                  forall_range(0, L.n, lambda i: cx.parg(pk, i) == val(i), 'i'),
                  th.forall_strs(lambda q: z3.And(cx.kdom(pk, q) == D.dom(q), z3.Implies(D.dom(q), cx.kval(pk, q) == D.val(q)))))
        cx.calls.append(NS(fn=self.t, L=L, D=D, pk=pk))
        return SVal(cx.H, cx.apply(self.t, pk))

    __hash__ = Sym.__hash__


def _tier():
    import os
    import sys
    if '--tier' in sys.argv[:-1]:
        return sys.argv[sys.argv.index('--tier') + 1]
    return os.environ.get('VERIF_TIER', 'quick')


class C03Contract(Contract):
    prop = 'C03'
    fin = 3
    nodes, refs, strs = 3, 8, 2
    lits = ('operation', 'output', 'outputs', '?other0')

    def base(self, vc, cls=None):
        cx = self._cx = Ctx(vc, self.nodes, self.refs, self.strs, self.lits)
        th = cx.th
        vc.axioms = []
        G = (cls or SDiGraph)(cx.H, 'G', 'sym')
        s = NS(cx=cx, th=th, H=cx.H, G=G)
        s.g0, s.h0 = G.snap(), cx.H.snap()
        return s

    def name(self, s, nm):
        return SNodeName(z3.Const(nm, s.th.Node))

    def env(self, vc):
        return {'nx': nxspec.module(), 'itemgetter': operator.itemgetter}

    def witness(self, vc, model, ob):
        return dict(note='counter-model is a symbolic graph over the finitised node universe; replay by the bounded pipeline harness (bounded/c03.py)')


def _same_graph(s):
    g = s.g0
    return z3.BoolVal(s.G.node is g.node and s.G.edge is g.edge and s.G.param is g.param and s.G.nattr is g.nattr)


def _same_heap(s):
    return z3.BoolVal(s.H.has is s.h0.has and s.H.val is s.h0.val and s.H.alloc is s.h0.alloc)


# ====================================================================== Executor._run
def _acc_names(target):
    """names of the two accumulators of _run: the locals bound to `[]` and `{}` before the loop (read from the source: renaming them does not matter)"""
    loc = instrument.locate(target)
    lst = dct = None
    for st in loc.node.body:
        if isinstance(st, ast.Assign) and len(st.targets) == 1 and isinstance(st.targets[0], ast.Name):
            if isinstance(st.value, ast.List) and not st.value.elts and lst is None:
                lst = st.targets[0].id
            if isinstance(st.value, ast.Dict) and not st.value.keys and dct is None:
                dct = st.targets[0].id
    if lst is None or dct is None:
        raise OutOfSubset('_run: no `name = []` / `name = {}` accumulators before the loop')
    return lst, dct


class Run(C03Contract):
    target = EXF + '::Executor._run'
    comprehensions = 'tuple'
    genexps = True

    def env(self, vc):
        e = C03Contract.env(self, vc)
        e['str'] = vc_str
        return e

    def setup(self, vc):
        s = self.base(vc, RunGraph)
        s.node = self.name(s, 'node')
        s.fn = FnSpec(z3.Const('fn', s.th.Val))
        return s, (s.fn, s.node, s.G), {}

    def requires(self, s):
        th, g, h, x = s.th, s.g0, s.h0, s.node.t
        return [('networkx representation invariant', graph_wf(th, g, h)), ('the node exists', g.node(x)),
                ("every edge carries a 'param'", edges_have_param(th, g)),
                ("every parent already has an 'output' (established by the loop invariant of Executor.execute)",
                 th.forall_nodes(lambda p: z3.Implies(g.edge(p, x), nd_has(th, g, h, p, 'output')))),
                ('keyword names on the in-edges are pairwise distinct', names_distinct(th, g, x))] + \
            ([('finitisation: positional params below %d (the tabulated range of the str order)' % LEX_TABLE,
               th.forall_nodes(lambda p: z3.Implies(pos_edge(th, g, p, x), z3.And(pint(th, g, p, x) >= 0, pint(th, g, p, x) < LEX_TABLE))))] if th.fin else [])

    def _out(self, s):
        return lambda p: nd_val(s.th, s.g0, s.h0, p, 'output')

    def witness(self, vc, model, ob):
        """the in-edges of the node in the counter-model: parent -> param"""
        s = vc._s
        th, g, x = s.th, s.g0, s.node.t
        ev = lambda t: str(model.eval(t, model_completion=True))
        edges = {}
        for p in (th.node_u or []):
            if z3.is_true(model.eval(g.edge(p, x), model_completion=True)):
                edges[str(p)] = ev(g.param(p, x))
        return dict(node=ev(x), in_edges=edges, note='replay: bounded pipeline harness (bounded/c03.py), models with fan-in 11 / 12 make two-digit positional params')

    # ---- loop 0: for parent_name in G.predecessors(node)
    def _fresh_args(self, why):
        th = theory()
        vc = th.vc
        n = vc.fresh_int('args.n', nonneg=True, size=True)
        key = vc.fresh_fn('args.key', IntS, th.Param)
        val = vc.fresh_fn('args.val', IntS, th.Val)
        own = vc.fresh_fn('args.owner', IntS, th.Node)
        idx = vc.fresh_fn('args.idx', th.Node, IntS)
        H = ctx_of(th).H
        return ArgList(n, lambda i: (SParam(key(_zi(i))), SVal(H, val(_zi(i)))), ghost=NS(idx=lambda p: idx(p), own=lambda i: own(i)))

    def _fresh_kwargs(self, why):
        return KwDict.fresh()

    def _accs(self, l):
        a, d = _acc_names(self.target)
        L, D = getattr(l, a), getattr(l, d)
        if isinstance(L, list):
            if L:
                raise OutOfSubset('_run: positional accumulator not empty at loop entry')
            L = ArgList(z3.IntVal(0), self._fresh_args('init').elt, ghost=NS(idx=lambda p: z3.IntVal(0), own=lambda i: z3.Const('nobody', theory().Node)))
        if isinstance(D, dict):
            if D:
                raise OutOfSubset('_run: keyword accumulator not empty at loop entry')
            D = KwDict.empty()
        return L, D

    def _inv(self, s, l):
        th, g, x, out = s.th, s.g0, s.node.t, self._out(s)
        L, D = self._accs(l)
        vis, idx, own = l.it.visited, L.ghost.idx, L.ghost.own
        key = lambda i: L.elt(i)[0].t
        val = lambda i: L.elt(i)[1].t
        return [('length', L.n >= 0),
                ('list entries are (param, output) of visited positional parents, each at its ghost index',
                 forall_range(0, L.n, lambda i: z3.And(vis(own(i)), pos_edge(th, g, own(i), x), key(i) == g.param(own(i), x), val(i) == out(own(i)),
                                                       idx(own(i)) == i), 'i')),
                ('every visited positional parent is in the list',
                 th.forall_nodes(lambda p: z3.Implies(z3.And(vis(p), pos_edge(th, g, p, x)), z3.And(idx(p) >= 0, idx(p) < L.n, own(idx(p)) == p)))),
                ('keyword dict keys = names of the visited named edges',
                 th.forall_strs(lambda k: D.dom(k) == th.exists_nodes(lambda p: z3.And(vis(p), named_edge(th, g, p, x), pname(th, g, p, x) == k)))),
                ('keyword dict values = outputs of those parents',
                 th.forall_nodes(lambda p: z3.Implies(z3.And(vis(p), named_edge(th, g, p, x)), D.val(pname(th, g, p, x)) == out(p)))),
                ('graph and heap are not written', z3.And(_same_graph(s), _same_heap(s)))]

    def _ghost_step(self, s, l0, l1):
        L, _ = self._accs(l1)
        cur_, n0, idx0, own0 = l0.it.cur, l0.h.n, l0.h.idx, l0.h.own
        L.ghost = NS(idx=lambda p: z3.If(p == cur_, n0, idx0(p)), own=lambda i: z3.If(i == n0, cur_, own0(i)))

    @property
    def loops(self):
        loc = instrument.locate(self.target)
        if not instrument.loops_in_source_order(loc.node):
            return {}           # comprehension style: no loop to cut, the collections answer the comprehensions
        a, d = _acc_names(self.target)
        L = Loop(inv=self._inv, fresh={a: self._fresh_args, d: self._fresh_kwargs}, ghost_step=self._ghost_step,
                 at_head=lambda s, l: dict(n=self._accs(l)[0].n, idx=self._accs(l)[0].ghost.idx, own=self._accs(l)[0].ghost.own))
        L.rebind = (a, d)
        return {0: L}

    def ensures(self, s, result):
        cx, th = s.cx, s.th
        calls = cx.calls
        out = [('fn is called exactly once', z3.BoolVal(len(calls) == 1))]
        if len(calls) != 1:
            return out
        c = calls[0]
        if not isinstance(c.L, SList) or c.L.ghost is None:
            raise OutOfSubset('_run: the positional arguments are not the accumulated list')
        pos, own = c.L.ghost.idx, c.L.ghost.own         # the witnesses were carried through sorted() / comprehensions (ArgList)
        out.append(('the called function is the given operation', c.fn == s.fn.t))
        out += args_of(cx, s.g0, self._out(s), s.node.t, c.pk, pos, own)
        if not isinstance(result, dict) or set(result) != {'output'}:
            raise OutOfSubset('_run returned %r' % (result,))
        out.append(("returns {'output': value of that call}", cx.H.to_val(result['output']) == cx.apply(s.fn.t, c.pk)))
        out.append(('graph and heap are not written', z3.And(_same_graph(s), _same_heap(s))))
        return out



# ====================================================================== collections of node names
class NameSeq(nxspec.SNameList):
    """list / tuple of node names holding every element of the set `mem` exactly once; idx(x) = its position.
    Keeps its class through sorted() / tuple(); a FILTERING comprehension gives the order-preserving sub-list."""

    @classmethod
    def wrap(cls, o):
        r = cls(o.n, o.elt)
        r.mem, r.idx = o.mem, o.idx
        return r

    def at(self, i):
        return self.elt(_zi(i)).t

    def _vc_sorted(self, key=None, reverse=False):
        r = NameSeq.wrap(nxspec.SNameList._vc_sorted(self, key, reverse))
        pinv, idx0 = cur().libcalls['sorted'][-1]['pinv'], self.idx        # position in the sorted list = pinv(position in the source list)
        r.idx = lambda x: pinv(idx0(x))
        return r

    def _vc_tuple(self):
        return NameSeq.wrap(self)

    def _vc_list(self):
        return NameSeq.wrap(self)

    def _vc_set(self):
        mem = self.mem
        return NodeSetU(lambda q: mem(q))

    def __contains__(self, x):
        return bool(SBool(self.mem(nxspec._name_t(x))))

    def _vc_listcomp(self, elt_fn, cond_fn):
        th = theory()
        vc = th.vc
        g = th.fresh_node('comp')
        out = elt_fn(SNodeName(g))
        if not (isinstance(out, SNodeName) and z3.eq(out.t, g)):
            raise OutOfSubset('comprehension over a name list whose element expression is not the name')
        if cond_fn is None:
            return NameSeq.wrap(self)
        saved = len(vc.pc)
        vc.pc.append(self.mem(g))
        try:
            c = nxspec.summarise_bool(lambda: cond_fn(SNodeName(g)))
        finally:
            del vc.pc[saved:]
        mem0, idx0 = self.mem, self.idx
        mem = lambda x: z3.And(mem0(x), z3.substitute(c, (g, x)))
        r = NameSeq.of_set(mem, 'filtered')
        # order preserving: the relative order of two kept elements is their order in the source list
        vc.assume(th.forall_nodes(lambda x, y: z3.Implies(z3.And(mem(x), mem(y)), (r.idx(x) < r.idx(y)) == (idx0(x) < idx0(y))), 2))
        vc.libcall('filtered-list', dict(src=self, out=r))
        return r


class NodeSetU(SNodeSet):
    """python set of node names with update()"""

    def update(self, other):
        if isinstance(other, (SNodeSet, NameBag, NameSeq)):
            m2, old = other.mem, self.mem
            self.mem = lambda y: z3.Or(old(y), m2(y))
            return
        raise OutOfSubset('set.update(%s)' % type(other).__name__)

    def union(self, other):
        r = NodeSetU(self.mem)
        r.update(other)
        return r

    def _vc_set(self):
        return NodeSetU(self.mem)

    def _vc_fresh_like(self, name):
        return NodeSetU.fresh(name)


class NameBag(Sym):
    """an opaque collection of node names (graph['outputs']: list / set / node view): membership only, unspecified order"""

    def __init__(self, mem):
        self.mem, self.t = mem, None

    def __contains__(self, x):
        return bool(SBool(self.mem(nxspec._name_t(x))))

    def _vc_iter(self):
        from pyvc.engine import SetIter
        return SetIter(theory().Node, lambda q: self.mem(q), lambda q: SNodeName(q))

    def _vc_set(self):
        mem = self.mem
        return NodeSetU(lambda q: mem(q))

    def _vc_listcomp(self, elt_fn, cond_fn):
        return NameSeq.wrap(nxspec._set_listcomp(theory(), lambda q: self.mem(q), lambda q: SNodeName(q), elt_fn, cond_fn))

    def _vc_dictcomp(self, key_fn, val_fn, cond_fn):
        """{k: f(k) for k in bag}: evaluated once on a generic member (its obligations hold for every member)"""
        th = theory()
        vc = th.vc
        if cond_fn is not None:
            raise OutOfSubset('filtering dict comprehension over a symbolic collection')
        g = th.fresh_node('comp')
        vc.assume(self.mem(g))
        k = key_fn(SNodeName(g))
        if not (isinstance(k, SNodeName) and z3.eq(k.t, g)):
            raise OutOfSubset('dict comprehension over a node collection whose key is not the node name')
        v = ctx_of(th).H.to_val(val_fn(SNodeName(g)))
        mem = self.mem
        return NodeMap(lambda x: mem(x), lambda x: z3.substitute(v, (g, x)))

    def __iter__(self):
        raise OutOfSubset('iteration over a symbolic collection of node names needs a loop contract')

    __hash__ = Sym.__hash__


class NodeMap(Sym):
    """python dict {node name: value}"""

    def __init__(self, dom, val):
        self.dom, self.val, self.t = dom, val, None

    __hash__ = Sym.__hash__


class GraphDict(SDict):
    """G.graph of a compiled / loaded net: 'outputs' holds a collection of node names, '_executor_cache' the executor's cache dict"""

    def __init__(self, G):
        SDict.__init__(self, G.heap, G.gref)
        self.G = G

    def __getitem__(self, k):
        if k == 'outputs':
            _need("call-pre[dict key present: outputs]", self.has(k))
            return NameBag(outs_of(ctx_of(self.heap.th), self.G, self.heap))
        return SDict.__getitem__(self, k)

    def get(self, k, default=None):
        if k == '_executor_cache':
            return self.G.cache_proxy(default)
        return SDict.get(self, k, default)


def outs_of(cx, g, h):
    """SPEC view: the requested outputs of a net = the names held by the collection stored under graph['outputs']"""
    v = h.val(g.gref, cx.lit('outputs'))
    return lambda x: cx.members(v, x)


class CNodeView(nxspec.NodeView):
    """G.nodes of a CGraph: list(G.nodes()) is recorded as the library call 'list(nodes)' (anchor for loop invariants)"""

    def __call__(self, data=False):
        if data not in (False, True):
            raise OutOfSubset('G.nodes(data=%r)' % (data,))
        return CNodeView(self.G, data)

    def _vc_list(self):
        r = NameSeq.wrap(nxspec.NodeView._vc_list(self))
        cur().libcall('list(nodes)', r)
        return r


class CGraph(SDiGraph):
    """a compiled / loaded net"""

    @property
    def nodes(self):
        return CNodeView(self)

    @property
    def graph(self):
        return GraphDict(self)

    def cache_proxy(self, default):
        raise OutOfSubset('executor cache of this graph is not modelled in this contract')


class ClsProxy:
    """the class object `cls` of a classmethod: attributes are stubs of the callees under contract (or inlined real code)"""

    def __init__(self, **attrs):
        self.__dict__.update(attrs)

    def __getattr__(self, k):
        raise OutOfSubset('attribute %s of the class is not modelled' % k)


def vc_dict(x=None, **kw):
    """dict(): dict(d) of a heap dict is a NEW dict with the same (key, value reference) pairs; otherwise python's dict"""
    if isinstance(x, SVal):
        x = x._d('dict()')
    if isinstance(x, SDict):
        d = x.copy()
        for k, v in kw.items():
            d[k] = v
        return d
    if isinstance(x, Sym):
        raise OutOfSubset('dict(%s)' % type(x).__name__)
    return dict(x, **kw) if x is not None else dict(**kw)


vc_dict._vc_models = dict


class TreeCls:
    """the class object `cls` of an analysed classmethod, read from the tree: class-level constants (instrument.class_constants; a dict constant becomes a
    dict on the symbolic heap that EXISTS BEFORE the call, so aliasing with it is visible) and sibling methods (the real bodies, inlined by engine.inline)"""

    def __init__(self, cx, spec, **stubs):
        d = self.__dict__
        d['_cx'], d['_spec'], d['_attrs'] = cx, spec, dict(stubs)
        d['__name__'] = spec.split('::')[1]
        for k, v in instrument.class_constants(spec, cx.vc.repo).items():
            if isinstance(v, dict):
                v = cx.H.new_dict(list(v.items()), name='class.' + k)
            elif isinstance(v, (list, set)):
                continue            # mutable class constants other than dicts are not modelled (access -> OutOfSubset)
            self._attrs.setdefault(k, v)

    def class_dicts(self):
        return [v for v in self._attrs.values() if isinstance(v, SDict)]

    def __getattr__(self, k):
        if k.startswith('_vc_') or k.startswith('__'):
            raise AttributeError(k)
        if k in self._attrs:
            return self._attrs[k]
        from pyvc.engine import inline
        path, qual = self._spec.split('::')
        src, tree = instrument._parse(path, self._cx.vc.repo)
        cnode = next((n for n in tree.body if isinstance(n, ast.ClassDef) and n.name == qual), None)
        fn = next((n for n in (cnode.body if cnode else []) if isinstance(n, ast.FunctionDef) and n.name == k), None)
        if fn is None:
            raise OutOfSubset('attribute %s of class %s is not a constant or method in the tree' % (k, qual))
        decs = [ast.unparse(x) for x in fn.decorator_list]
        real = inline(self._cx.vc, '%s.%s' % (self._spec, k))
        if 'classmethod' in decs:
            return lambda *a, **kw: real(self, *a, **kw)
        if 'staticmethod' in decs:
            return real
        raise OutOfSubset('instance method %s.%s reached through the class' % (qual, k))

    def __setattr__(self, k, v):
        raise OutOfSubset('assignment to a class attribute')


# ====================================================================== spec of the execution order (shared by execute and get_execution_order)
def has_op(th, g, h):
    return lambda x: nd_has(th, g, h, x, 'operation')


def has_out(th, g, h):
    return lambda x: nd_has(th, g, h, x, 'output')


def both_or_neither(th, g, h, x):
    return nd_has(th, g, h, x, 'operation') == nd_has(th, g, h, x, 'output')


def dep_edge(th, g, h):
    """SPEC: the dependency graph = G minus the nodes that already have an output"""
    return lambda u, v: z3.And(g.edge(u, v), z3.Not(nd_has(th, g, h, u, 'output')), z3.Not(nd_has(th, g, h, v, 'output')))


def needed_of(cx, g, h):
    outs = outs_of(cx, g, h)
    return lambda x: z3.And(outs(x), nd_has(cx.th, g, h, x, 'operation'))


def exec_set(cx, g, h, anc):
    """SPEC: the nodes that have to run = needed + their ancestors in the dependency graph"""
    th, needed = cx.th, needed_of(cx, g, h)
    return lambda x: z3.Or(needed(x), th.exists_nodes(lambda y: z3.And(needed(y), anc(x, y))))


def order_facts(cx, g, h, R, anc):
    """SPEC of the list R returned by get_execution_order for the net (g, h); anc = ancestor relation of the dependency graph"""
    th = cx.th
    S = exec_set(cx, g, h, anc)
    ho = has_out(th, g, h)
    return [('the order lists exactly needed + ancestors(dep, needed), each node once',
             z3.And(R.n >= 0, th.forall_nodes(lambda x: R.mem(x) == S(x)),
                    forall_range(0, R.n, lambda i: z3.And(R.mem(R.at(i)), R.idx(R.at(i)) == i), 'i'),
                    th.forall_nodes(lambda x: z3.Implies(R.mem(x), z3.And(R.idx(x) >= 0, R.idx(x) < R.n, R.at(R.idx(x)) == x))))),
            ('listed nodes are nodes of the net without an output', th.forall_nodes(lambda x: z3.Implies(R.mem(x), z3.And(g.node(x), z3.Not(ho(x)))))),
            ('a parent without an output is listed before its child (closed under dependencies, topological)',
             th.forall_nodes(lambda p, x: z3.Implies(z3.And(R.mem(x), g.edge(p, x), z3.Not(ho(p))), z3.And(R.mem(p), R.idx(p) < R.idx(x))), 2))]


# ====================================================================== Executor.execute
class Ghost:
    """ghost state of execute: invocation counters and the call pack (with its position witnesses) of every executed node"""

    def __init__(self, cx):
        self.cx = cx
        th = cx.th
        self.calls = lambda x: z3.IntVal(0)
        nop = z3.Const('no_pack', cx.Pack)
        self.pk = lambda x: nop
        self.pos = lambda x, p: z3.IntVal(0)
        self.own = lambda x, i: x

    def _vc_havoc(self, name):
        cx = self.cx
        th, vc = cx.th, cx.vc
        c = vc.fresh_fn('calls', th.Node, IntS)
        pk = vc.fresh_fn('packof', th.Node, cx.Pack)
        pos = vc.fresh_fn('posof', th.Node, th.Node, IntS)
        own = vc.fresh_fn('ownof', th.Node, IntS, th.Node)
        self.calls, self.pk, self.pos, self.own = (lambda x: c(x)), (lambda x: pk(x)), (lambda x, p: pos(x, p)), (lambda x, i: own(x, i))

    def record(self, x, pk, pos, own):
        c0, pk0, pos0, own0 = self.calls, self.pk, self.pos, self.own
        self.calls = lambda y: c0(y) + z3.If(y == x, 1, 0)
        self.pk = lambda y: z3.If(y == x, pk, pk0(y))
        self.pos = lambda y, p: z3.If(y == x, pos(p), pos0(y, p))
        self.own = lambda y, i: z3.If(y == x, own(i), own0(y, i))


def run_pre(th, g, h, x):
    """precondition of Executor._run (the `requires` of contract Run)"""
    return [('networkx representation invariant', graph_wf(th, g, h)), ('the node exists', g.node(x)),
            ("every edge carries a 'param'", edges_have_param(th, g)),
            ("every parent already has an 'output'", th.forall_nodes(lambda p: z3.Implies(g.edge(p, x), nd_has(th, g, h, p, 'output')))),
            ('keyword names on the in-edges are pairwise distinct', names_distinct(th, g, x))]


class Execute(C03Contract):
    target = EXF + '::Executor.execute'
    comprehensions = True

    def setup(self, vc):
        s = self.base(vc, CGraph)
        cx, th = s.cx, s.th
        s.gh = Ghost(cx)
        anc = z3.Function('anc_dep', th.Node, th.Node, BoolS)       # ancestors in the dependency graph of the net at entry (spec relation; no axioms needed here)
        s.anc = lambda a, x: anc(a, x)
        s.order = None

        def get_execution_order(G):
            """callee under contract GetExecutionOrder"""
            g, h = G.snap(), cx.H.snap()
            for lbl, f in geo_pre(cx, g, h):
                vc.oblige('call-pre[get_execution_order: %s]' % lbl, f)
            if vc.branch(vc.fresh('order_raises', BoolS)):           # (only on a cache miss; the caller cannot tell)
                vc.assume(th.exists_nodes(lambda x: z3.And(g.node(x), both_or_neither(th, g, h, x))))
                raise program_exception(ValueError('Generative graph has both / no op or output present'))
            R = NameSeq.of_set(vc.fresh_fn('order.mem', th.Node, BoolS), 'order')
            for _, f in order_facts(cx, g, h, R, s.anc):
                vc.assume(f)
            s.order = R
            return R

        def _run(op, node, G):
            """callee under contract Run"""
            g, h, x = G.snap(), cx.H.snap(), node.t
            for lbl, f in run_pre(th, g, h, x):
                vc.oblige('call-pre[_run: %s]' % lbl, f)
            pk = vc.fresh('pack', cx.Pack)
            pos, own = vc.fresh_fn('pos', th.Node, IntS), vc.fresh_fn('own', IntS, th.Node)
            for _, f in args_of(cx, g, lambda p: nd_val(th, g, h, p, 'output'), x, pk, lambda p: pos(p), lambda i: own(i)):
                vc.assume(f)
            s.gh.record(x, pk, lambda p: pos(p), lambda i: own(i))
            return {'output': SVal(cx.H, cx.apply(cx.H.to_val(op), pk))}

        s.cls = ClsProxy(get_execution_order=get_execution_order, _run=_run)
        return s, (s.cls, s.G), {}

    def requires(self, s):
        cx, th, g, h = s.cx, s.th, s.g0, s.h0
        outs = outs_of(cx, g, h)
        return geo_pre(cx, g, h) + [("every edge carries a 'param'", edges_have_param(th, g)),
                                    ('keyword names on the in-edges of a node are pairwise distinct', names_distinct(th, g)),
                                    ('every requested output has an operation or an output',
                                     th.forall_nodes(lambda x: z3.Implies(outs(x), z3.Or(has_op(th, g, h)(x), has_out(th, g, h)(x)))))]

    # ---- loop 0: for node in order
    def _ran(self, s, i):
        """x was executed among order[0:i]: it is listed before position i and had an operation at entry"""
        R, th, g, h = s.order, s.th, s.g0, s.h0
        return lambda x: z3.And(R.mem(x), R.idx(x) < i, has_op(th, g, h)(x))

    def _state(self, s, i):
        """SPEC of the state after executing order[0:i]"""
        cx, th, g, h0, R = s.cx, s.th, s.g0, s.h0, s.order
        h1, gh = s.H.snap(), s.gh
        ran = self._ran(s, i)
        OP, OUT = cx.lit('operation'), cx.lit('output')
        out1 = lambda p: nd_val(th, g, h1, p, 'output')
        facts = [('the graph structure is not modified', _same_graph(s)),
                 ('executed nodes: output = apply(operation, call pack)',
                  th.forall_nodes(lambda x: z3.Implies(ran(x), z3.And(h1.has(g.nattr(x), OUT),
                                                                     h1.val(g.nattr(x), OUT) == cx.apply(h0.val(g.nattr(x), OP), gh.pk(x))))))]
        for lbl, mk in [(l, f) for l, f in _args_of_q(cx, g, out1, gh)]:
            facts.append(('executed nodes: ' + lbl, mk(ran)))
        facts += [('every other dict slot is untouched (no other node changed)',
                   z3.And(th.forall_ref_key(lambda r, k: z3.Implies(z3.Not(th.exists_nodes(lambda x: z3.And(ran(x), r == g.nattr(x), z3.Or(k == OP, k == OUT)))),
                                                                    z3.And(h1.has(r, k) == h0.has(r, k), h1.val(r, k) == h0.val(r, k)))),
                          th.forall_refs(lambda r: h1.alloc(r) == h0.alloc(r)))),
                  ('each executed operation was called exactly once, no other operation was called',
                   th.forall_nodes(lambda x: gh.calls(x) == z3.If(ran(x), 1, 0))),
                  ('visited nodes had exactly one of operation / output',
                   th.forall_nodes(lambda x: z3.Implies(z3.And(R.mem(x), R.idx(x) < i), z3.Not(both_or_neither(th, g, h0, x)))))]
        return facts

    def _inv(self, s, l):
        if s.order is None:
            raise OutOfSubset('execute: loop before the execution order is known')
        return self._state(s, l.it.index)

    @property
    def loops(self):
        return {0: Loop(inv=self._inv, modifies=lambda s, l: [s.H, s.gh])}

    def raises(self, s):
        th, g, h = s.th, s.g0, s.h0
        return {'ValueError': th.exists_nodes(lambda x: z3.And(g.node(x), both_or_neither(th, g, h, x)))}

    def iff_raises(self, s):
        th, g, h, R = s.th, s.g0, s.h0, s.order
        return [('normal return only if every node of the execution order had exactly one of operation / output',
                 th.forall_nodes(lambda x: z3.Implies(R.mem(x), z3.Not(both_or_neither(th, g, h, x)))))]

    def ensures(self, s, result):
        cx, th, g, R = s.cx, s.th, s.g0, s.order
        if not isinstance(result, NodeMap):
            raise OutOfSubset('execute returned %s' % type(result).__name__)
        h1 = s.H.snap()
        outs = outs_of(cx, g, s.h0)
        return self._state(s, R.n) + [
            ("the result dict holds exactly the requested outputs, each with the node's output",
             th.forall_nodes(lambda x: z3.And(result.dom(x) == outs(x), z3.Implies(outs(x), z3.And(nd_has(th, g, h1, x, 'output'),
                                                                                                  result.val(x) == nd_val(th, g, h1, x, 'output'))))))]


def _args_of_q(cx, g, out, gh):
    """args_of for EVERY node x with sel(x), packs and witnesses taken from the ghost state: [(label, sel -> fact)]"""
    th = cx.th
    res = []
    probe = z3.Const('probe_x', th.Node)
    for j, (lbl, _) in enumerate(args_of(cx, g, out, probe, gh.pk(probe), lambda p: gh.pos(probe, p), lambda i: gh.own(probe, i))):
        def mk(sel, j=j):
            return th.forall_nodes(lambda x: z3.Implies(sel(x), args_of(cx, g, out, x, gh.pk(x), lambda p: gh.pos(x, p), lambda i: gh.own(x, i))[j][1]))
        res.append((lbl, mk))
    return res


def geo_pre(cx, g, h):
    """precondition of get_execution_order / execute: a well-formed net whose graph dict names the requested outputs, all of them nodes"""
    th = cx.th
    outs = outs_of(cx, g, h)
    return [('networkx representation invariant', graph_wf(th, g, h)),
            ("graph['outputs'] is present", h.has(g.gref, cx.lit('outputs'))),
            ('every requested output is a node of the net', th.forall_nodes(lambda x: z3.Implies(outs(x), g.node(x))))]



# ====================================================================== compiler passes
def stateref(th, g, h, x):
    """Ref of the state dict of source node x (held under 'attr_dict' in its data dict)"""
    return th.Val.ref_of(h.val(g.nattr(x), th.klit('attr_dict')))


def st_has(th, g, h, x, key):
    return h.has(stateref(th, g, h, x), th.klit(key))


def st_val(th, g, h, x, key):
    return h.val(stateref(th, g, h, x), th.klit(key))


def flag(th, g, h, x, key):
    """SPEC: source node x declares `key` (present in its state with a true value)"""
    return z3.And(st_has(th, g, h, x, key), th.truth(st_val(th, g, h, x, key)))


def source_rep(th, g, h):
    """how a source net sits on the heap: every node's data dict holds its state dict under 'attr_dict'"""
    A = th.klit('attr_dict')
    return th.forall_nodes(lambda n: z3.Implies(g.node(n), z3.And(h.has(g.nattr(n), A), th.Val.is_vref(h.val(g.nattr(n), A)), h.alloc(stateref(th, g, h, n)))))


def separate(th, a, b, h):
    """two graphs are different objects: their graph dicts and node data dicts are pairwise different dicts; the state dicts of a are not data dicts of b"""
    return z3.And(a.gref != b.gref,
                  th.forall_nodes(lambda x, y: z3.Implies(z3.And(a.node(x), b.node(y)), z3.And(a.nattr(x) != b.nattr(y), stateref(th, a, h, x) != b.nattr(y))), 2),
                  th.forall_nodes(lambda x: z3.And(z3.Implies(a.node(x), z3.And(a.nattr(x) != b.gref, stateref(th, a, h, x) != b.gref)),
                                                   z3.Implies(b.node(x), b.nattr(x) != a.gref))))


def heap_same_on_old(th, h0, h1, except_=None):
    """every dict that existed before is untouched (unless except_(r, k)); allocation only grows"""
    ex = except_ or (lambda r, k: z3.BoolVal(False))
    return z3.And(th.forall_ref_key(lambda r, k: z3.Implies(z3.And(h0.alloc(r), z3.Not(ex(r, k))), z3.And(h1.has(r, k) == h0.has(r, k), h1.val(r, k) == h0.val(r, k)))),
                  th.forall_refs(lambda r: z3.Implies(h0.alloc(r), h1.alloc(r))))


def graph_same(th, a, b):
    return z3.And(th.forall_nodes(lambda x: z3.And(a.node(x) == b.node(x), a.nattr(x) == b.nattr(x))),
                  th.forall_nodes(lambda u, v: z3.And(a.edge(u, v) == b.edge(u, v), a.param(u, v) == b.param(u, v)), 2))


class CompilerContract(C03Contract):
    """compile(cls, source_net, compiled_net): S = source net (arbitrary), C = compiled net so far"""
    nodes, refs, strs = 3, 10, 3
    lits = ('attr_dict', 'operation', 'output', '_operation', '_output', '?other0')

    def cbase(self, vc):
        s = self.base(vc, CGraph)
        s.C = s.G
        s.c0 = s.g0
        s.S = SDiGraph(s.H, 'S', 'sym')
        s.s0 = s.S.snap()
        s.cls = ClsProxy(__name__='Compiler')
        return s

    def crequires(self, s):
        th, h = s.th, s.h0
        return [('networkx representation invariant (source)', graph_wf(th, s.s0, h)), ('networkx representation invariant (compiled)', graph_wf(th, s.c0, h)),
                ('source net representation', source_rep(th, s.s0, h)), ('the two nets are different objects', separate(th, s.s0, s.c0, h))]

    def source_untouched(self, s):
        return ('the source net is not modified', z3.BoolVal(s.S.node is s.s0.node and s.S.edge is s.s0.edge and s.S.param is s.s0.param and s.S.nattr is s.s0.nattr))


class OutputCompile(CompilerContract):
    target = CMF + '::OutputCompiler.compile'

    def setup(self, vc):
        s = self.cbase(vc)
        return s, (s.cls, s.S, s.C), {}

    def requires(self, s):
        th = s.th
        return self.crequires(s) + [('the compiled net is a new graph: no nodes yet', th.forall_nodes(lambda x: z3.Not(s.c0.node(x))))]

    def _node_facts(self, s, sel):
        """SPEC: for the nodes x with sel(x): the compiled data dict holds exactly output <- _output, else operation <- _operation"""
        th, S, h0, h1, c1 = s.th, s.s0, s.h0, s.H.snap(), s.C.snap()
        OP, OUT = th.klit('operation'), th.klit('output')
        d = lambda x: c1.nattr(x)
        return [('a node with _output gets output = _output (and no operation)',
                 th.forall_nodes(lambda x: z3.Implies(z3.And(sel(x), st_has(th, S, h0, x, '_output')),
                                                      z3.And(h1.has(d(x), OUT), h1.val(d(x), OUT) == st_val(th, S, h0, x, '_output'), z3.Not(h1.has(d(x), OP)))))),
                ('a node with _operation (and no _output) gets operation = _operation (and no output)',
                 th.forall_nodes(lambda x: z3.Implies(z3.And(sel(x), z3.Not(st_has(th, S, h0, x, '_output'))),
                                                      z3.And(h1.has(d(x), OP), h1.val(d(x), OP) == st_val(th, S, h0, x, '_operation'), z3.Not(h1.has(d(x), OUT)))))),
                ('processed nodes have exactly one of _output / _operation',
                 th.forall_nodes(lambda x: z3.Implies(sel(x), st_has(th, S, h0, x, '_output') != st_has(th, S, h0, x, '_operation'))))]

    def _structure(self, s):
        th, S, c1, h0, h1 = s.th, s.s0, s.C.snap(), s.h0, s.H.snap()
        return [('compiled has exactly the source nodes', th.forall_nodes(lambda x: c1.node(x) == S.node(x))),
                ('compiled has exactly the source edges, with their params',
                 th.forall_nodes(lambda u, v: z3.And(c1.edge(u, v) == S.edge(u, v), z3.Implies(S.edge(u, v), c1.param(u, v) == S.param(u, v))), 2)),
                ('the data dicts of the compiled nodes are new, pairwise different dicts',
                 z3.And(th.forall_nodes(lambda x: z3.Implies(c1.node(x), z3.And(z3.Not(h0.alloc(c1.nattr(x))), h1.alloc(c1.nattr(x))))),
                        th.forall_nodes(lambda x, y: z3.Implies(z3.And(c1.node(x), c1.node(y), x != y), c1.nattr(x) != c1.nattr(y)), 2))),
                ('no dict that existed before is written (source net, graph dicts)', heap_same_on_old(th, h0, h1)),
                ('the graph dict of the compiled net is kept', z3.BoolVal(s.C.gref is s.c0.gref)), self.source_untouched(s)]

    def _inv(self, s, l):
        th, c1, h1 = s.th, s.C.snap(), s.H.snap()
        vis = l.it.visited
        return self._structure(s) + self._node_facts(s, vis) + [
            ('unvisited nodes have neither operation nor output yet',
             th.forall_nodes(lambda x: z3.Implies(z3.And(c1.node(x), z3.Not(vis(x))), z3.And(z3.Not(h1.has(c1.nattr(x), th.klit('operation'))),
                                                                                             z3.Not(h1.has(c1.nattr(x), th.klit('output')))))))]

    @property
    def loops(self):
        return {0: Loop(inv=self._inv, modifies=lambda s, l: [s.H])}

    def raises(self, s):
        th, S, h = s.th, s.s0, s.h0
        return {'ValueError': th.exists_nodes(lambda x: z3.And(S.node(x), st_has(th, S, h, x, '_output') == st_has(th, S, h, x, '_operation')))}

    def iff_raises(self, s):
        th, S, h = s.th, s.s0, s.h0
        return [('normal return only if every node has exactly one of _output / _operation',
                 th.forall_nodes(lambda x: z3.Implies(S.node(x), st_has(th, S, h, x, '_output') != st_has(th, S, h, x, '_operation'))))]

    def ensures(self, s, result):
        return [('returns the compiled net', z3.BoolVal(result is s.C))] + self._structure(s) + self._node_facts(s, lambda x: s.s0.node(x)) + \
            [('networkx representation invariant kept', graph_wf(s.th, s.C.snap(), s.H.snap()))]



# ---------------------------------------------------------------------- AdditionalNodesCompiler.compile
INSTRUCTIONS = (('_uses_batch_size', '_batch_size', 'batch_size'), ('_uses_meta', '_meta', 'meta'))


class AdditionalNodesCompile(CompilerContract):
    target = CMF + '::AdditionalNodesCompiler.compile'
    lits = ('attr_dict', '_uses_batch_size', '_uses_meta', 'operation', '?other0')
    strs = 3

    def env(self, vc):
        e = CompilerContract.env(self, vc)
        e['dict'] = dict
        return e

    def setup(self, vc):
        s = self.cbase(vc)
        return s, (s.cls, s.S, s.C), {}

    def requires(self, s):
        th, cx = s.th, s.cx
        r = self.crequires(s) + [('every source node is a node of the compiled net (post of OutputCompiler)',
                                  th.forall_nodes(lambda x: z3.Implies(s.s0.node(x), s.c0.node(x))))]
        for _, helper, _p in INSTRUCTIONS:
            r.append(('%s is a reserved name: no user node is called so' % helper, z3.Not(s.s0.node(cx.node_lit(helper)))))
        return r

    def _added(self, s, c_from, c_to, h_from, h_to, instruction, helper, pname_, users):
        """SPEC of one instruction pass between two states: edge helper -> x (param = its name) for every x with users(x); the helper node exists iff
        it existed or some user exists; everything else as before"""
        th, cx = s.th, s.cx
        Hn, P = cx.node_lit(helper), th.Param.pname(cx.str_lit(pname_))
        some = th.exists_nodes(lambda x: users(x))
        new = lambda u, v: z3.And(u == Hn, users(v))
        return [('%s: edges = old edges + helper -> every user' % helper, th.forall_nodes(lambda u, v: c_to.edge(u, v) == z3.Or(c_from.edge(u, v), new(u, v)), 2)),
                ('%s: the new edges carry the param %r, the others keep theirs' % (helper, pname_),
                 th.forall_nodes(lambda u, v: c_to.param(u, v) == z3.If(new(u, v), P, c_from.param(u, v)), 2)),
                ('%s: the helper node exists iff it existed or some user exists; no other node is added' % helper,
                 th.forall_nodes(lambda y: c_to.node(y) == z3.Or(c_from.node(y), z3.And(y == Hn, some)))),
                ('%s: existing nodes keep their data dicts; a new helper node gets a new empty dict' % helper,
                 z3.And(th.forall_nodes(lambda y: z3.Implies(c_from.node(y), c_to.nattr(y) == c_from.nattr(y))),
                        z3.Implies(z3.And(some, z3.Not(c_from.node(Hn))), z3.And(z3.Not(h_from.alloc(c_to.nattr(Hn))), h_to.alloc(c_to.nattr(Hn)),
                                                                                th.forall_keys(lambda k: z3.Not(h_to.has(c_to.nattr(Hn), k))))))),
                ('%s: no existing dict is written' % helper, heap_same_on_old(th, h_from, h_to))]

    def _inv(self, s, l):
        th, S, h0 = s.th, s.s0, s.h0
        vis = l.it.visited
        instruction = l.instruction if isinstance(l.get('instruction'), str) else None
        row = [r for r in INSTRUCTIONS if r[0] == instruction]
        if not row:
            raise OutOfSubset('AdditionalNodesCompiler: unknown instruction %r' % (instruction,))
        helper = getattr(l, '_node')
        if helper != row[0][1]:
            raise OutOfSubset('AdditionalNodesCompiler: instruction %s mapped to %r' % (instruction, helper))
        users = lambda x: z3.And(vis(x), flag(th, S, h0, x, instruction))
        return self._added(s, l.entry.c, s.C.snap(), l.entry.h, s.H.snap(), instruction, helper, row[0][2], users) + [self.source_untouched(s)]

    @property
    def loops(self):
        return {1: Loop(inv=self._inv, modifies=lambda s, l: [s.C, s.H], snapshot=lambda s, l: dict(c=s.C.snap(), h=s.H.snap()))}

    def ensures(self, s, result):
        th, S, h0, c1, h1 = s.th, s.s0, s.h0, s.C.snap(), s.H.snap()
        cx = s.cx
        out = [('returns the compiled net', z3.BoolVal(result is s.C)), self.source_untouched(s)]
        uses = {ins: (lambda x, ins=ins: z3.And(S.node(x), flag(th, S, h0, x, ins))) for ins, _, _ in INSTRUCTIONS}
        new = lambda u, v: z3.Or([z3.And(u == cx.node_lit(hp), uses[ins](v)) for ins, hp, _ in INSTRUCTIONS])
        P = lambda u, v: z3.If(z3.And(u == cx.node_lit('_batch_size'), uses['_uses_batch_size'](v)), th.Param.pname(cx.str_lit('batch_size')),
                               th.Param.pname(cx.str_lit('meta')))
        out += [('edge _batch_size -> x iff x uses batch_size, edge _meta -> x iff x uses meta; all other edges as before',
                 th.forall_nodes(lambda u, v: c1.edge(u, v) == z3.Or(s.c0.edge(u, v), new(u, v)), 2)),
                ("the helper edges carry param 'batch_size' / 'meta'; other edges keep their param",
                 th.forall_nodes(lambda u, v: c1.param(u, v) == z3.If(new(u, v), P(u, v), s.c0.param(u, v)), 2)),
                ('a helper node exists iff it existed or some node uses it; no other node is added',
                 th.forall_nodes(lambda y: c1.node(y) == z3.Or([s.c0.node(y)] + [z3.And(y == cx.node_lit(hp), th.exists_nodes(lambda x, ins=ins: uses[ins](x)))
                                                                                  for ins, hp, _ in INSTRUCTIONS]))),
                ('existing nodes keep their data dicts', th.forall_nodes(lambda y: z3.Implies(s.c0.node(y), c1.nattr(y) == s.c0.nattr(y)))),
                ('no existing dict is written', heap_same_on_old(th, h0, h1)),
                ('networkx representation invariant kept', graph_wf(th, c1, h1))]
        return out


# ---------------------------------------------------------------------- nx.ancestors (assumed library contract) and the spec relation
def reach_unrolled(th, edge, a, x):
    """finitised mode: a reaches x along >= 1 edges (paths of length <= number of nodes suffice)"""
    U = list(th.node_u)
    level = lambda u: edge(u, x)          # reaches x in exactly 1 step
    acc = [level]
    for _ in range(len(U) - 1):
        prev = acc[-1]
        acc.append(lambda u, prev=prev: z3.Or([z3.And(edge(u, c), prev(c)) for c in U]))
    return z3.Or([f(a) for f in acc])


class AncSpec:
    """SPEC relation anc(a, x): a is an ancestor of x in the edge relation E.  Proof mode: uninterpreted, with the (sound) closure / unfolding
    facts as assumed properties of the spec function; finitised mode: defined by unrolling (exact)."""

    def __init__(self, cx, E, name='anc'):
        self.cx, self.E = cx, E
        th = cx.th
        if th.fin:
            self.rel = lambda a, x: reach_unrolled(th, E, a, x)
        else:
            f = z3.Function(name, th.Node, th.Node, BoolS)
            self.rel = lambda a, x: f(a, x)

    def facts(self):
        th, E, R = self.cx.th, self.E, self.rel
        if th.fin:
            return []
        return [th.forall_nodes(lambda a, x: z3.Implies(E(a, x), R(a, x)), 2),
                th.forall_nodes(lambda a, b, x: z3.Implies(z3.And(E(a, b), R(b, x)), R(a, x)), 3),
                # (the full unfolding `R(a, x) => exists c. E(a, c) and (c = x or R(c, x))` is a matching loop; its non-recursive consequences suffice)
                th.forall_nodes(lambda a, x: z3.Implies(R(a, x), z3.And(th.exists_nodes(lambda c: E(a, c)), th.exists_nodes(lambda c: E(c, x)))), 2)]


def make_nx(cx, specs=()):
    """the `nx` module of the analysed code: nxspec's + ancestors (assumed contract: exactly the nodes with a path to x; NetworkXError for an unknown x)
    + DiGraph(edge view) / DiGraph(**graph attributes).  specs: AncSpec relations the result is tied to when the graph has their edge relation."""
    th, vc = cx.th, cx.vc

    def ancestors(G, x):
        xt = nxspec._name_t(x)
        if not isinstance(G, SDiGraph):
            raise OutOfSubset('nx.ancestors(%s)' % type(G).__name__)
        if not vc.branch(G.node(xt)):
            raise program_exception(nxspec.NetworkXError('The node is not in the digraph.'))
        st = G.snap()
        if th.fin:
            mem = lambda a: reach_unrolled(th, st.edge, a, xt)
        else:
            A = vc.fresh_fn('ancestors', th.Node, BoolS)
            mem = lambda a: A(a)
            vc.assume(th.forall_nodes(lambda a: z3.Implies(st.edge(a, xt), A(a))),
                      th.forall_nodes(lambda a, b: z3.Implies(z3.And(st.edge(b, a), A(a)), A(b)), 2),
                      th.forall_nodes(lambda a: z3.Implies(A(a), z3.And(st.node(a), th.exists_nodes(lambda c: st.edge(a, c))))))
            for sp in specs:        # ancestors is a function of the edge relation: same relation as a spec relation => same answer
                vc.assume(z3.Implies(th.forall_nodes(lambda u, v: st.edge(u, v) == sp.E(u, v), 2), th.forall_nodes(lambda a: A(a) == sp.rel(a, xt))))
        vc.libcall('nx.ancestors', dict(G=st, x=xt, mem=mem))
        return NodeSetU(mem)

    def DiGraph(arg=None, **attr):
        if isinstance(arg, nxspec.EdgeView):
            if attr or arg.n is not None or arg.data:
                raise OutOfSubset('nx.DiGraph(edge view with options)')
            K = nxspec.DiGraph()
            K.add_edges_from(arg)
            vc.libcall('nx.DiGraph(edges)', dict(graph=K, state=K.snap()))
            return K
        return nxspec.DiGraph(arg, **attr)

    class _NX(nxspec._Module):
        pass
    _NX.ancestors = staticmethod(ancestors)
    _NX.DiGraph = staticmethod(DiGraph)
    return _NX


# ---------------------------------------------------------------------- utils.nbunch_ancestors, ReduceCompiler.compile
def keep_set(cx, g, h, anc):
    """SPEC: outputs united with their ancestors"""
    outs = outs_of(cx, g, h)
    return lambda x: z3.Or(outs(x), cx.th.exists_nodes(lambda y: z3.And(outs(y), anc(x, y))))


class NbunchAncestors(C03Contract):
    target = UTF + '::nbunch_ancestors'

    def setup(self, vc):
        s = self.base(vc, CGraph)
        s.anc = AncSpec(s.cx, s.g0.edge)
        s.bag = NameBag(outs_of(s.cx, s.g0, s.h0))
        return s, (s.G, s.bag), {}

    def env(self, vc):
        return {'nx': make_nx(vc._s.cx, [vc._s.anc])}

    def requires(self, s):
        return [graph_wf(s.th, s.g0, s.h0)] + s.anc.facts()

    def _inv(self, s, l):
        th = s.th
        outs, vis = s.bag.mem, l.it.visited
        acc = [v for v in vars(l).values() if isinstance(v, SNodeSet)]
        if len(acc) != 1:
            raise OutOfSubset('nbunch_ancestors: expected one set among the locals')
        return [('the set holds the nbunch and the ancestors of its visited members',
                 th.forall_nodes(lambda x: acc[0].mem(x) == z3.Or(outs(x), th.exists_nodes(lambda y: z3.And(vis(y), s.anc.rel(x, y)))))),
                ('visited members are nodes of the graph', th.forall_nodes(lambda y: z3.Implies(vis(y), s.g0.node(y)))),
                ('the graph is not modified', _same_graph(s))]

    @property
    def loops(self):
        return {0: Loop(inv=self._inv)}

    def raises(self, s):
        return {'NetworkXError': s.th.exists_nodes(lambda x: z3.And(s.bag.mem(x), z3.Not(s.g0.node(x))))}

    def iff_raises(self, s):
        return [('normal return only if every member of the nbunch is a node', s.th.forall_nodes(lambda x: z3.Implies(s.bag.mem(x), s.g0.node(x))))]

    def ensures(self, s, result):
        if not isinstance(result, SNodeSet):
            raise OutOfSubset('nbunch_ancestors returned %s' % type(result).__name__)
        K = keep_set(s.cx, s.g0, s.h0, s.anc.rel)
        return [('result = nbunch united with ancestors(G, nbunch)', s.th.forall_nodes(lambda x: result.mem(x) == K(x))),
                ('graph and heap are not written', z3.And(_same_graph(s), _same_heap(s)))]


class ReduceCompile(CompilerContract):
    target = CMF + '::ReduceCompiler.compile'
    lits = ('outputs', 'operation', '?other0')
    refs = 8

    def setup(self, vc):
        s = self.cbase(vc)
        s.anc = AncSpec(s.cx, s.c0.edge)
        return s, (s.cls, s.S, s.C), {}

    def env(self, vc):
        s = vc._s
        cx, th = s.cx, s.th

        def nbunch_ancestors(G, nbunch):
            """callee under contract NbunchAncestors"""
            if G is not s.C or not isinstance(nbunch, NameBag):
                raise OutOfSubset('nbunch_ancestors called on something else than (compiled_net, its outputs)')
            g, h = G.snap(), cx.H.snap()
            vc.oblige('call-pre[nbunch_ancestors: networkx representation invariant]', graph_wf(th, g, h))
            if vc.branch(th.exists_nodes(lambda x: z3.And(nbunch.mem(x), z3.Not(g.node(x))))):
                raise program_exception(nxspec.NetworkXError('The node is not in the digraph.'))
            K = keep_set(cx, g, h, AncSpec(cx, g.edge).rel if g.edge is not s.c0.edge else s.anc.rel)
            return NodeSetU(lambda x: K(x))
        return {'nx': make_nx(cx, [s.anc]), 'nbunch_ancestors': nbunch_ancestors}

    def requires(self, s):
        th = s.th
        return [('networkx representation invariant (compiled)', graph_wf(th, s.c0, s.h0)), ("graph['outputs'] is present", s.h0.has(s.c0.gref, s.cx.lit('outputs')))] + s.anc.facts()

    def _reduced(self, s, gone):
        """SPEC: the nodes x with gone(x) are removed, with their incident edges; everything else is unchanged"""
        th, c0, c1 = s.th, s.c0, s.C.snap()
        return [('remaining nodes', th.forall_nodes(lambda x: c1.node(x) == z3.And(c0.node(x), z3.Not(gone(x))))),
                ('edges among the remaining nodes are unchanged, with their params',
                 th.forall_nodes(lambda u, v: z3.And(c1.edge(u, v) == z3.And(c0.edge(u, v), c1.node(u), c1.node(v)), c1.param(u, v) == c0.param(u, v)), 2)),
                ('remaining nodes keep their data dicts (attributes)', th.forall_nodes(lambda x: c1.nattr(x) == c0.nattr(x))),
                ('no dict is written', _same_heap(s))]

    def _inv(self, s, l):
        lst = [v for v in vars(l).values() if isinstance(v, nxspec.SNameList)]
        keep = [v for v in vars(l).values() if isinstance(v, SNodeSet)]
        if len(lst) != 1 and l.it is not None:
            lst = [v for v in lst if v.n is l.it.n] or lst
        if len(keep) != 1:
            raise OutOfSubset('ReduceCompiler: expected one node set among the locals')
        K = keep_set(s.cx, s.c0, s.h0, s.anc.rel)
        i = l.it.index
        idx = s.rt.vc.libcalls['list(nodes)'][-1].idx if 'list(nodes)' in s.rt.vc.libcalls else None
        if idx is None:
            raise OutOfSubset('ReduceCompiler: the loop does not run over list(compiled_net.nodes())')
        return self._reduced(s, lambda x: z3.And(idx(x) < i, z3.Not(K(x)))) + \
            [('the set computed before the loop is outputs + ancestors(outputs)', s.th.forall_nodes(lambda x: keep[0].mem(x) == K(x)))]

    @property
    def loops(self):
        return {0: Loop(inv=self._inv, modifies=lambda s, l: [s.C])}

    def raises(self, s):
        outs = outs_of(s.cx, s.c0, s.h0)
        return {'NetworkXError': s.th.exists_nodes(lambda x: z3.And(outs(x), z3.Not(s.c0.node(x))))}

    def iff_raises(self, s):
        outs = outs_of(s.cx, s.c0, s.h0)
        return [('normal return only if every output is a node of the net', s.th.forall_nodes(lambda x: z3.Implies(outs(x), s.c0.node(x))))]

    def ensures(self, s, result):
        K = keep_set(s.cx, s.c0, s.h0, s.anc.rel)
        return [('returns the compiled net', z3.BoolVal(result is s.C))] + self._reduced(s, lambda x: z3.Not(K(x))) + \
            [('remaining nodes = outputs united with ancestors(outputs)', s.th.forall_nodes(lambda x: s.C.snap().node(x) == z3.And(s.c0.node(x), K(x))))]



# ---------------------------------------------------------------------- observed twins
def observed_name_spec(cx):
    """utils.observed_name: '_<name>_observed' - an injective function of the name whose results are never user / helper literal names"""
    def observed_name(name):
        return SNodeName(cx.obsname(nxspec._name_t(name)))
    return observed_name


def obsname_injective(cx):
    return cx.th.forall_nodes(lambda a, b: z3.Implies(cx.obsname(a) == cx.obsname(b), a == b), 2)


class _Callable:
    """an opaque python callable passed as a value (e.g. utils.args_to_tuple)"""

    def __init__(self, what):
        self.what = what

    def __repr__(self):
        return '<%s>' % self.what


class MakeObservedCopy(C03Contract):
    target = CMF + '::ObservedCompiler.make_observed_copy'
    lits = ('operation', 'output', '?other0')

    def __init__(self, mode):
        self.mode = self.label = mode       # copy | operation

    def env(self, vc):
        return {'observed_name': observed_name_spec(vc._s.cx), 'dict': dict}

    def setup(self, vc):
        s = self.base(vc, CGraph)
        s.node = self.name(s, 'node')
        s.cls = ClsProxy(__name__='ObservedCompiler')
        s.op = _Callable('operation') if self.mode == 'operation' else None
        return s, (s.cls, s.node, s.G) + ((s.op,) if s.op is not None else ()), {}

    def requires(self, s):
        r = [('networkx representation invariant', graph_wf(s.th, s.g0, s.h0))]
        if self.mode == 'copy':
            r.append(('the node is a node of the compiled net (call site: a source node after OutputCompiler)', s.g0.node(s.node.t)))
        return r

    def raises(self, s):
        return {'ValueError': s.g0.node(s.cx.obsname(s.node.t))}

    def iff_raises(self, s):
        return [('raises iff the observed twin already exists', z3.Not(s.g0.node(s.cx.obsname(s.node.t))))]

    def ensures(self, s, result):
        cx, th, g0, h0, g1, h1 = s.cx, s.th, s.g0, s.h0, s.G.snap(), s.H.snap()
        t, x = cx.obsname(s.node.t), s.node.t
        d = g1.nattr(t)
        out = [('returns the name of the twin', z3.And(z3.BoolVal(isinstance(result, SNodeName)), result.t == t) if isinstance(result, SNodeName) else z3.BoolVal(False)),
               ('nodes = old nodes + the twin', th.forall_nodes(lambda y: g1.node(y) == z3.Or(y == t, g0.node(y)))),
               ('no edge is added or changed', th.forall_nodes(lambda u, v: z3.And(g1.edge(u, v) == g0.edge(u, v), g1.param(u, v) == g0.param(u, v)), 2)),
               ('the other nodes keep their data dicts', th.forall_nodes(lambda y: z3.Implies(g0.node(y), g1.nattr(y) == g0.nattr(y)))),
               ("the twin's data dict is a new dict", z3.And(z3.Not(h0.alloc(d)), h1.alloc(d))),
               ('no existing dict is written', heap_same_on_old(th, h0, h1)),
               ('networkx representation invariant kept', graph_wf(th, g1, h1))]
        if self.mode == 'copy':
            out.append(("the twin holds a copy of the node's compiled attributes (same operation / output)",
                        th.forall_keys(lambda k: z3.And(h1.has(d, k) == h0.has(g0.nattr(x), k), h1.val(d, k) == h0.val(g0.nattr(x), k)))))
        else:
            OP = th.klit('operation')
            out.append(('the twin holds exactly the given operation',
                        z3.And(h1.has(d, OP), h1.val(d, OP) == th.opaque(s.op), th.forall_keys(lambda k: z3.Implies(k != OP, z3.Not(h1.has(d, k)))))))
        return out


class NameAcc(SList):
    """a python list of node names that the code grows with append(): n, at(i), and the ghost membership / position functions"""

    def __init__(self, n, at, mem, idx):
        SList.__init__(self, n, lambda i: SNodeName(at(_zi(i))))
        self.at_, self.mem, self.idx = at, mem, idx

    @classmethod
    def fresh(cls, name='names'):
        th = theory()
        vc = th.vc
        n = vc.fresh_int(name + '.n', nonneg=True, size=True)
        at, mem, idx = vc.fresh_fn(name + '.at', IntS, th.Node), vc.fresh_fn(name + '.mem', th.Node, BoolS), vc.fresh_fn(name + '.idx', th.Node, IntS)
        return cls(n, lambda i: at(i), lambda x: mem(x), lambda x: idx(x))

    @classmethod
    def of(cls, v):
        if isinstance(v, NameAcc):
            return v
        if isinstance(v, list) and not v:
            th = theory()
            nobody = z3.Const('nobody', th.Node)
            return cls(z3.IntVal(0), lambda i: nobody, lambda x: z3.BoolVal(False), lambda x: z3.IntVal(0))
        raise OutOfSubset('expected an (empty) list of names, got %r' % (v,))

    def at(self, i):
        return self.at_(_zi(i))

    def append(self, x):
        x = nxspec._name_t(x)
        n, at, mem, idx = self.n, self.at_, self.mem, self.idx
        self.n = n + 1
        self.at_ = lambda i: z3.If(i == n, x, at(i))
        self.elt = lambda i: SNodeName(self.at_(_zi(i)))
        self.mem = lambda y: z3.Or(y == x, mem(y))
        self.idx = lambda y: z3.If(y == x, n, idx(y))

    def __contains__(self, x):
        return bool(SBool(self.mem(nxspec._name_t(x))))

    def ok(self):
        """the list holds exactly the names with mem (position witness idx)"""
        th = theory()
        return z3.And(self.n >= 0, forall_range(0, self.n, lambda i: z3.And(self.mem(self.at(i)), self.idx(self.at(i)) == i), 'i'),
                      th.forall_nodes(lambda x: z3.Implies(self.mem(x), z3.And(self.idx(x) >= 0, self.idx(x) < self.n, self.at(self.idx(x)) == x))))


class ObservedCompileFinal(CompilerContract):
    """ObservedCompiler.compile - the rejection clause (final loop) under its own contract.  The main loop is cut at an invariant that pins the
    NODE set of the compiled net and the two name lists exactly and leaves the EDGES it adds unspecified (they are specified by the bounded stand-in):
    the clause is then proved for whatever graph the main loop has built."""
    target = CMF + '::ObservedCompiler.compile'
    label = 'rejection clause'
    lits = ('attr_dict', '_observable', '_uses_observed', '_stochastic', 'operation', '?other0')
    nodes, refs, strs = 3, 8, 2
    fin = 3

    def setup(self, vc):
        s = self.cbase(vc)
        cx, th = s.cx, s.th
        rank = z3.Function('rank', th.Node, IntS)
        s.rank = lambda x: rank(x)
        s.specs = []            # AncSpec of the compiled net as the main loop left it (created at the entry of the final loop)
        s.topo = None

        def make_observed_copy(node, compiled_net, operation=None):
            """callee under contract MakeObservedCopy"""
            if compiled_net is not s.C:
                raise OutOfSubset('make_observed_copy on another graph')
            g, h, x = s.C.snap(), cx.H.snap(), node.t
            vc.oblige('call-pre[make_observed_copy: networkx representation invariant]', graph_wf(th, g, h))
            t = cx.obsname(x)
            if vc.branch(g.node(t)):
                raise program_exception(ValueError('Observed node already exists!'))
            if operation is None:
                vc.oblige('call-pre[make_observed_copy: the node is a node of the compiled net]', g.node(x))
                s.C.add_node(SNodeName(t), **{nxspec.KW: SDict(cx.H, g.nattr(x))})
            else:
                s.C.add_node(SNodeName(t), operation=operation)
            return SNodeName(t)
        s.cls = ClsProxy(__name__='ObservedCompiler', make_observed_copy=make_observed_copy)
        return s, (s.cls, s.S, s.C), {}

    def env(self, vc):
        s = vc._s
        cx, th = s.cx, s.th
        nxm = make_nx(cx, s.specs)

        def topological_sort(G):
            """assumed networkx contract: every node once, parents before children; requires an acyclic graph"""
            if G is not s.S:
                raise OutOfSubset('nx.topological_sort of another graph')
            g = G.snap()
            vc.oblige('call-pre[nx.topological_sort: the graph is acyclic (rank witness)]',
                      th.forall_nodes(lambda u, v: z3.Implies(g.edge(u, v), s.rank(u) < s.rank(v)), 2))
            L = NameSeq.of_set(lambda x: g.node(x), 'topological')
            vc.assume(topo_listing(th, g, L))
            s.topo = L
            return L
        nxm.topological_sort = staticmethod(topological_sort)
        return {'nx': nxm, 'observed_name': observed_name_spec(cx), 'args_to_tuple': _Callable('args_to_tuple'), 'dict': dict}

    def requires(self, s):
        cx, th, S, C, h = s.cx, s.th, s.s0, s.c0, s.h0
        A = th.klit('attr_dict')
        return self.crequires(s) + [
            ('the source net is acyclic (model_ok, C14)', th.forall_nodes(lambda u, v: z3.Implies(S.edge(u, v), s.rank(u) < s.rank(v)), 2)),
            ("a source node's data dict holds only 'attr_dict' (GraphicalModel.add_node)",
             th.forall_nodes(lambda x: z3.Implies(S.node(x), th.forall_keys(lambda k: z3.Implies(k != A, z3.Not(h.has(S.nattr(x), k))))))),
            ("every source edge carries a 'param'", edges_have_param(th, S)),
            ('the compiled net has exactly the source nodes (post of OutputCompiler)', th.forall_nodes(lambda x: C.node(x) == S.node(x))),
            ('observed_name is injective on the user nodes and never yields the name of a user node',
             th.forall_nodes(lambda x, y: z3.Implies(z3.And(S.node(x), S.node(y)), z3.And(cx.obsname(x) != y, z3.Implies(cx.obsname(x) == cx.obsname(y), x == y))), 2))]

    # ---- spec predicates on source nodes
    def _obsable(self, s):
        return lambda x: flag(s.th, s.s0, s.h0, x, '_observable')

    def _uses(self, s):
        return lambda x: z3.And(z3.Not(flag(s.th, s.s0, s.h0, x, '_observable')), flag(s.th, s.s0, s.h0, x, '_uses_observed'))

    def _stoch(self, s):
        """SPEC: a stochastic node = a source node whose state carries '_stochastic'"""
        return lambda a: z3.And(s.s0.node(a), st_has(s.th, s.s0, s.h0, a, '_stochastic'))

    def _lists(self, s, l):
        loc = instrument.locate(self.target)
        names = [st.targets[0].id for st in loc.node.body if isinstance(st, ast.Assign) and isinstance(st.value, ast.List) and not st.value.elts
                 and len(st.targets) == 1 and isinstance(st.targets[0], ast.Name)]
        if len(names) != 2:
            raise OutOfSubset('ObservedCompiler.compile: expected two `name = []` accumulators')
        return NameAcc.of(getattr(l, names[0])), NameAcc.of(getattr(l, names[1])), names

    def _main(self, s, l, done):
        """invariant of the main loop: done(x) = x has been processed"""
        cx, th, S, C0 = s.cx, s.th, s.s0, s.c0
        c1, h1 = s.C.snap(), s.H.snap()
        obsl, usel, _ = self._lists(s, l)
        ob, us = self._obsable(s), self._uses(s)
        tw = lambda x: z3.And(S.node(x), z3.Or(ob(x), us(x)))
        twins = lambda y: th.exists_nodes(lambda x: z3.And(done(x), tw(x), y == cx.obsname(x)))
        return [('nodes of the compiled net = source nodes + the twins of the processed observable / observed-data-using nodes',
                 th.forall_nodes(lambda y: c1.node(y) == z3.Or(C0.node(y), twins(y)))),
                ('the first list holds the processed observable nodes', z3.And(obsl.ok(), th.forall_nodes(lambda x: obsl.mem(x) == z3.And(done(x), S.node(x), ob(x))))),
                ('the second list holds the processed nodes that use observed data', z3.And(usel.ok(), th.forall_nodes(lambda x: usel.mem(x) == z3.And(done(x), S.node(x), us(x))))),
                ('networkx representation invariant (compiled)', graph_wf(th, c1, h1)),
                ('no dict that existed before is written', heap_same_on_old(th, s.h0, h1)), self.source_untouched(s)]

    def _inv0(self, s, l):
        L, i = s.topo, l.it.index
        return self._main(s, l, lambda x: z3.And(L.mem(x), L.idx(x) < i))

    def _inv1(self, s, l):
        it0 = s.rt.loopstate[0]['it']
        L, i = s.topo, it0.index
        cur0 = it0.elt(i).t
        ob, us = self._obsable(s), self._uses(s)
        return self._main(s, l, lambda x: z3.And(L.mem(x), z3.Or(L.idx(x) < i, x == cur0))) + \
            [('the current node is a source node that is observable or uses observed data', z3.And(s.s0.node(cur0), L.idx(cur0) == i, i < L.n, z3.Or(ob(cur0), us(cur0))))]

    # ---- the final loops
    def _anc(self, s):
        if not s.specs:
            raise OutOfSubset('ObservedCompiler.compile: final loop reached without its entry snapshot')
        return s.specs[0]

    def _enter_final(self, s, l):
        """entry of the final loop: the spec relation anc = ancestors in the compiled net AS THE MAIN LOOP LEFT IT"""
        c = s.C.snap()
        del s.specs[:]
        sp = AncSpec(s.cx, c.edge, 'anc_compiled')
        s.specs.append(sp)
        for f in sp.facts():
            s.rt.vc.assume(f)
        return dict(c=c)

    def _clean(self, s, usel, sel):
        """no node u of the list with sel(u) has a stochastic ancestor of its observed twin"""
        th, cx, anc, bad = s.th, s.cx, self._anc(s).rel, self._stoch(s)
        return th.forall_nodes(lambda u, a: z3.Implies(z3.And(usel.mem(u), sel(u), anc(a, cx.obsname(u))), z3.Not(bad(a))), 2)

    def _inv2(self, s, l):
        _, usel, _ = self._lists(s, l)
        i = l.it.index
        return [('no stochastic ancestor found for the twins checked so far', self._clean(s, usel, lambda u: usel.idx(u) < i)),
                ('the compiled net is not modified by the check', z3.BoolVal(s.C.edge is l.entry.c.edge and s.C.node is l.entry.c.node))]

    def _inv3(self, s, l):
        _, usel, _ = self._lists(s, l)
        it2 = s.rt.loopstate[2]['it']
        i = it2.index
        cur2 = it2.elt(i).t
        vis, bad = l.it.visited, self._stoch(s)
        return [('no stochastic ancestor found for the twins checked so far', self._clean(s, usel, lambda u: usel.idx(u) < i)),
                ('no stochastic node among the visited ancestors of the current twin', s.th.forall_nodes(lambda a: z3.Implies(vis(a), z3.Not(bad(a))))),
                ('the current node is in the list at the current position', z3.And(usel.mem(cur2), usel.idx(cur2) == i)),
                ('the compiled net is not modified by the check', z3.BoolVal(s.C.edge is s.rt.loopstate[2]['entry'].c.edge))]

    @property
    def loops(self):
        loc = instrument.locate(self.target)
        names = [st.targets[0].id for st in loc.node.body if isinstance(st, ast.Assign) and isinstance(st.value, ast.List) and not st.value.elts
                 and len(st.targets) == 1 and isinstance(st.targets[0], ast.Name)]
        fresh = {n: (lambda why, n=n: NameAcc.fresh(n)) for n in names}
        L0 = Loop(inv=self._inv0, modifies=lambda s, l: [s.C, s.H], fresh=fresh)
        L0.rebind = tuple(names)
        L1 = Loop(inv=self._inv1, modifies=lambda s, l: [s.C, s.H])
        L2 = Loop(inv=self._inv2, snapshot=self._enter_final)
        L3 = Loop(inv=self._inv3)
        return {0: L0, 1: L1, 2: L2, 3: L3}

    def _exists_bad(self, s):
        """SPEC: a stochastic node is an ancestor (in the compiled net built by the main loop) of the observed twin of a node that uses observed data"""
        th, cx, S = s.th, s.cx, s.s0
        us, bad = self._uses(s), self._stoch(s)
        if not s.specs:
            return None
        anc = s.specs[0].rel
        return th.exists_nodes(lambda u, a: z3.And(S.node(u), us(u), anc(a, cx.obsname(u)), bad(a)), 2)

    def raises(self, s):
        e = self._exists_bad(s)
        return {'ValueError': e if e is not None else z3.BoolVal(False)}

    def iff_raises(self, s):
        return [('normal return only if no stochastic node is an ancestor of a used observed twin', z3.Not(self._exists_bad(s)))]

    def ensures(self, s, result):
        return [('returns the compiled net', z3.BoolVal(result is s.C)), self.source_untouched(s)]


class ObservedCompileWiring(ObservedCompileFinal):
    """ObservedCompiler.compile - the whole function: nodes, EDGES and attributes of the observed twins (order-dependent invariant: the parents of a node
    come earlier in nx.topological_sort order, so `parent in observable` <=> the parent is observable)."""
    label = 'twin wiring'
    lits = ('attr_dict', '_observable', '_uses_observed', '_stochastic', 'operation', 'output', '?other0')
    refs, strs = 8, 2

    @property
    def nodes(self):
        # finitised universe: a counter-model of the twin wiring needs a node, a parent and both twins (4 names); the quick tier keeps 3 for its time budget
        return 4 if _tier() == 'thorough' else 3

    def setup(self, vc):
        s, a, k = ObservedCompileFinal.setup(self, vc)
        un = z3.Function('unobs', s.th.Node, s.th.Node)        # ghost inverse of observed_name on the user nodes
        s.unobs = lambda y: un(y)
        return s, a, k

    def requires(self, s):
        cx, th, S, C, h = s.cx, s.th, s.s0, s.c0, s.h0
        return ObservedCompileFinal.requires(self, s) + [
            ('ghost: unobs inverts observed_name on the user nodes (exists: observed_name is injective there)', th.forall_nodes(lambda x: z3.Implies(S.node(x), s.unobs(cx.obsname(x)) == x))),
            ('the compiled net has exactly the source edges (post of OutputCompiler)', th.forall_nodes(lambda u, v: C.edge(u, v) == S.edge(u, v), 2))]

    def _st(self, s):
        return lambda x: flag(s.th, s.s0, s.h0, x, '_stochastic')

    def _wiring(self, s, doneT, proc):
        """SPEC of the compiled net: doneT(x): the twin of x exists (with its tuple edge); proc(x, p): the edge for parent p into the twin of x exists"""
        cx, th, S, C0, h0 = s.cx, s.th, s.s0, s.c0, s.h0
        c1, h1 = s.C.snap(), s.H.snap()
        ob, us, st, obs, un = self._obsable(s), self._uses(s), self._st(s), cx.obsname, s.unobs
        tw = lambda x: z3.And(S.node(x), z3.Or(ob(x), us(x)))
        T = lambda u, v: z3.And(S.node(v), doneT(v), us(v), u == obs(v))

        def W(u, v):
            X, P = un(v), un(u)
            return z3.And(S.node(X), obs(X) == v, tw(X), z3.Not(st(X)),
                          z3.Or(z3.And(S.node(u), S.edge(u, X), z3.Not(ob(u)), proc(X, u)), z3.And(S.node(P), obs(P) == u, S.edge(P, X), ob(P), proc(X, P))))
        src = lambda u: z3.If(S.node(u), u, un(u))              # the user parent an edge into a twin comes from
        OBS = th.Param.pname(cx.str_lit('observed'))
        OP = th.klit('operation')
        d = lambda x: c1.nattr(obs(x))
        return [('edges = source edges + (tuple twin -> node that uses observed data) + (parent or its twin -> twin of every non-stochastic twinned node)',
                 th.forall_nodes(lambda u, v: c1.edge(u, v) == z3.Or(C0.edge(u, v), T(u, v), W(u, v)), 2)),
                ("params: 'observed' on the tuple edges, the param of the source edge on the twin edges, unchanged elsewhere",
                 th.forall_nodes(lambda u, v: c1.param(u, v) == z3.If(T(u, v), OBS, z3.If(W(u, v), S.param(src(u), un(v)), C0.param(u, v))), 2)),
                ('the twin of an observable node holds a copy of its compiled attributes (same operation / output)',
                 th.forall_nodes(lambda x: z3.Implies(z3.And(S.node(x), doneT(x), ob(x)),
                                                      th.forall_keys(lambda k: z3.And(h1.has(d(x), k) == h0.has(C0.nattr(x), k), h1.val(d(x), k) == h0.val(C0.nattr(x), k)))))),
                ('the twin of a node that uses observed data holds exactly the operation args_to_tuple',
                 th.forall_nodes(lambda x: z3.Implies(z3.And(S.node(x), doneT(x), us(x)),
                                                      z3.And(h1.has(d(x), OP), h1.val(d(x), OP) == th.opaque(s.rt.vc.g['args_to_tuple']),
                                                             th.forall_keys(lambda k: z3.Implies(k != OP, z3.Not(h1.has(d(x), k)))))))),
                ('user nodes keep their data dicts', th.forall_nodes(lambda x: z3.Implies(C0.node(x), c1.nattr(x) == C0.nattr(x))))]

    def _inv0(self, s, l):
        L, i = s.topo, l.it.index
        done = lambda x: z3.And(L.mem(x), L.idx(x) < i)
        return ObservedCompileFinal._inv0(self, s, l) + self._wiring(s, done, lambda x, p: done(x))

    def _inv1(self, s, l):
        it0 = s.rt.loopstate[0]['it']
        L, i = s.topo, it0.index
        cur0 = it0.elt(i).t
        done = lambda x: z3.And(L.mem(x), L.idx(x) < i)
        vis = l.it.visited
        return ObservedCompileFinal._inv1(self, s, l) + \
            [('the current node is not stochastic', z3.Not(self._st(s)(cur0)))] + \
            self._wiring(s, lambda x: z3.Or(done(x), x == cur0), lambda x, p: z3.Or(done(x), z3.And(x == cur0, vis(p))))

    # the rejection clause is the business of contract ObservedCompileFinal: here the final loops only have to leave the net alone
    def _inv2(self, s, l):
        return [('the compiled net is not modified by the check', z3.BoolVal(s.C.edge is l.entry.c.edge and s.C.node is l.entry.c.node))]

    def _inv3(self, s, l):
        return [('the compiled net is not modified by the check', z3.BoolVal(s.C.edge is s.rt.loopstate[2]['entry'].c.edge))]

    def raises(self, s):
        return {'ValueError': z3.BoolVal(True)}

    def iff_raises(self, s):
        return []

    def ensures(self, s, result):
        S = s.s0
        return ObservedCompileFinal.ensures(self, s, result) + self._main(s, s.rt.loopstate[2]['head'], lambda x: S.node(x))[:1] + \
            self._wiring(s, lambda x: S.node(x), lambda x, p: S.node(x))


# ---------------------------------------------------------------------- loaders
class _Opaque:
    def __init__(self, what):
        self.what = what

    def __repr__(self):
        return '<%s>' % self.what


class ObservedLoad(C03Contract):
    target = LDF + '::ObservedLoader.load'
    lits = ('observed', 'operation', 'output', '?other0')
    refs = 8

    def env(self, vc):
        return {'observed_name': observed_name_spec(vc._s.cx), 'dict': dict}

    def setup(self, vc):
        s = self.base(vc, CGraph)
        s.cls = ClsProxy(__name__='ObservedLoader')
        return s, (s.cls, _Opaque('context'), s.G, _Opaque('batch_index')), {}

    def _obs(self, s):
        """the dict of observations (graph['observed'], keyed by node names) at entry"""
        th, g, h = s.th, s.g0, s.h0
        o = th.Val.ref_of(h.val(g.gref, th.klit('observed')))
        return o, (lambda n: h.has(o, th.knode(n))), (lambda n: h.val(o, th.knode(n)))

    def requires(self, s):
        cx, th, g, h = s.cx, s.th, s.g0, s.h0
        O = th.klit('observed')
        o, has, _ = self._obs(s)
        t = lambda n: cx.obsname(n)
        return [('networkx representation invariant', graph_wf(th, g, h)),
                ("graph['observed'] is a dict keyed by node names, different from the graph dict and the node data dicts",
                 z3.And(h.has(g.gref, O), th.Val.is_vref(h.val(g.gref, O)), h.alloc(o), o != g.gref,
                        th.forall_nodes(lambda x: z3.Implies(g.node(x), g.nattr(x) != o)),
                        th.forall_keys(lambda k: z3.Implies(th.Key.is_klit(k), z3.Not(h.has(o, k)))))),
                ('observed_name is injective', obsname_injective(cx)),
                ("the twin of an observed node, if present, still has its 'operation' (ObservedCompiler copies it from an observable node)",
                 th.forall_nodes(lambda n: z3.Implies(z3.And(has(n), g.node(t(n))), nd_has(th, g, h, t(n), 'operation'))))]

    def _loaded(self, s, sel):
        """SPEC: for every name n with sel(n) that has an observation and whose twin is in the net: twin.output = observation, twin.operation removed"""
        cx, th, g, h0, h1 = s.cx, s.th, s.g0, s.h0, s.H.snap()
        o, has, val = self._obs(s)
        OP, OUT = th.klit('operation'), th.klit('output')
        hit = lambda n: z3.And(sel(n), has(n), g.node(cx.obsname(n)))
        d = lambda n: g.nattr(cx.obsname(n))
        return [('the twin of an observed node gets output = the observation and loses its operation',
                 th.forall_nodes(lambda n: z3.Implies(hit(n), z3.And(h1.has(d(n), OUT), h1.val(d(n), OUT) == val(n), z3.Not(h1.has(d(n), OP)))))),
                ('the graph structure is not modified', _same_graph(s)),
                ("frame: besides these two slots (and graph['observed']) no dict slot changes",
                 z3.And(th.forall_ref_key(lambda r, k: z3.Implies(z3.Not(z3.Or(z3.And(r == g.gref, k == th.klit('observed')),
                                                                                th.exists_nodes(lambda n: z3.And(hit(n), r == d(n), z3.Or(k == OP, k == OUT))))),
                                                                  z3.And(h1.has(r, k) == h0.has(r, k), h1.val(r, k) == h0.val(r, k)))),
                        th.forall_refs(lambda r: h1.alloc(r) == h0.alloc(r))))]

    def _inv(self, s, l):
        g, h1 = s.g0, s.H.snap()
        O = s.th.klit('observed')
        return self._loaded(s, l.it.visited) + [("graph['observed'] is still there", z3.And(h1.has(g.gref, O), h1.val(g.gref, O) == s.h0.val(g.gref, O)))]

    @property
    def loops(self):
        return {0: Loop(inv=self._inv, modifies=lambda s, l: [s.H])}

    def ensures(self, s, result):
        g, h1 = s.g0, s.H.snap()
        return [('returns the net', z3.BoolVal(result is s.G))] + self._loaded(s, lambda n: z3.BoolVal(True)) + \
            [("graph['observed'] is removed from the loaded net", z3.Not(h1.has(g.gref, s.th.klit('observed'))))]


class AdditionalNodesLoad(C03Contract):
    target = LDF + '::AdditionalNodesLoader.load'
    lits = ('name', 'output', 'batch_index', 'submission_index', 'master_seed', 'model_name', '?other0')
    refs = 8

    def env(self, vc):
        return {'dict': vc_dict}

    def setup(self, vc):
        s = self.base(vc, CGraph)
        s.cls = TreeCls(s.cx, self.target.rsplit('.', 1)[0])
        s.h0 = s.H.snap()               # class-level dict constants exist before the call
        s.batch_index = _Opaque('batch_index')
        s.context = NS(batch_size=_Opaque('context.batch_size'), num_submissions=_Opaque('context.num_submissions'), seed=_Opaque('context.seed'))
        return s, (s.cls, s.context, s.G, s.batch_index), {}

    def requires(self, s):
        th, g, h = s.th, s.g0, s.h0
        return [('networkx representation invariant', graph_wf(th, g, h)), ("graph['name'] is present", h.has(g.gref, th.klit('name'))),
                ('class-level dicts are not dicts of the net', z3.And([z3.And(d.ref != g.gref, th.forall_nodes(lambda x, d=d: z3.Implies(g.node(x), g.nattr(x) != d.ref)))
                                                                      for d in s.cls.class_dicts()] or [z3.BoolVal(True)]))]

    def ensures(self, s, result):
        cx, th, g, h0, h1 = s.cx, s.th, s.g0, s.h0, s.H.snap()
        BSn, Mn, OUT = cx.node_lit('_batch_size'), cx.node_lit('_meta'), th.klit('output')
        m = th.Val.ref_of(h1.val(g.nattr(Mn), OUT))
        entries = [('batch_index', th.opaque(s.batch_index)), ('submission_index', th.opaque(s.context.num_submissions)),
                   ('master_seed', th.opaque(s.context.seed)), ('model_name', h0.val(g.gref, th.klit('name')))]
        ekeys = [th.klit(k) for k, _ in entries]
        return [('returns the net', z3.BoolVal(result is s.G)), ('the graph structure is not modified', _same_graph(s)),
                ('_batch_size, if present, gets output = the batch size of the context',
                 z3.Implies(g.node(BSn), z3.And(h1.has(g.nattr(BSn), OUT), h1.val(g.nattr(BSn), OUT) == th.opaque(s.context.batch_size)))),
                ('_meta, if present, gets output = a NEW dict (one that did not exist before this call: not shared with an earlier load, the class or the context) '
                 '{batch_index, submission_index, master_seed, model_name}',
                 z3.Implies(g.node(Mn), z3.And([h1.has(g.nattr(Mn), OUT), th.Val.is_vref(h1.val(g.nattr(Mn), OUT)), z3.Not(h0.alloc(m)), h1.alloc(m)] +
                                               [z3.And(h1.has(m, th.klit(k)), h1.val(m, th.klit(k)) == v) for k, v in entries] +
                                               [th.forall_keys(lambda k: z3.Implies(z3.And([k != e for e in ekeys]), z3.Not(h1.has(m, k))))]))),
                ("frame: of the dicts that existed only the 'output' slots of these two nodes are written",
                 heap_same_on_old(th, h0, h1, lambda r, k: z3.And(k == OUT, z3.Or(z3.And(g.node(BSn), r == g.nattr(BSn)), z3.And(g.node(Mn), r == g.nattr(Mn))))))]



# ====================================================================== Executor.get_execution_order
class CacheProxy(Sym):
    """the executor cache dict {'sort_order': list, <tuple of needed names>: list}: an arbitrary cache state.
    has_sort / sort: the stored sort order; hit / stored: whether the key of THIS call is present, and the list stored under it."""

    def __init__(self, cx, bound):
        th, vc = cx.th, cx.vc
        self.t = None
        self.bound = bound              # False: the graph has no '_executor_cache' (a fresh {} is used)
        self.has_sort = z3.Const('cache.has_sort_order', BoolS) if bound else z3.BoolVal(False)
        self.hit = z3.Const('cache.has_needed', BoolS) if bound else z3.BoolVal(False)
        self.sort = NameSeq.of_set(z3.Function('cache.sort_order.mem', th.Node, BoolS), 'cache.sort_order')
        self.stored = NameSeq.of_set(z3.Function('cache.stored.mem', th.Node, BoolS), 'cache.stored')
        self.stored0, self.key, self.writes = self.stored, None, []

    def _is_key(self, k):
        if isinstance(k, NameSeq):
            if self.key is None:
                self.key = k
            if self.key is not k:
                raise OutOfSubset('executor cache accessed with two different tuple keys')
            return True
        return False

    def __contains__(self, k):
        if k == 'sort_order' if isinstance(k, str) else False:
            return bool(SBool(self.has_sort))
        if self._is_key(k):
            return bool(SBool(self.hit))
        raise OutOfSubset('executor cache key %r' % (k,))

    def __getitem__(self, k):
        if isinstance(k, str) and k == 'sort_order':
            _need('call-pre[dict key present: sort_order]', self.has_sort)
            return self.sort
        if self._is_key(k):
            _need('call-pre[dict key present: <needed>]', self.hit)
            return self.stored
        raise OutOfSubset('executor cache key %r' % (k,))

    def __setitem__(self, k, v):
        if isinstance(k, str) and k == 'sort_order':
            self.has_sort, self.sort = z3.BoolVal(True), v
        elif self._is_key(k):
            self.hit, self.stored = z3.BoolVal(True), v
        else:
            raise OutOfSubset('executor cache key %r' % (k,))
        self.writes.append(k if isinstance(k, str) else '<needed>')

    __hash__ = Sym.__hash__


def topo_listing(th, g, L):
    """L lists every node of g exactly once, parents before children"""
    return z3.And(L.n >= 0, th.forall_nodes(lambda x: L.mem(x) == g.node(x)),
                  forall_range(0, L.n, lambda i: z3.And(L.mem(L.at(i)), L.idx(L.at(i)) == i), 'i'),
                  th.forall_nodes(lambda x: z3.Implies(L.mem(x), z3.And(L.idx(x) >= 0, L.idx(x) < L.n, L.at(L.idx(x)) == x))),
                  th.forall_nodes(lambda u, v: z3.Implies(g.edge(u, v), L.idx(u) < L.idx(v)), 2))


class ExecGraph(CGraph):
    def cache_proxy(self, default):
        cx = ctx_of(self.th)
        vc = cx.vc
        s = vc._s
        present = s.h0.has(s.g0.gref, cx.lit('_executor_cache'))
        mode = getattr(vc._contract_mode, 'mode', None) if hasattr(vc, '_contract_mode') else None
        if mode is not None:        # case contracts (run as parallel jobs): no cache | cache without / with a stored sort order (miss) | hit
            vc.assume(present if mode != 'no cache' else z3.Not(present))
        if vc.branch(present):
            s.cache = CacheProxy(cx, True)
            if mode == 'miss, no sort order cached':
                vc.assume(z3.Not(s.cache.has_sort), z3.Not(s.cache.hit))
            elif mode == 'miss, sort order cached':
                vc.assume(s.cache.has_sort, z3.Not(s.cache.hit))
            elif mode == 'hit':
                vc.assume(s.cache.hit)
            vc.assume(z3.Implies(s.cache.has_sort, topo_listing(cx.th, s.g0, s.cache.sort)))        # cache_ok (representation invariant of the cache, assumed)
        else:
            if default != {}:
                raise OutOfSubset('executor cache default %r' % (default,))
            s.cache = CacheProxy(cx, False)
        return s.cache


class Witness:
    """ghost Skolem function Node -> Node (which needed node a collected ancestor belongs to)"""

    def __init__(self, cx):
        self.cx = cx
        self.f = lambda x: x

    def _vc_havoc(self, name):
        w = self.cx.vc.fresh_fn('witness', self.cx.th.Node, self.cx.th.Node)
        self.f = lambda x: w(x)


class GetExecutionOrder(C03Contract):
    target = EXF + '::Executor.get_execution_order'
    comprehensions = True
    genexps = True
    lits = ('operation', 'output', 'outputs', '_executor_cache', '?other0')
    refs = 10

    def __init__(self, mode):
        self.mode = self.label = mode

    def setup(self, vc):
        vc._contract_mode = self
        s = self.base(vc, ExecGraph)
        cx, th = s.cx, s.th
        s.anc = AncSpec(cx, dep_edge(th, s.g0, s.h0), 'anc_dep')
        s.cache = None
        s.wit = Witness(cx)
        rank = z3.Function('rank', th.Node, IntS)
        s.rank = lambda x: rank(x)
        s.cls = ClsProxy(__name__='Executor')
        return s, (s.cls, s.G), {}

    def env(self, vc):
        s = vc._s
        cx, th = s.cx, s.th

        def nx_constant_topological_sort(G, nbunch=None, reverse=False):
            """callee (topological-order fact: C02): every node once, parents before children; requires an acyclic graph"""
            if G is not s.G or nbunch is not None or reverse is not False:
                raise OutOfSubset('nx_constant_topological_sort with options')
            g = G.snap()
            vc.oblige('call-pre[nx_constant_topological_sort: the graph is acyclic (rank witness)]',
                      th.forall_nodes(lambda u, v: z3.Implies(g.edge(u, v), s.rank(u) < s.rank(v)), 2))
            L = NameSeq.of_set(lambda x: g.node(x), 'sort_order')
            vc.assume(topo_listing(th, g, L))
            return L
        return {'nx': make_nx(cx, [s.anc]), 'nx_constant_topological_sort': nx_constant_topological_sort}

    def requires(self, s):
        th, g, h = s.th, s.g0, s.h0
        return geo_pre(s.cx, g, h) + [('the net is acyclic (model_ok, C14): a rank increases along every edge',
                                       th.forall_nodes(lambda u, v: z3.Implies(g.edge(u, v), s.rank(u) < s.rank(v)), 2))] + s.anc.facts()

    # ---- the dependency graph object: the graph built by nx.DiGraph(G.edges)
    def _dep(self, s):
        lib = s.rt.vc.libcalls.get('nx.DiGraph(edges)')
        if not lib:
            raise OutOfSubset('get_execution_order: no dependency graph built from G.edges before the loop')
        return lib[-1]['graph']

    def _sort(self, s):
        return s.cache.sort

    def _inv0(self, s, l):
        th, g, h = s.th, s.g0, s.h0
        D, d0, L, i = self._dep(s), l.entry.d, self._sort(s), l.it.index
        d1 = D.snap()
        ho = has_out(th, g, h)
        gone = lambda x: z3.And(L.mem(x), L.idx(x) < i, ho(x))
        return [('dependency graph = the graph built before the loop minus the visited nodes that have an output',
                 z3.And(th.forall_nodes(lambda x: d1.node(x) == z3.And(d0.node(x), z3.Not(gone(x)))),
                        th.forall_nodes(lambda u, v: d1.edge(u, v) == z3.And(d0.edge(u, v), d1.node(u), d1.node(v)), 2))),
                ('visited nodes have exactly one of operation / output',
                 th.forall_nodes(lambda x: z3.Implies(z3.And(L.mem(x), L.idx(x) < i), z3.Not(both_or_neither(th, g, h, x))))),
                ('the net and its dicts are not written', z3.And(_same_graph(s), z3.BoolVal(s.H.has is l.entry.h.has and s.H.val is l.entry.h.val)))]

    def _inv1(self, s, l):
        th = s.th
        N, i = s.cache.key, l.it.index
        acc = [v for v in vars(l).values() if isinstance(v, SNodeSet)]
        if len(acc) != 1 or N is None:
            raise OutOfSubset('get_execution_order: expected one node set among the locals of the second loop')
        w = s.wit.f
        return [('the set holds needed + the ancestors (in the dependency graph) of the needed nodes visited so far (ghost witness w: which needed node)',
                 z3.And(th.forall_nodes(lambda x: z3.Implies(acc[0].mem(x), z3.Or(N.mem(x), z3.And(N.mem(w(x)), N.idx(w(x)) < i, s.anc.rel(x, w(x)))))),
                        th.forall_nodes(lambda x: z3.Implies(N.mem(x), acc[0].mem(x))),
                        th.forall_nodes(lambda x, y: z3.Implies(z3.And(N.mem(y), N.idx(y) < i, s.anc.rel(x, y)), acc[0].mem(x)), 2)))]

    def _ghost1(self, s, l0, l1):
        w0, cur_ = s.wit.f, l0.it.elt(l0.h.i).t
        head_mem = l0.h.mem
        s.wit.f = lambda x: z3.If(z3.And(s.anc.rel(x, cur_), z3.Not(head_mem(x))), cur_, w0(x))

    @property
    def loops(self):
        def dep_is_spec(s, l):
            # explicit lemma step (proved here as its own obligation, then used): the graph the code queries has the edge relation of the spec's dependency graph
            d1 = self._dep(s).snap()
            s.rt.vc.cut('the dependency graph built by the code = G minus the nodes that have an output',
                        s.th.forall_nodes(lambda u, v: d1.edge(u, v) == s.anc.E(u, v), 2))
        L1 = Loop(inv=self._inv1, fresh={}, modifies=lambda s, l: [v for v in vars(l).values() if isinstance(v, SNodeSet)] + [s.wit], on_head=dep_is_spec,
                  ghost_step=self._ghost1, at_head=lambda s, l: dict(i=l.it.index, mem=[v for v in vars(l).values() if isinstance(v, SNodeSet)][0].mem))
        return {0: Loop(inv=self._inv0, modifies=lambda s, l: [self._dep(s)], snapshot=lambda s, l: dict(d=self._dep(s).snap(), h=s.H.snap())),
                1: L1}

    def raises(self, s):
        th, g, h = s.th, s.g0, s.h0
        return {'ValueError': th.exists_nodes(lambda x: z3.And(g.node(x), both_or_neither(th, g, h, x)))}

    def iff_raises(self, s):
        th, g, h = s.th, s.g0, s.h0
        if '<needed>' in s.cache.writes:      # the order was computed (cache miss): every node was checked
            return [('normal return after computing the order only if every node has exactly one of operation / output',
                     th.forall_nodes(lambda x: z3.Implies(g.node(x), z3.Not(both_or_neither(th, g, h, x)))))]
        return []

    def ensures(self, s, result):
        cx, th, g, h = s.cx, s.th, s.g0, s.h0
        frame = ('the net and its dicts are not written', z3.And(_same_graph(s), heap_same_on_old(th, h, s.H.snap())))
        if isinstance(result, list):
            if result:
                raise OutOfSubset('get_execution_order returned a non-empty python list')
            needed = needed_of(cx, g, h)
            return [('returns [] only if no requested output has an operation to run', th.forall_nodes(lambda x: z3.Not(needed(x)))),
                    ('nothing is cached', z3.BoolVal(not s.cache.writes)), frame]
        if not isinstance(result, NameSeq):
            raise OutOfSubset('get_execution_order returned %s' % type(result).__name__)
        if '<needed>' not in s.cache.writes:
            return [('cache hit: returns the stored list', z3.BoolVal(result is s.cache.stored0)), ('nothing is cached', z3.BoolVal(not s.cache.writes)), frame]
        fl = s.rt.vc.libcalls.get('filtered-list')
        # explicit lemma instance (proved here as its own obligation, then used): transitivity of anc at the ghost witness
        w = s.wit.f
        s.rt.vc.cut('lemma instance: a dependency parent of an ancestor of w is an ancestor of w',
                    th.forall_nodes(lambda p, x: z3.Implies(z3.And(s.anc.E(p, x), s.anc.rel(x, w(x))), s.anc.rel(p, w(x))), 2))
        out = order_facts(cx, g, h, result, s.anc.rel)
        out.append(('the result is a sub-list of the (cached) topological sort order: the order of execution is fixed',
                    z3.BoolVal(bool(fl) and fl[-1]['out'] is result and fl[-1]['src'] is s.cache.sort)))
        out.append(('the computed list is stored in the cache under the needed tuple', z3.BoolVal(s.cache.stored is result)))
        out.append(frame)
        return out


class TwoLoads(C03Contract):
    """two consecutive AdditionalNodesLoader.load calls (REAL body, inlined twice) for two loaded nets and two batches on ONE heap: the first net's
    run metadata is still that of the first batch afterwards (several batches are pending before any is executed)"""
    target = '@verif/lemmas/c03_lemmas.py::two_loads'
    label = 'AdditionalNodesLoader.load twice'
    lits = ('name', 'output', 'batch_index', 'submission_index', 'master_seed', 'model_name', '?other0')
    nodes, refs = 3, 10

    def env(self, vc):
        s = vc._s
        from pyvc.engine import inline
        real = inline(vc, LDF + '::AdditionalNodesLoader.load')
        return {'dict': vc_dict, 'load': lambda *a: real(s.cls, *a)}

    def setup(self, vc):
        s = self.base(vc, CGraph)
        s.G1, s.G2 = s.G, CGraph(s.H, 'G2', 'sym')
        s.cls = TreeCls(s.cx, LDF + '::AdditionalNodesLoader')
        s.g1, s.g2, s.h0 = s.G1.snap(), s.G2.snap(), s.H.snap()
        mk = lambda j: (NS(batch_size=_Opaque('context%d.batch_size' % j), num_submissions=_Opaque('context%d.num_submissions' % j), seed=_Opaque('context%d.seed' % j)),
                        _Opaque('batch_index%d' % j))
        (s.ctx1, s.b1), (s.ctx2, s.b2) = mk(1), mk(2)
        return s, (s.ctx1, s.G1, s.b1, s.ctx2, s.G2, s.b2), {}

    def requires(self, s):
        th, h, a, b = s.th, s.h0, s.g1, s.g2
        N = th.klit('name')
        r = [('networkx representation invariant (both nets)', z3.And(graph_wf(th, a, h), graph_wf(th, b, h))),
             ("graph['name'] is present (both nets)", z3.And(h.has(a.gref, N), h.has(b.gref, N))),
             ('the two loaded nets are different objects (client.load_data copies the compiled net)',
              z3.And(a.gref != b.gref, th.forall_nodes(lambda x, y: z3.Implies(z3.And(a.node(x), b.node(y)), a.nattr(x) != b.nattr(y)), 2),
                     th.forall_nodes(lambda x: z3.And(z3.Implies(a.node(x), a.nattr(x) != b.gref), z3.Implies(b.node(x), b.nattr(x) != a.gref)))))]
        for d in s.cls.class_dicts():
            r.append(('class-level dicts are not dicts of the nets', z3.And(d.ref != a.gref, d.ref != b.gref, th.forall_nodes(
                lambda x, d=d: z3.And(z3.Implies(a.node(x), a.nattr(x) != d.ref), z3.Implies(b.node(x), b.nattr(x) != d.ref))))))
        return r

    def ensures(self, s, result):
        cx, th, h1 = s.cx, s.th, s.H.snap()
        Mn, BSn, OUT = cx.node_lit('_meta'), cx.node_lit('_batch_size'), th.klit('output')
        out = []
        for j, (g, ctx, b) in enumerate(((s.g1, s.ctx1, s.b1), (s.g2, s.ctx2, s.b2)), 1):
            m = th.Val.ref_of(h1.val(g.nattr(Mn), OUT))
            entries = [('batch_index', th.opaque(b)), ('submission_index', th.opaque(ctx.num_submissions)), ('master_seed', th.opaque(ctx.seed)),
                       ('model_name', s.h0.val(g.gref, th.klit('name')))]
            out.append(('after BOTH loads, the _meta output of net %d holds the run metadata of ITS batch' % j,
                        z3.Implies(g.node(Mn), z3.And([h1.has(g.nattr(Mn), OUT), th.Val.is_vref(h1.val(g.nattr(Mn), OUT))] +
                                                      [z3.And(h1.has(m, th.klit(k)), h1.val(m, th.klit(k)) == v) for k, v in entries]))))
            out.append(('after BOTH loads, the _batch_size output of net %d is the batch size of ITS context' % j,
                        z3.Implies(g.node(BSn), z3.And(h1.has(g.nattr(BSn), OUT), h1.val(g.nattr(BSn), OUT) == th.opaque(ctx.batch_size)))))
        return out


# ====================================================================== ghost lemmas: exec_sem
def params_distinct_at(th, g, x):
    """model_ok (C14): the positional params on the in-edges of x are pairwise distinct"""
    return th.forall_nodes(lambda p, q: z3.Implies(z3.And(pos_edge(th, g, p, x), pos_edge(th, g, q, x), p != q), pint(th, g, p, x) != pint(th, g, q, x)), 2)


def same_content(cx, a, b):
    """SPEC: two call packs hold the same positional and keyword arguments"""
    th = cx.th
    return z3.And(cx.plen(a) == cx.plen(b), forall_range(0, cx.plen(a), lambda i: cx.parg(a, i) == cx.parg(b, i), 'i'),
                  th.forall_strs(lambda k: z3.And(cx.kdom(a, k) == cx.kdom(b, k), z3.Implies(cx.kdom(a, k), cx.kval(a, k) == cx.kval(b, k)))))


class LemmaSetup(C03Contract):
    lits = ('?other0',)
    nodes, refs, strs = 3, 2, 2
    fin = 3

    def lbase(self, vc):
        s = self.base(vc)
        cx, th = s.cx, s.th
        s.x = z3.Const('x', th.Node)
        out = z3.Function('out', th.Node, th.Val)
        s.out = lambda p: out(p)
        s.pk = [z3.Const('pk1', cx.Pack), z3.Const('pk2', cx.Pack)]
        s.pos, s.own = [], []
        for j in (1, 2):
            pf, of = z3.Function('pos%d' % j, th.Node, IntS), z3.Function('own%d' % j, IntS, th.Node)
            s.pos.append(lambda p, pf=pf: pf(p))
            s.own.append(lambda i, of=of: of(i))
        vc.fin_bounds.extend([cx.plen(s.pk[0]), cx.plen(s.pk[1])])
        return s


class LemmaPackUnique(LemmaSetup):
    target = '@verif/lemmas/c03_lemmas.py::lemma_pack_unique'

    def setup(self, vc):
        s = self.lbase(vc)
        return s, (SInt(s.cx.plen(s.pk[0])),), {}

    def requires(self, s):
        cx, th, g = s.cx, s.th, s.g0
        r = [('model_ok: positional params pairwise distinct', params_distinct_at(th, g, s.x))]
        for j in (0, 1):
            r += args_of(cx, g, s.out, s.x, s.pk[j], s.pos[j], s.own[j])
        return r

    def _inv(self, s, l):
        cx, th, g = s.cx, s.th, s.g0
        k = l.k.t if hasattr(l.k, 't') else z3.IntVal(l.k)
        p1, p2 = s.pos
        return [('0 <= k <= both lengths', z3.And(k >= 0, k <= cx.plen(s.pk[0]), k <= cx.plen(s.pk[1]))),
                ('the two position witnesses agree below k',
                 th.forall_nodes(lambda p: z3.Implies(pos_edge(th, g, p, s.x), z3.And(z3.Implies(p1(p) < k, p2(p) == p1(p)), z3.Implies(p2(p) < k, p1(p) == p2(p))))))]

    loops = {}

    @property
    def loops(self):
        return {0: Loop(inv=self._inv)}

    def ensures(self, s, result):
        return [('the two packs have the same content', same_content(s.cx, s.pk[0], s.pk[1]))]


class LemmaExecSemStep(LemmaSetup):
    target = '@verif/lemmas/c03_lemmas.py::lemma_exec_sem_step'
    label = 'exec_sem'

    def setup(self, vc):
        s = self.lbase(vc)
        th = s.th
        sem = z3.Function('sem', th.Node, th.Val)
        s.sem = lambda p: sem(p)
        s.op, s.out_x = z3.Const('op', th.Val), z3.Const('out_x', th.Val)
        return s, (), {}

    def env(self, vc):
        s = vc._s
        cx, th, g = s.cx, s.th, s.g0

        def use_pack_unique():
            """lemma instance, proved by LemmaPackUnique: call-pre = its requires (for the spec pack: args_of w.r.t. the outputs, by the IH)"""
            vc.oblige('call-pre[pack_unique: positional params pairwise distinct]', params_distinct_at(th, g, s.x))
            for j in (0, 1):
                for lbl, f in args_of(cx, g, s.out, s.x, s.pk[j], s.pos[j], s.own[j]):
                    vc.oblige('call-pre[pack_unique: pack %d: %s]' % (j + 1, lbl), f)
            vc.assume(same_content(cx, s.pk[0], s.pk[1]))

        def use_pack_extensionality():
            """ASSUMED (definition of the sort Pack): a call pack is determined by its content"""
            vc.assume(z3.Implies(same_content(cx, s.pk[0], s.pk[1]), s.pk[0] == s.pk[1]))
        return {'use_pack_unique': use_pack_unique, 'use_pack_extensionality': use_pack_extensionality}

    def requires(self, s):
        cx, th, g = s.cx, s.th, s.g0
        return [('IH: every parent of x already carries its dataflow meaning', th.forall_nodes(lambda p: z3.Implies(g.edge(p, s.x), s.out(p) == s.sem(p)))),
                ('model_ok: positional params pairwise distinct', params_distinct_at(th, g, s.x)),
                ('post of Executor.execute for x: output = apply(operation, call pack)', s.out_x == cx.apply(s.op, s.pk[0]))] + \
            args_of(cx, g, s.out, s.x, s.pk[0], s.pos[0], s.own[0]) + \
            [('defining equation of sem at a node with an operation: sem(x) = apply(op_x, pack of the parents\' meanings)', s.sem(s.x) == cx.apply(s.op, s.pk[1]))] + \
            args_of(cx, g, s.sem, s.x, s.pk[1], s.pos[1], s.own[1])

    def ensures(self, s, result):
        return [('exec_sem step: the output of x equals its dataflow meaning sem(x)', s.out_x == s.sem(s.x))]


CONTRACTS = [Run(), Execute()] + [GetExecutionOrder(m) for m in ('no cache', 'miss, no sort order cached', 'miss, sort order cached', 'hit')] + [ OutputCompile(), AdditionalNodesCompile(), NbunchAncestors(), ReduceCompile(),
             MakeObservedCopy('copy'), MakeObservedCopy('operation'), ObservedCompileFinal(), ObservedCompileWiring(), ObservedLoad(), AdditionalNodesLoad(),
             TwoLoads(), LemmaPackUnique(), LemmaExecSemStep()]

TRUSTED_BASE = ['pyvc engine: proxies, path forking, loop cutting, instrumenter rewrites D1-D2, T1-T6 (+ T6d dict comprehension, T6g generator expression as list comprehension)',
                'pyvc.nxspec: model of networkx.DiGraph / python dict heap / set / list (sorted = ordered permutation); sanity-tested on the installed networkx every run',
                'python call semantics f(*lst, **dct): the callee receives exactly the list elements in order and the dict entries as keywords (modelled by one marker argument; sanity-tested)',
                'nx.ancestors(G, x) = exactly the nodes with a non-empty path to x, NetworkXError for x not in G; nx.DiGraph(G.edges) has the edges of G, no edge data and NO isolated node; '
                'nx.topological_sort lists every node once, parents first (sanity-tested)',
                'nx_constant_topological_sort (elfi/executor.py) returns every node once, parents before children (C02 covers it; assumed here as a callee contract)',
                'utils.observed_name is injective on user names and its results are not user names; distinct literal node / parameter names denote distinct nodes / names',
                'PoolLoader (C05) and RandomStateCompiler / RandomStateLoader (C02) are under the contracts of their own properties']
ASSUMPTIONS = ['A-LOG: logging calls have no effect',
               'operations are total python functions (apply is a function of the operation and the call pack; an exception raised by an operation is re-raised by execute and not modelled)',
               'loaded nets are acyclic, every edge carries a param, the keyword names on the in-edges of one node are pairwise distinct (model_ok, C14; the compiler adds the '
               "names batch_size / meta / random_state / observed, which must not clash with a user's keyword parent)",
               "a source node's data dict holds only 'attr_dict' (GraphicalModel.add_node), the flag '_stochastic' is tested by presence",
               'A-CACHE: the executor cache passed in graph[_executor_cache] is arbitrary except that a stored sort_order is a topological listing of the net; that a list stored '
               'under a `needed` key by an EARLIER batch is right for the CURRENT net (same outputs-with-operation => same supplied values) is a cross-batch invariant that is not proved',
               '_batch_size / _meta / _random_state are reserved names (no user node is called so)']
NOT_PROVED = ["composition: 'for any model graph, every requested node output equals sem(G, x)' - proved per function (compiler passes, loaders, execution order, execute, _run) and for "
              'one induction step (lemma exec_sem); the composition of the five compiler passes and four loaders into client.compile / load_data is bounded only',
              "'rejected instead of being evaluated' is decided on the compiled graph (a stochastic user node is an ancestor of the observed twin of a node that uses observed data); the twin of "
              'an UNOBSERVED stochastic observable node (a Simulator without observed data) has no parents in the compiled net, is not seen by that check and is evaluated without inputs '
              '(known finding C03-K1, bounded signature c03:unobserved-stochastic-twin-evaluated)',
              'cache hits of Executor.get_execution_order (see A-CACHE); the bounded harness uses a fresh context per run and never hits the cache']


def sanity():
    out = list(nxspec.sanity())
    import networkx as nx
    G = nx.DiGraph()
    G.add_edges_from([('a', 'b'), ('b', 'c'), ('x', 'c')])
    G.add_node('iso')
    out.append(('nx.ancestors = nodes with a non-empty path', nx.ancestors(G, 'c') == {'a', 'b', 'x'} and nx.ancestors(G, 'a') == set()))
    try:
        nx.ancestors(G, 'zz')
        ok = False
    except nx.NetworkXError:
        ok = True
    out.append(('nx.ancestors of a missing node raises NetworkXError', ok))
    G['a']['b']['param'] = 0
    D = nx.DiGraph(G.edges)
    out.append(('nx.DiGraph(G.edges): same edges, no edge data, no isolated node', set(D.edges) == set(G.edges) and 'iso' not in D and D['a']['b'] == {}))
    D.add_nodes_from(G.nodes)
    out.append(('add_nodes_from(G.nodes) adds the missing nodes and keeps the edges', 'iso' in D and set(D.edges) == set(G.edges)))
    ts = list(nx.topological_sort(G))
    out.append(('nx.topological_sort: every node once, parents first', sorted(ts) == sorted(G.nodes) and all(ts.index(u) < ts.index(v) for u, v in G.edges)))
    got = []

    def f(*a, **k):
        got.append((a, k))
    f(*[1, 2], **{'x': 3})
    out.append(('f(*lst, **dct) passes the elements in order and the entries as keywords', got == [((1, 2), {'x': 3})]))
    out.append(('dict.keys() >= set is the superset test', ({'a': 1, 'b': 2}.keys() >= {'a', 'b'}) and not ({'a': 1}.keys() >= {'a', 'b'})))
    out.append(('dict.get of an absent key and of a stored None agree', {}.get('k') is None and {'k': None}.get('k') is None))
    from pyvc import native
    try:
        u = native.load_file_module('elfi/utils.py')
        names = ['a', 'b', '_a', 'a_observed', '_a_observed']
        ok = len({u.observed_name(n) for n in names}) == len(names) and u.observed_name('a') == '_a_observed' and u.args_to_tuple(1, 2) == (1, 2)
    except Exception:
        ok = False
    out.append(('observed_name is injective (format _<name>_observed); args_to_tuple returns its arguments', ok))
    return out


def bounded(tier, seed):
    from bounded import c03 as b
    return [b.run(tier, seed)]


_cache = {}


def replay_refuted(cname, rf):
    """a refuted obligation: look for a failing native input of the executable property (bounded/c03.py is the replay vehicle; the counter-model itself
    is a symbolic graph over the finitised universe)"""
    from bounded import c03 as b
    from pyvc import native
    elfi = native.import_elfi()
    known = (b.SIG_TWIN,)

    def fixed(inp, sig):
        f = b.check_case(elfi, inp, inp.get('seed'))
        if f and f['signature'] == sig:
            return dict(found=True, input=inp, observed=f['what'], signature=f['signature'])
        return None
    if 'get_execution_order' in cname and 'NetworkXError' in rf.get('kind', ''):
        r = fixed(b.F15_INPUT, b.SIG_F15)
        if r:
            return r
    if 'ObservedCompiler.compile' in cname:
        r = fixed(b.F10_INPUT, b.SIG_F10)
        if r:
            return r
    if 'run' not in _cache:
        _cache['run'] = b.run('quick', 0)
    fs = [f for f in _cache['run']['failures'] if f['signature'] not in known]
    pref = {'get_execution_order': ['c03:calls', b.SIG_F15, 'c03:exception'], 'ObservedCompiler': [b.SIG_F10, 'c03:value'], '_run': ['c03:value'],
            'Loader': ['c03:value', 'c03:exception'], 'AdditionalNodesLoader': [b.SIG_PENDING], 'two_loads': [b.SIG_PENDING]}
    want = [sg for k, sgs in pref.items() if k in cname for sg in sgs]
    fs.sort(key=lambda f: (want.index(f['signature']) if f['signature'] in want else len(want)))
    if fs:
        f = fs[0]
        return dict(found=True, input=f['input'], observed=f['what'], signature=f['signature'])
    return dict(found=False, searched=_cache['run']['bound'], cases=_cache['run']['cases'])


def replay_input(inp):
    from bounded import c03 as b
    return b.replay_input(inp)
