"""C04 - Sampler results do not depend on worker scheduling or parallelism.

The schedule is modelled where ELFI sees it: `client.is_ready(id)` is an UNINTERPRETED ORACLE (a fresh Boolean per call),
`client.apply` returns a fresh id, `client.get_result(id)` returns EXEC(net) of the net submitted under `id`, `remove_task`
deletes.  A postcondition proved with that oracle holds for every answer sequence.

Abstract view (class World) of one BatchHandler with its client and context:
  pending keys of `_pending_batches` = the contiguous range [lo, hi) in increasing order, ids : index -> task id,
  client side  live : id -> Bool (the domain of the client's task table), net : id -> Net, ovof : id -> override (ghost),
  ghost inverse pidx : id -> index (makes "distinct ids" a one-variable fact), mine : id -> Bool (issued through this handler),
  rm_seq[0:rm_n] the sequence of remove_task arguments.
handler_ok:  0 <= lo <= hi = _next_batch_index  and for lo <= i < hi:  live(ids i), pidx(ids i) = i, net(ids i) = LOADED(i, ovof(ids i)).
Spec functions (uninterpreted, independent of the code): LOADED(i, ov) = load_data(compiled_net, context, i) with the override
ov applied, EXEC(net) = Executor.execute(net), PROPOSAL(epoch, k) = what the k-th prepare_new_batch call after the epoch-th
creation of the SMC round generator returns.

The effect functions eff_* are the single statement of each handler contract: the callee contract proves "state after the REAL
body == eff(state before)", the callers (iterate, infer, reset, SMC.update) use the same eff as the stub of the callee.
"""
MANIFEST = {
    'category': 'proof',
    'text': 'With client.is_ready as an unconstrained oracle (fresh Boolean per call = every answer sequence) the real bodies of '
            'BatchHandler.submit / wait_next / cancel_pending / reset / has_ready / compute and its counters are verified against an abstract view '
            '(pending keys = contiguous index range with distinct live task ids holding the net of their index); ParameterInference.iterate is verified for all oracle answers to '
            'perform exactly one update(EXEC(LOADED(i, override_i)), i) with i = number of batches consumed so far, never more than max_parallel_batches outstanding; '
            'infer consumes indices c0, c0+1, ... each once, ends finished with no pending batch and no task of this handler left in the client, and consumes exactly '
            'objective-many batches when update leaves the objective alone; the native client implements the abstract client contract; SMC.update / prepare_new_batch / '
            '_init_new_round / _set_rejection_round keep the round discipline (proposal of pending batch i = PROPOSAL(epoch, i - round_start); generator re-created only with the '
            'index rewound; cancelled batches never reach update). A schedule-driven ClientBase subclass enumerating all is_ready answer strings and execution orders on the '
            'real Rejection / SMC is the labelled bounded stand-in and replay vehicle.',
    'note': 'Trusted: pyvc engine; OrderedDict proxy (contiguous-range view: insertion order, popitem(last), pop, items, keys); Executor.execute and load_data are pure functions '
            'of their arguments (C02/C03); GMDistribution.rvs is a function of generator state and arguments (C13). The step from "every update call receives a batch that is a '
            'function of (index, sampler state)" to "equal Sample objects" is induction over the consumed sequence (paper step; the bounded stand-in checks it end to end). '
            'NOT decided: multiprocessing / ipyparallel / dask clients satisfy the abstract client contract; real timing; thread safety.',
    'technique': 'deductive: modular contracts with an uninterpreted readiness oracle, loop invariants on the real AST (pyvc), z3/cvc5; bounded: exhaustive schedule trees on the real samplers',
}

import z3

from pyvc.core import cur, forall_range, OutOfSubset
from pyvc.engine import Contract, Loop, NS, make_object, inline, SeqIter
from pyvc.values import SInt, SBool, SKey, Sym, lift, term as T

I, B = z3.IntSort(), z3.BoolSort()
Net = z3.DeclareSort('Net')
Ov = z3.DeclareSort('Ov')
Bat = z3.DeclareSort('Batch')
AII, AIB, AINet, AIOv = z3.ArraySort(I, I), z3.ArraySort(I, B), z3.ArraySort(I, Net), z3.ArraySort(I, Ov)
LOADED = z3.Function('LOADED', I, Ov, Net)          # load_data(compiled_net, context, i) with the override applied
EXEC = z3.Function('EXEC', Net, Bat)                # Executor.execute(net)
NONE_OV = z3.Const('no_override', Ov)
PROPOSAL = z3.Function('PROPOSAL', I, I, Ov)        # (generator epoch, k-th prepare_new_batch call since its creation) -> override

A = z3.And


def forall_id(body):
    """for every task id.  Proof mode: a z3 ForAll; finitised mode: ids are confined to [0, fin_range) (see id_scope)"""
    vc = cur()
    if vc.fin is None:
        v = z3.Int('id@')
        return z3.ForAll([v], body(v))
    return z3.And([body(z3.IntVal(j)) for j in range(0, vc.fin_range)])


def id_scope(x):
    vc = cur()
    if vc.fin is None:
        return z3.BoolVal(True)
    return z3.And(x >= 0, x < vc.fin_range)


# ---------------------------------------------------------------------------------------------- the abstract view
VIEW_FIELDS = ('lo', 'hi', 'nxt', 'nsub', 'ids', 'pidx', 'live', 'net', 'ovof', 'mine', 'rm_n', 'rm_seq')


class View:
    """a plain record of the view terms (snapshots; the replay target of the effect functions)"""

    def __init__(self, **kw):
        self.__dict__.update(kw)

    def snap(self):
        return View(**{k: getattr(self, k) for k in VIEW_FIELDS})


class World(View):
    """the LIVE view: lo/hi/ids are what the OrderedDict proxy holds, nxt = handler._next_batch_index and
    nsub = context.num_submissions are read from / written to the stub objects the real code mutates"""

    def __init__(self, vc, tag=''):
        self.vc = vc
        self.lo, self.hi = vc.fresh_int('lo' + tag, size=True), vc.fresh_int('hi' + tag, size=True)
        self.rm_n = vc.fresh_int('rm_n' + tag, size=True)
        self.ids, self.pidx, self.rm_seq = vc.fresh('ids' + tag, AII), vc.fresh('pidx' + tag, AII), vc.fresh('rm_seq' + tag, AII)
        self.live, self.mine = vc.fresh('live' + tag, AIB), vc.fresh('mine' + tag, AIB)
        self.net, self.ovof = vc.fresh('net' + tag, AINet), vc.fresh('ovof' + tag, AIOv)
        self.handler = make_object('HandlerFields', attrs=dict(_next_batch_index=SInt(vc.fresh_int('next_index' + tag, size=True))))
        self.ctx = make_object('ComputationContextStub', attrs=dict(num_submissions=SInt(vc.fresh_int('num_submissions' + tag, size=True))),
                               methods=dict(callback=lambda self_, batch, batch_index: self.log.append(('callback', batch, batch_index))))
        self.compiled = make_object('CompiledNet')
        self.log = []           # python-level event log of THIS path
        self.ov_of = lambda netobj: netobj.ov      # which abstract override a python net object carries (set by the contract)

    nxt = property(lambda self: T(self.handler._next_batch_index), lambda self, v: setattr(self.handler, '_next_batch_index', SInt(v)))
    nsub = property(lambda self: T(self.ctx.num_submissions), lambda self, v: setattr(self.ctx, 'num_submissions', SInt(v)))

    def _vc_havoc(self, name='hv'):
        vc = cur()
        for k in ('lo', 'hi', 'nxt', 'nsub', 'rm_n'):
            setattr(self, k, vc.fresh_int(k + '_' + name, size=True))
        for k, srt in (('ids', AII), ('pidx', AII), ('rm_seq', AII), ('live', AIB), ('mine', AIB), ('net', AINet), ('ovof', AIOv)):
            setattr(self, k, vc.fresh(k + '_' + name, srt))

    def events(self, kind):
        return [e for e in self.log if e[0] == kind]


def pend(V, x):
    """task id x is one of the pending ones"""
    return A(V.lo <= V.pidx[x], V.pidx[x] < V.hi, V.ids[V.pidx[x]] == x)


def handler_ok(V):
    out = [('pending keys are the contiguous range [lo, next_index)', A(0 <= V.lo, V.lo <= V.hi, V.nxt == V.hi)),
           ('pending tasks are live, pairwise distinct (ghost inverse) and hold the net loaded for their index',
            forall_range(V.lo, V.hi, lambda i: A(V.live[V.ids[i]], V.pidx[V.ids[i]] == i, V.net[V.ids[i]] == LOADED(i, V.ovof[V.ids[i]])), 'i'))]
    if cur().fin is not None:
        out.append(('finitised scope of task ids', A(forall_range(V.lo, V.hi, lambda i: id_scope(V.ids[i]), 'i'), V.rm_n >= 0)))
    return out


def facts(named):
    return [f for _, f in named]


def same_view(Wn, E, fields=VIEW_FIELDS, what=''):
    return [('%s%s as specified' % (what, k), getattr(Wn, k) == getattr(E, k)) for k in fields]


# ---- effect functions: THE contracts of the handler operations (V is mutated; fresh ids / oracle values are passed in)
def eff_submit(V, y, ov):
    """appends next ↦ y, the fresh id of LOADED(next, ov); next' = next + 1; num_submissions' = + 1"""
    k = V.nxt
    V.ids, V.pidx = z3.Store(V.ids, k, y), z3.Store(V.pidx, y, k)
    V.live, V.mine = z3.Store(V.live, y, True), z3.Store(V.mine, y, True)
    V.net, V.ovof = z3.Store(V.net, y, LOADED(k, ov)), z3.Store(V.ovof, y, ov)
    V.hi, V.nxt, V.nsub = V.hi + 1, V.nxt + 1, V.nsub + 1


def eff_wait_next(V):
    """pops the SMALLEST key lo; the task leaves the client; -> (EXEC(net of lo), lo)"""
    x = V.ids[V.lo]
    res = (EXEC(V.net[x]), V.lo)
    V.live = z3.Store(V.live, x, False)
    V.lo = V.lo + 1
    return res


def eff_cancel(V):
    """every pending id is passed to remove_task exactly once (newest first) and leaves the client; map empty; next' = lo"""
    i, p = z3.Int('id@c'), z3.Int('p@c')
    n = V.hi - V.lo
    V.live = z3.Lambda([i], A(V.live[i], z3.Not(pend(V, i))))
    V.rm_seq = z3.Lambda([p], z3.If(A(p >= V.rm_n, p < V.rm_n + n), V.ids[V.hi - 1 - (p - V.rm_n)], V.rm_seq[p]))
    V.rm_n = V.rm_n + n
    V.hi = V.lo
    V.nxt = V.lo


def eff_reset(V):
    """cancel_pending, then next' = 0.  The map is empty afterwards, so [0, 0) describes it as well as [lo, lo)"""
    eff_cancel(V)
    V.lo = V.hi = V.nxt = z3.IntVal(0)


def has_ready_value(V, oracle):
    """has_ready(any=False): False when nothing is pending, otherwise the oracle's answer about the OLDEST task"""
    return A(V.hi > V.lo, oracle)


# ---------------------------------------------------------------------------------------------- proxies of library objects
class ODictRange(Sym):
    """collections.OrderedDict whose keys are the contiguous int range [lo, hi) in insertion (= increasing) order.
    Assumed library contract (sanity-tested): d[k] = v on a new key appends at the END, on an existing key keeps the position;
    popitem(last=False) pops the FIRST item, popitem() the LAST; pop(k) removes k; items()/keys()/iteration follow insertion
    order; list(d.items()) is a snapshot.  Operations that would leave the range view raise a `view[...]` obligation."""

    def __init__(self, W):
        self.W = W
        self.t = None

    def _present(self, k):
        return A(self.W.lo <= k, k < self.W.hi)

    def _vc_len(self):
        return SInt(self.W.hi - self.W.lo)

    def __bool__(self):
        return cur().branch(self.W.hi > self.W.lo)

    def __contains__(self, k):
        return cur().branch(self._present(T(k)))

    def __getitem__(self, k):
        k = T(k)
        cur().oblige('call-pre[OrderedDict[key]: key present]', self._present(k))
        return SInt(self.W.ids[k])

    def __setitem__(self, k, v):
        W, vc = self.W, cur()
        k, v = T(k), T(v)
        if vc.branch(self._present(k)):
            W.ids = z3.Store(W.ids, k, v)           # existing key: position kept
        else:
            ok = z3.Or(k == W.hi, W.lo == W.hi)
            vc.oblige('view[a new key is appended at the END of the ordered map: the keys stay a contiguous increasing range]', ok)
            vc.assume(ok)
            W.lo = z3.If(W.lo == W.hi, k, W.lo)
            W.hi = k + 1
            W.ids = z3.Store(W.ids, k, v)
        W.pidx = z3.Store(W.pidx, v, k)              # ghost inverse

    def popitem(self, last=True):
        W, vc = self.W, cur()
        if not isinstance(last, bool):
            raise OutOfSubset('popitem(last=<symbolic>)')
        vc.oblige('call-pre[popitem on a non-empty map]', W.hi > W.lo)
        if last:
            k = W.hi - 1
            W.hi = W.hi - 1
        else:
            k = W.lo
            W.lo = W.lo + 1
        return (SInt(k), SInt(W.ids[k]))

    def pop(self, k, *default):
        W, vc = self.W, cur()
        k = T(k)
        if default:
            raise OutOfSubset('OrderedDict.pop with a default')
        vc.oblige('call-pre[OrderedDict.pop: key present]', self._present(k))
        ok = z3.Or(k == W.lo, k == W.hi - 1)
        vc.oblige('view[removing a key leaves a contiguous range: it is the first or the last key]', ok)
        vc.assume(ok)
        v = W.ids[k]
        if vc.branch(k == W.hi - 1):
            W.hi = W.hi - 1
        else:
            W.lo = W.lo + 1
        return SInt(v)

    def __delitem__(self, k):
        self.pop(k)

    def _seq(self, what):
        W = self.W
        lo, ids = W.lo, W.ids
        elt = {'items': lambda j: (SInt(lo + j), SInt(ids[lo + j])), 'keys': lambda j: SInt(lo + j), 'values': lambda j: SInt(ids[lo + j])}[what]
        return SymSeq(W.hi - W.lo, elt)

    def items(self):
        return self._seq('items')

    def keys(self):
        return self._seq('keys')

    def values(self):
        return self._seq('values')

    def _vc_iter(self):
        return self._seq('keys')._vc_iter()

    def __iter__(self):
        raise OutOfSubset('iteration over the pending map needs a loop contract')


class SymSeq:
    """a sequence of symbolic length in index order (dict view / its list() snapshot / reversed(...))"""

    def __init__(self, n, elt):
        self.n, self.elt = n, elt

    def _vc_len(self):
        return SInt(self.n)

    def _vc_iter(self):
        return SeqIter(self.n, self.elt)

    def _vc_list(self):
        return SymSeq(self.n, self.elt)

    def __reversed__(self):
        n, elt = self.n, self.elt
        return SymSeq(n, lambda j: elt(n - 1 - j))

    def __iter__(self):
        raise OutOfSubset('iteration over a sequence of symbolic length needs a loop contract')


class NetObj:
    """what load_data returns: a graph object whose `nodes` are python dicts (the override loop of submit runs natively on it)"""
    NODES = ('t1', 't2', 'sim', 'd')

    def __init__(self, index):
        self.index = index
        self.ov = NONE_OV
        self.nodes = {k: {'operation': ('operation-of', k)} for k in self.NODES}
        self.graph = {}


def EXECUTE(net):          # marker for Executor.execute (never called: the abstract client only records it)
    raise OutOfSubset('Executor.execute is abstract here')


ExecutorStub = type('Executor', (), {'execute': staticmethod(EXECUTE)})


def abs_client(vc, W):
    """the ABSTRACT client contract of ClientBase on the view (live, net); submit / compute are the REAL ClientBase bodies"""

    def apply(self_, kallable, *args, **kwargs):
        okay = kallable is EXECUTE and len(args) == 1 and not kwargs and isinstance(args[0], NetObj)
        vc.oblige('call-pre[client.apply: the task is Executor.execute(loaded_net)]', z3.BoolVal(okay))
        if not okay:
            raise OutOfSubset('client.apply with something else than Executor.execute(loaded_net)')
        netobj = args[0]
        y = vc.fresh_int('task_id', size=True)
        vc.assume(z3.Not(W.live[y]))                       # a fresh id: not in the client's task table
        W.log.append(('apply', y, netobj, {k: dict(v) for k, v in netobj.nodes.items()}, W.snap()))
        ov = W.ov_of(netobj)
        W.live, W.mine = z3.Store(W.live, y, True), z3.Store(W.mine, y, True)
        W.net, W.ovof = z3.Store(W.net, y, LOADED(netobj.index, ov)), z3.Store(W.ovof, y, ov)
        return SInt(y)

    def apply_sync(self_, kallable, *args, **kwargs):
        okay = kallable is EXECUTE and len(args) == 1 and not kwargs and isinstance(args[0], NetObj)
        vc.oblige('call-pre[client.apply_sync: the task is Executor.execute(loaded_net)]', z3.BoolVal(okay))
        if not okay:
            raise OutOfSubset('client.apply_sync with something else than Executor.execute(loaded_net)')
        W.log.append(('apply_sync', args[0]))
        return SKey(EXEC(LOADED(args[0].index, W.ov_of(args[0]))))

    def get_result(self_, task_id):
        x = T(task_id)
        vc.oblige('call-pre[client.get_result: the task is in the client (each result fetched once, never after remove_task)]', W.live[x])
        W.log.append(('get_result', x, W.snap()))
        r = SKey(EXEC(W.net[x]))
        W.live = z3.Store(W.live, x, False)
        return r

    def is_ready(self_, task_id):
        x = T(task_id)
        vc.oblige('call-pre[client.is_ready: the task is in the client]', W.live[x])
        b = vc.fresh('oracle', B)                          # THE ORACLE: nothing is known about the answer
        W.log.append(('is_ready', x, b))
        return SBool(b)

    def remove_task(self_, task_id):
        x = T(task_id)
        W.log.append(('remove_task', x))
        W.live = z3.Store(W.live, x, False)
        W.rm_seq = z3.Store(W.rm_seq, W.rm_n, x)
        W.rm_n = W.rm_n + 1

    def load_data(self_, compiled_net, context, batch_index):
        vc.oblige('call-pre[load_data receives the handler\'s compiled net and context]', z3.BoolVal(compiled_net is W.compiled and context is W.ctx))
        n = NetObj(T(batch_index))
        W.log.append(('load_data', n.index, n))
        return n

    return make_object('AbstractClient', methods=dict(
        apply=apply, apply_sync=apply_sync, get_result=get_result, is_ready=is_ready, remove_task=remove_task, load_data=load_data,
        submit=inline(vc, 'elfi/client.py::ClientBase.submit'), compute=inline(vc, 'elfi/client.py::ClientBase.compute')),
        properties=dict(num_cores=lambda self_: SInt(vc.fresh_int('num_cores'))))


HANDLER_PROPS = ('next_index', 'total', 'num_ready', 'num_pending', 'has_pending', 'pending_indices', 'num_cores')


def real_handler(vc, W, stubs=None):
    """a BatchHandler `self` whose fields are the view and whose properties are the REAL bodies"""
    props = {p: inline(vc, 'elfi/client.py::BatchHandler.%s' % p) for p in HANDLER_PROPS}
    h = make_object('BatchHandlerUnderContract', properties=props, methods=stubs or {}, bases=(type(W.handler),))
    h.__dict__ = W.handler.__dict__            # the same field storage: World.nxt reads what the real code writes
    W.handler = h
    h._pending_batches = ODictRange(W)
    h.client = abs_client(vc, W)
    h.context = W.ctx
    h.compiled_net = W.compiled
    return h


class HandlerContract(Contract):
    prop = 'C04'
    fin = 4
    fin_range = 6

    def env(self, vc):
        return dict(Executor=ExecutorStub)

    def world(self, vc, stubs=None):
        W = World(vc)
        h = real_handler(vc, W, stubs)
        return W, h

    def requires(self, s):
        return handler_ok(s.W)

    def snapshot(self, s):
        return dict(W=s.W.snap())


# ---------------------------------------------------------------------------------------------- BatchHandler.submit
class Submit(HandlerContract):
    target = 'elfi/client.py::BatchHandler.submit'

    def __init__(self, form):
        self.form = form            # none | empty | overrides
        self.label = form

    def setup(self, vc):
        W, h = self.world(vc)
        s = NS(W=W, h=h)
        if self.form == 'overrides':
            s.ov = z3.Const('given_override', Ov)
            s.v1, s.v2 = make_object('Value1'), make_object('Value2')
            s.batch = {'t1': s.v1, 't2': s.v2}
        else:
            s.ov = NONE_OV
            s.batch = None if self.form == 'none' else {}
        W.ov_of = lambda netobj: s.ov      # DEFINITION of LOADED(i, ov): the net loaded for i with the override `ov` (the abstract value of `batch`) applied
        return s, (h,) + (() if self.form == 'none' else (s.batch,)), {}

    def ensures(self, s, result):
        W, old = s.W, s.old.W
        ap, ld = W.events('apply'), W.events('load_data')
        if len(ap) != 1 or len(ld) != 1:
            return [('exactly one load_data and one client.apply', z3.BoolVal(False))]
        y, netobj, nodes = ap[0][1], ap[0][2], ap[0][3]
        want_nodes = {k: {'operation': ('operation-of', k)} for k in NetObj.NODES}
        if self.form == 'overrides':
            want_nodes['t1'], want_nodes['t2'] = {'output': s.v1}, {'output': s.v2}
        same_nodes = set(nodes) == set(want_nodes) and all(
            set(nodes[k]) == set(want_nodes[k]) and all(nodes[k][a] is want_nodes[k][a] or nodes[k][a] == want_nodes[k][a] for a in nodes[k]) for k in nodes)
        E2 = old.snap()
        eff_submit(E2, y, s.ov)
        return [('the net is loaded for index = next_index', ld[0][1] == old.nxt),
                ('the submitted net is that loaded net with exactly the overrides applied (output set, operation removed), other nodes untouched',
                 z3.BoolVal(netobj is ld[0][2] and same_nodes)),
                ('the task id is fresh', z3.Not(old.live[y]))] + \
            same_view(W, E2, what='submit: ') + \
            [('handler_ok re-established: ' + n, f) for n, f in handler_ok(W)[:2]]


# ---------------------------------------------------------------------------------------------- BatchHandler.wait_next
class WaitNext(HandlerContract):
    target = 'elfi/client.py::BatchHandler.wait_next'

    def setup(self, vc):
        W, h = self.world(vc)
        return NS(W=W, h=h), (h,), {}

    def raises(self, s):
        return {'ValueError': s.old.W.lo == s.old.W.hi}

    def iff_raises(self, s):
        return [('a normal return only if something was pending', s.old.W.lo < s.old.W.hi)]

    def ensures(self, s, result):
        W, old = s.W, s.old.W
        E = old.snap()
        b, i = eff_wait_next(E)
        cb, gr = W.events('callback'), W.events('get_result')
        if not (isinstance(result, tuple) and len(result) == 2):
            return [('returns the pair (batch, batch_index)', z3.BoolVal(False))]
        return [('pops the SMALLEST pending index', T(result[1]) == old.lo),
                ('returns the result of the net submitted for that index', A(T(result[0]) == EXEC(old.net[old.ids[old.lo]]),
                                                                          T(result[0]) == EXEC(LOADED(old.lo, old.ovof[old.ids[old.lo]])))),
                ('get_result is called once, on the task of that index', z3.BoolVal(len(gr) == 1) if len(gr) != 1 else gr[0][1] == old.ids[old.lo]),
                ('context.callback is called exactly once, with (batch, batch_index)',
                 z3.BoolVal(len(cb) == 1 and cb[0][1] is result[0]) if not (len(cb) == 1 and cb[0][1] is result[0]) else T(cb[0][2]) == old.lo)] + \
            same_view(W, E, what='wait_next: ') + [('handler_ok re-established: ' + n, f) for n, f in handler_ok(W)[:2]]


# ---------------------------------------------------------------------------------------------- BatchHandler.cancel_pending
class CancelPending(HandlerContract):
    """loop 0: `for batch_index, id in reversed(list(self._pending_batches.items()))` - j = number of items done"""
    target = 'elfi/client.py::BatchHandler.cancel_pending'

    def setup(self, vc):
        W, h = self.world(vc)
        return NS(W=W, h=h), (h,), {}

    def _inv(self, s, l):
        W, E0, j = s.W, l.entry.W, l.it.index
        E = E0.snap()
        E.lo = E0.hi - j                     # the effect of cancelling the j newest items = eff_cancel on the sub-range [hi0 - j, hi0)
        eff_cancel(E)
        return [('the j newest keys are gone, the next index is rewound to the oldest cancelled', A(W.lo == E0.lo, W.hi == E0.hi - j, W.nxt == E0.hi - j, W.nsub == E0.nsub, W.rm_n == E0.rm_n + j)),
                ('ids, nets, ghost inverse untouched', A(W.ids == E0.ids, W.pidx == E0.pidx, W.net == E0.net, W.ovof == E0.ovof, W.mine == E0.mine)),
                ('exactly the j newest tasks left the client', W.live == E.live),
                ('remove_task was called once for each of them, newest first', W.rm_seq == E.rm_seq)]

    @property
    def loops(self):
        return {0: Loop(inv=self._inv, modifies=lambda s, l: [s.W], snapshot=lambda s, l: dict(W=s.W.snap()))}

    def raises(self, s):
        return {}        # the `Batches are not in order` branch is unreachable under handler_ok

    def ensures(self, s, result):
        W, old = s.W, s.old.W
        E = old.snap()
        eff_cancel(E)
        return same_view(W, E, what='cancel_pending: ') + \
            [('no pending batch is left and the next index is the oldest cancelled one', A(W.hi == W.lo, W.nxt == old.lo)),
             ('every pending task has left the client', forall_range(old.lo, old.hi, lambda i: z3.Not(W.live[old.ids[i]]), 'i')),
             ('every pending id was passed to remove_task exactly once (ids are pairwise distinct)',
              A(W.rm_n == old.rm_n + (old.hi - old.lo), forall_range(0, old.hi - old.lo, lambda k: W.rm_seq[old.rm_n + k] == old.ids[old.hi - 1 - k], 'k'))),
             ('no other task is touched', forall_id(lambda x: z3.Implies(z3.Not(pend(old, x)), W.live[x] == old.live[x])))] + \
            [('handler_ok re-established: ' + n, f) for n, f in handler_ok(W)[:2]]


def stub_cancel(W):
    def cancel_pending(self_):
        cur().libcall('stub:cancel_pending', ())
        for n, f in handler_ok(W)[:2]:
            cur().oblige('call-pre[cancel_pending: handler_ok: %s]' % n, f)
        W.log.append(('cancel_pending', W.snap()))
        eff_cancel(W)
    return cancel_pending


class Reset(HandlerContract):
    target = 'elfi/client.py::BatchHandler.reset'

    def setup(self, vc):
        W = World(vc)
        h = real_handler(vc, W, stubs=dict(cancel_pending=stub_cancel(W)))
        return NS(W=W, h=h), (h,), {}

    def ensures(self, s, result):
        W, old = s.W, s.old.W
        E = old.snap()
        eff_reset(E)
        return [('cancel_pending is called once', z3.BoolVal(len(W.events('cancel_pending')) == 1)),
                ('no pending batch is left, the next index is 0', A(W.hi == W.lo, W.nxt == 0)),
                ('every pending task has left the client', forall_range(old.lo, old.hi, lambda i: z3.Not(W.live[old.ids[i]]), 'i'))] + \
            same_view(W, E, fields=[f for f in VIEW_FIELDS if f not in ('lo', 'hi')], what='reset: ')


# ---------------------------------------------------------------------------------------------- BatchHandler.has_ready
class HasReady(HandlerContract):
    """any=False (the only form used in the tree): loop 0 is left by `return` / `break` in its first iteration"""
    target = 'elfi/client.py::BatchHandler.has_ready'
    label = 'any=False'

    def setup(self, vc):
        W, h = self.world(vc)
        return NS(W=W, h=h), (h,), {}

    loops = {0: Loop(inv=lambda s, l: [('no iteration completes: the loop is left in its first round', l.it.index == 0)])}

    def ensures(self, s, result):
        W, old = s.W, s.old.W
        asked = W.events('is_ready')
        r = T(result)
        if len(asked) == 0:
            out = [('nothing pending: False, without asking the client', A(r == z3.BoolVal(False), old.lo == old.hi))]
        elif len(asked) == 1:
            out = [('otherwise ONE question, about the OLDEST pending task, and its answer is the result',
                    A(asked[0][1] == old.ids[old.lo], r == asked[0][2], r == has_ready_value(old, asked[0][2])))]
        else:
            out = [('at most one question to the client', z3.BoolVal(False))]
        return out + same_view(W, old, what='has_ready changes nothing: ')


# ---------------------------------------------------------------------------------------------- counters, compute
class Counters(HandlerContract):
    def __init__(self, name):
        self.name = name
        self.target = 'elfi/client.py::BatchHandler.%s' % name

    def setup(self, vc):
        W, h = self.world(vc)
        return NS(W=W, h=h), (h,), {}

    def ensures(self, s, result):
        W, old = s.W, s.old.W
        want = dict(next_index=lambda: T(result) == old.nxt, total=lambda: T(result) == old.nxt,
                    num_pending=lambda: T(result) == old.hi - old.lo, num_ready=lambda: T(result) == old.lo,
                    has_pending=lambda: T(result) == (old.hi > old.lo),
                    pending_indices=lambda: A(T(len_of(result)) == old.hi - old.lo, forall_range(0, old.hi - old.lo, lambda k: T(result.elt(k)) == old.lo + k, 'k')))
        return [('%s is what the view says' % self.name, want[self.name]())] + same_view(W, old, what='a counter changes nothing: ')


def len_of(x):
    return x._vc_len()


class Compute(HandlerContract):
    target = 'elfi/client.py::BatchHandler.compute'

    def setup(self, vc):
        W, h = self.world(vc)
        idx = vc.fresh_int('batch_index', size=True)
        return NS(W=W, h=h, idx=idx), (h, SInt(idx)), {}

    def ensures(self, s, result):
        W, old = s.W, s.old.W
        return [('blocking compute returns the result of the net loaded for that index (no override), through apply_sync', T(result) == EXEC(LOADED(s.idx, NONE_OV))),
                ('no task is queued', z3.BoolVal(len(W.events('apply')) == 0 and len(W.events('apply_sync')) == 1))] + same_view(W, old, what='compute changes nothing: ')


CONTRACTS = [Submit('none'), Submit('empty'), Submit('overrides'), WaitNext(), CancelPending(), Reset(), HasReady()] + \
    [Counters(n) for n in ('next_index', 'total', 'num_pending', 'num_ready', 'has_pending', 'pending_indices')] + [Compute()]
